"""Models of the std / num items the executed MIR calls. dispatch() returns NotImplemented when no model applies."""
import re
import z3
from engine import (VInt, VBool, VBig, VStruct, VEnum, VRef, VOpaque, VSeq, VDigits, VFn, UNIT, Cell, clone, rng, wrap,
                    in_range, last_seg, Unsupported, PathAbort, ENUM_STD)
from mirparse import INT_TYPES, find_top, match_close, split_top

U64MAX = (1 << 64) - 1


def deref(E, v):
    while isinstance(v, VRef):
        v = E.read_ref(v)
    return v


def some(v): return VEnum("Option", "Some", [v])
NONE = lambda: VEnum("Option", "None", [])
def ok(v): return VEnum("Result", "Ok", [v])
def err(v): return VEnum("Result", "Err", [v])


def fork_opt(E, cond, val, what):
    """Some(val) if cond else None — forks"""
    i = E.choose([cond, z3.Not(cond)], what)
    return some(val) if i == 0 else NONE()


def int_ty_of(name):
    m = re.search(r"\b(u8|u16|u32|u64|u128|usize|i8|i16|i32|i64|i128|isize)\b", name)
    return m.group(1) if m else None


def parse_trait_call(c):
    """<Self as Trait>::method -> (self, trait, method) or None"""
    if not c.startswith("<"):
        return None
    k = match_close(c, 0)
    inner, rest = c[1:k], c[k + 1:].lstrip(":")
    a = find_top(inner, " as ")
    if a < 0:
        return (inner.strip(), None, rest)
    trait = re.sub(r"^(?:[a-z_0-9]+::)+", "", inner[a + 4:].strip())
    return (inner[:a].strip(), trait, re.sub(r"::<.*$", "", rest))


def big_of(E, v):
    v = deref(E, v)
    if isinstance(v, VBig):
        return v.t
    if isinstance(v, VInt):
        return v.t
    if isinstance(v, VStruct) and len(v.fields) == 1:
        return big_of(E, v.fields[0])
    raise Unsupported("not a big integer: %r" % (v,))


def floor_div(E, n, d):
    q = E.fresh("q")
    r = E.fresh("r")
    E.pc.append(n == q * d + r)
    E.pc.append(z3.If(d > 0, z3.And(r >= 0, r < d), z3.And(r <= 0, r > d)))
    return q


def ceil_div(E, n, d):
    q = E.fresh("q")
    r = E.fresh("r")
    E.pc.append(n == q * d + r)
    E.pc.append(z3.If(d > 0, z3.And(r <= 0, r > -d), z3.And(r >= 0, r < -d)))
    return q


def ordering(E, x, y):
    i = E.choose([x < y, x == y, x > y], "cmp")
    return VEnum("Ordering", ["Less", "Equal", "Greater"][i], [])


def dispatch(E, c, args):
    mo = re.match(r"^<(.*) as (?:std::cmp::|core::cmp::)?PartialOrd(?:<.*>)?>::(lt|le|gt|ge)$", c, re.S)
    if mo and len(args) == 2 and E.P.resolve("<%s as PartialOrd>::partial_cmp" % mo.group(1)) is not None:
        # the provided comparison operators of a crate type with its own partial_cmp: defined through it (None compares false)
        r_ = E.force_arg(E.call("<%s as PartialOrd>::partial_cmp" % mo.group(1), list(args)))
        if isinstance(r_, VEnum) and r_.ty == "Option":
            if r_.variant == "None":
                return VBool(z3.BoolVal(False))
            o_ = E.force_arg(r_.fields[0])
            if isinstance(o_, VEnum):
                return VBool(z3.BoolVal(o_.variant in {"lt": ("Less",), "le": ("Less", "Equal"), "gt": ("Greater",), "ge": ("Greater", "Equal")}[mo.group(2)]))
    mb = re.match(r"^<&?(u8|u16|u32|u64|u128|usize) as (?:std::ops::|core::ops::)?(BitAnd|BitOr|BitXor)<&?(?:u8|u16|u32|u64|u128|usize)>>::(bitand|bitor|bitxor)$", c)
    if mb and len(args) == 2:
        a_, b_ = deref(E, args[0]), deref(E, args[1])
        if isinstance(a_, VInt) and isinstance(b_, VInt):
            return E.binop(mb.group(2), a_, b_)
    tc = parse_trait_call(c)
    # ------------------------------------------------------------ Try / FromResidual
    if tc and tc[1] == "Try" and tc[2] == "branch":
        v = E.force_arg(args[0])
        if isinstance(v, VOpaque):
            # result of an opaque callee (only error-text paths are opaque): either outcome
            b = E.fresh("opaque_ok", "bool")
            i = E.choose([b, z3.Not(b)], "opaque try")
            return VEnum("ControlFlow", "Continue", [VOpaque(v.tag + "#ok")]) if i == 0 else \
                VEnum("ControlFlow", "Break", [VEnum("Result", "Err", [VOpaque(v.tag + "#err")])])
        if v.ty == "Result":
            return VEnum("ControlFlow", "Continue", [v.fields[0]]) if v.variant == "Ok" else VEnum("ControlFlow", "Break", [VEnum("Result", "Err", [v.fields[0]])])
        if v.ty == "Option":
            return VEnum("ControlFlow", "Continue", [v.fields[0]]) if v.variant == "Some" else VEnum("ControlFlow", "Break", [VEnum("Option", "None", [])])
    if tc and tc[1] and tc[1].startswith("FromResidual") and tc[2] == "from_residual":
        v = deref(E, args[0])
        if v.ty == "Result":
            e = v.fields[0]
            # error conversion From<E1> for E2: JsError <- DeserializeError etc. are opaque payloads
            return VEnum("Result", "Err", [e])
        return VEnum("Option", "None", [])
    # ------------------------------------------------------------ Into / From between integers and to bigints
    if tc and tc[1] and tc[2] in ("into", "from") and (tc[1].startswith("Into<") or tc[1].startswith("From<")):
        src_ty, dst_ty = (tc[0], tc[1][5:-1]) if tc[2] == "into" else (tc[1][5:-1], tc[0])
        a = deref(E, args[0]) if args else None
        if "num_bigint::Big" in dst_ty or dst_ty in ("BigInt", "num_bigint::BigInt"):
            if isinstance(a, VInt):
                return VBig(a.t)
            if isinstance(a, VBig):
                return a
        if last_seg(dst_ty) in INT_TYPES and isinstance(a, VInt):
            return VInt(a.t, last_seg(dst_ty))     # lossless by construction (From is only implemented for widening)
        if isinstance(a, VBool) and last_seg(dst_ty) in INT_TYPES:
            return VInt(z3.If(a.t, 1, 0), last_seg(dst_ty))
        if tc[2] == "into":
            # blanket impl: <A as Into<B>>::into == <B as From<A>>::from
            d = E.P.resolve("<%s as From<%s>>::from" % (dst_ty, src_ty))
            if d is not None:
                return E.run_fn(E.P.fns[d], args)
            if norm(src_ty) == norm(dst_ty) or src_ty == "T" or dst_ty == "T":
                return args[0]
            # generic T resolved only at run time: pick the From impl by the runtime value
            if isinstance(a, (VStruct, VEnum)):
                nm = a.name if isinstance(a, VStruct) else a.ty
                d = E.P.resolve("<%s as From<%s>>::from" % (dst_ty, nm))
                if d is not None:
                    return E.run_fn(E.P.fns[d], args)
        if tc[2] == "from" and norm(src_ty) == norm(dst_ty):
            return args[0]
    if tc and tc[1] and tc[1].startswith("TryFrom<") and tc[2] == "try_from":
        dst = last_seg(tc[0])
        a = deref(E, args[0])
        if dst in INT_TYPES and isinstance(a, VInt):
            i = E.choose([in_range(a.t, dst), z3.Not(in_range(a.t, dst))], "try_from")
            return ok(VInt(a.t, dst)) if i == 0 else err(VOpaque("TryFromIntError"))
    if tc and tc[1] and tc[1].startswith("TryInto<") and tc[2] == "try_into":
        dst = tc[1][8:-1]
        a = deref(E, args[0])
        if last_seg(dst) in INT_TYPES and isinstance(a, VInt):
            d = last_seg(dst)
            i = E.choose([in_range(a.t, d), z3.Not(in_range(a.t, d))], "try_into")
            return ok(VInt(a.t, d)) if i == 0 else err(VOpaque("TryFromIntError"))
        dd = E.P.resolve("<%s as TryFrom<%s>>::try_from" % (dst, tc[0]))
        if dd is not None:
            return E.run_fn(E.P.fns[dd], args)
    # ------------------------------------------------------------ Clone / Default / Deref / AsRef / Borrow
    if tc and tc[1] == "Clone" and tc[2] == "clone":
        return clone(deref(E, args[0]))
    if tc and (tc[1] in ("Deref", "DerefMut", "AsRef<[u64]>", "Borrow") or (tc[1].startswith("AsRef<") and last_seg(tc[0]) in ("Rc", "Box", "Arc"))) and tc[2] in ("deref", "deref_mut", "as_ref", "borrow"):
        v = args[0]
        inner = deref(E, v)
        from engine import VLazy
        if isinstance(inner, VLazy) and last_seg(inner.ty) in ("Rc", "Box", "Arc"):
            r = v
            while isinstance(E.read_ref(r), VRef):
                r = E.read_ref(r)
            k = find_top(inner.ty, "<")
            ety = inner.ty[k + 1:match_close(inner.ty, k)]
            return VRef(r.cell, r.path + (("field", 0, ety),))
        if isinstance(inner, VStruct) and inner.name in ("Rc", "Box", "Arc") and inner.fields:
            r = v
            while isinstance(E.read_ref(r), VRef):
                r = E.read_ref(r)
            return VRef(r.cell, r.path + (("field", 0),))
        return v if isinstance(v, VRef) and not isinstance(E.read_ref(v), VRef) else (E.read_ref(v) if isinstance(v, VRef) else v)
    if tc and tc[1] == "Default" and tc[2] == "default":
        t = last_seg(tc[0])
        if t in INT_TYPES:
            return VInt(0, t)
        if t == "bool":
            return VBool(False)
        if t == "Option":
            return NONE()
    # ------------------------------------------------------------ comparisons
    if tc and last_seg(tc[0]) == "Option" and tc[1] in ("Ord", "PartialOrd", "PartialEq") and tc[2] in ("cmp", "partial_cmp", "eq", "ne") and len(args) == 2:
        # std: None < Some(_); Some(a) vs Some(b) compares a with b (payloads by identity / the crate's own impl)
        a, b = E.force_arg(deref(E, args[0])), E.force_arg(deref(E, args[1]))
        if isinstance(a, VEnum) and isinstance(b, VEnum) and a.ty == "Option" and b.ty == "Option":
            k = find_top(tc[0], "<")
            inner = tc[0][k + 1:match_close(tc[0], k)] if k > 0 else "?"
            if a.variant != b.variant or a.variant == "None":
                o = "Equal" if a.variant == b.variant else ("Less" if a.variant == "None" else "Greater")
                if tc[2] in ("eq", "ne"):
                    return VBool((o == "Equal") == (tc[2] == "eq"))
                return VEnum("Ordering", o, []) if tc[2] == "cmp" else some(VEnum("Ordering", o, []))
            xa, xb = deref(E, a.fields[0]), deref(E, b.fields[0])
            from engine import VLazy as _VL
            if isinstance(xa, (_VL, VOpaque)) and isinstance(xb, (_VL, VOpaque)):
                ua, ub = E.as_u(xa), E.as_u(xb)
                if tc[2] in ("eq", "ne"):
                    return VBool(ua == ub if tc[2] == "eq" else ua != ub)
                lt = z3.Function("derived_ord", E.U, E.U, z3.BoolSort())
                E.pc.append(z3.Not(z3.And(lt(ua, ub), lt(ub, ua))))
                i = E.choose([ua == ub, z3.And(ua != ub, lt(ua, ub)), z3.And(ua != ub, z3.Not(lt(ua, ub)))], "option payload order")
                if i == 2:
                    E.pc.append(lt(ub, ua))
                o = VEnum("Ordering", ["Equal", "Less", "Greater"][i], [])
                return o if tc[2] == "cmp" else some(o)
            return E.call("<%s as %s>::%s" % (inner, tc[1], tc[2]), [VRef(Cell(xa, "opt_a")), VRef(Cell(xb, "opt_b"))])
    if tc and tc[1] in ("PartialEq", "PartialEq<u64>") or (tc and tc[1] and tc[1].startswith("PartialEq") and tc[2] in ("eq", "ne")):
        if tc[2] in ("eq", "ne"):
            a, b = deref(E, args[0]), deref(E, args[1])
            t = val_eq(E, a, b)
            return VBool(t if tc[2] == "eq" else z3.Not(t))
    if tc and tc[1] and tc[1].startswith("PartialEq") and tc[2] == "ne":
        d = E.P.resolve(c[:-2] + "eq")
        if d is not None:
            r = E.run_fn(E.P.fns[d], args)
            return VBool(z3.Not(r.t))
    if tc and tc[1] and tc[1].startswith("PartialOrd") and tc[2] in ("lt", "le", "gt", "ge") and not isinstance(deref(E, args[0]), (VInt, VBig)):
        selfty, cargs = tc[0], list(args)
        while selfty.startswith("&"):
            # impl PartialOrd<&B> for &A forwards to the referents
            selfty = re.sub(r"^&(mut )?", "", selfty).strip()
            cargs = [E.read_ref(a) if isinstance(a, VRef) and isinstance(E.read_ref(a), VRef) else a for a in cargs]
        d = E.P.resolve("<%s as PartialOrd>::partial_cmp" % selfty)
        if d is not None:
            r = E.force_arg(E.run_fn(E.P.fns[d], cargs))
            if r.variant == "None":
                return VBool(False)
            o = r.fields[0].variant
            return VBool({"lt": o == "Less", "le": o in ("Less", "Equal"), "gt": o == "Greater", "ge": o in ("Greater", "Equal")}[tc[2]])
    if tc and tc[1] in ("Ord", "PartialOrd") or (tc and tc[1] and tc[1].startswith("PartialOrd")):
        a, b = deref(E, args[0]), deref(E, args[1])
        if isinstance(a, (VInt, VBig)) and isinstance(b, (VInt, VBig)):
            if tc[2] == "cmp":
                return ordering(E, a.t, b.t)
            if tc[2] == "partial_cmp":
                return some(ordering(E, a.t, b.t))
            if tc[2] in ("lt", "le", "gt", "ge"):
                return VBool({"lt": a.t < b.t, "le": a.t <= b.t, "gt": a.t > b.t, "ge": a.t >= b.t}[tc[2]])
            if tc[2] in ("max", "min"):
                return VInt(z3.If((a.t >= b.t) if tc[2] == "max" else (a.t <= b.t), a.t, b.t), a.ty)
    # ------------------------------------------------------------ integer inherent methods
    m = re.match(r"^core::num::<impl (\w+)>::(\w+)$", c)
    if m and m.group(1) in INT_TYPES:
        ty, meth = m.group(1), m.group(2)
        a = deref(E, args[0])
        b = deref(E, args[1]) if len(args) > 1 else None
        x = a.t
        y = b.t if isinstance(b, VInt) else None
        if meth in ("checked_add", "checked_sub", "checked_mul"):
            r = {"checked_add": x + y, "checked_sub": x - y, "checked_mul": x * y}[meth]
            return fork_opt(E, in_range(r, ty), VInt(r, ty), meth)
        if meth in ("wrapping_add", "wrapping_sub", "wrapping_mul"):
            r = {"wrapping_add": x + y, "wrapping_sub": x - y, "wrapping_mul": x * y}[meth]
            return VInt(wrap(r, ty), ty)
        if meth in ("saturating_add", "saturating_sub", "saturating_mul"):
            r = {"saturating_add": x + y, "saturating_sub": x - y, "saturating_mul": x * y}[meth]
            lo, hi = rng(ty)
            return VInt(z3.If(r > hi, hi, z3.If(r < lo, lo, r)), ty)
        if meth in ("overflowing_add", "overflowing_sub", "overflowing_mul"):
            r = {"overflowing_add": x + y, "overflowing_sub": x - y, "overflowing_mul": x * y}[meth]
            return VStruct("()", [VInt(wrap(r, ty), ty), VBool(z3.Not(in_range(r, ty)))])
        if meth == "checked_div":
            i = E.choose([y != 0, y == 0], "checked_div")
            return some(VInt(x / y, ty)) if i == 0 else NONE()
        if meth == "abs":
            i = E.choose([x != rng(ty)[0], x == rng(ty)[0]], "abs overflow")
            if i == 1:
                raise PathAbort("panic", "attempt to negate with overflow (abs)")
            return VInt(z3.If(x >= 0, x, -x), ty)
        if meth == "unsigned_abs":
            return VInt(z3.If(x >= 0, x, -x), "u" + ty[1:])
        if meth in ("max_value",):
            return VInt(rng(ty)[1], ty)
        if meth in ("min_value",):
            return VInt(rng(ty)[0], ty)
        if meth == "pow":
            n = E.concretize(y)
            if n is None:
                raise Unsupported("symbolic exponent")
            r = z3.IntVal(1)
            for _ in range(n):
                r = r * x
            i = E.choose([in_range(r, ty), z3.Not(in_range(r, ty))], "pow overflow")
            if i == 1:
                raise PathAbort("panic", "attempt to multiply with overflow (pow)")
            return VInt(r, ty)
        if meth in ("is_positive",):
            return VBool(x > 0)
        if meth in ("is_negative",):
            return VBool(x < 0)
    # arithmetic operator traits on integers (by value or by reference)
    if tc and tc[1] and re.match(r"^(Add|Sub|Mul|Div|Rem|Neg)(<.*>)?$", tc[1]) and tc[2] in ("add", "sub", "mul", "div", "rem", "neg"):
        a = deref(E, args[0])
        b = deref(E, args[1]) if len(args) > 1 else None
        if isinstance(a, VInt) and (b is None or isinstance(b, VInt)):
            ty = a.ty
            if tc[2] == "neg":
                r = -a.t
            else:
                if tc[2] in ("div", "rem"):
                    i = E.choose([b.t != 0, b.t == 0], "division by zero")
                    if i == 1:
                        raise PathAbort("panic", "attempt to divide by zero")
                    return E.binop("Div" if tc[2] == "div" else "Rem", a, b)
                r = {"add": a.t + b.t, "sub": a.t - b.t, "mul": a.t * b.t}[tc[2]]
            i = E.choose([in_range(r, ty), z3.Not(in_range(r, ty))], "arith overflow")
            if i == 1:
                raise PathAbort("panic", "attempt to %s with overflow" % tc[2])
            return VInt(r, ty)
        if isinstance(a, VBig) or isinstance(b, VBig):
            x, y = big_of(E, a), (big_of(E, b) if b is not None else None)
            if tc[2] == "neg":
                return VBig(-x)
            if tc[2] in ("add", "sub", "mul"):
                return VBig({"add": x + y, "sub": x - y, "mul": x * y}[tc[2]])
            if tc[2] in ("div", "rem"):
                i = E.choose([y != 0, y == 0], "bigint division by zero")
                if i == 1:
                    raise PathAbort("panic", "attempt to divide by zero (num-bigint)")
                # num-bigint truncates toward zero
                q = z3.If(z3.Or(z3.And(x >= 0, y > 0), z3.And(x <= 0, y < 0)), z3.Abs(x) / z3.Abs(y), -(z3.Abs(x) / z3.Abs(y)))
                return VBig(q if tc[2] == "div" else x - q * y)
    # ------------------------------------------------------------ num-bigint
    if "num_bigint::Big" in c or "num_bigint::Sign" in c or re.match(r"^(BigUint|num_bigint::BigUint)::", c):
        meth = re.sub(r"::<.*$", "", c.split("::")[-1]) if not tc else tc[2]
        a = deref(E, args[0]) if args else None
        if meth in ("from",) and isinstance(a, VInt):
            return VBig(a.t)
        if meth == "to_bytes_be":
            if isinstance(a, VBig) or (isinstance(a, VStruct) and a.fields and isinstance(a.fields[0], VBig)):
                x = big_of(E, a)
                by = VOpaque("be_bytes", [], z3.Function("be_bytes_of", z3.IntSort(), E.U)(z3.If(x >= 0, x, -x)))
                if "BigUint::" in c:
                    return by
                i = E.choose([x < 0, x == 0, x > 0], "sign")
                return VStruct("()", [VEnum("Sign", ["Minus", "NoSign", "Plus"][i], []), by])
        if meth == "to_biguint":
            x = big_of(E, a)
            return some(VBig(x)) if E.choose([x >= 0, x < 0], "to_biguint") == 0 else VEnum("Option", "None", [])
        if meth == "from_bytes_be":
            # magnitude of an opaque byte string: an arbitrary natural number; the sign argument decides the sign
            mag = z3.FreshConst(z3.IntSort(), "magnitude")
            E.pc.append(mag >= 0)
            sg = deref(E, args[0])
            if isinstance(sg, VEnum) and sg.variant in ("Plus", "Minus", "NoSign"):
                return VBig(mag if sg.variant == "Plus" else (-mag if sg.variant == "Minus" else z3.IntVal(0)))
        if meth == "pow":
            n = E.concretize(deref(E, args[1]).t)
            if n is None:
                raise Unsupported("symbolic bigint exponent")
            x = big_of(E, a)
            r = z3.IntVal(1)
            for _ in range(n):
                r = r * x
            return VBig(r)
        if meth in ("sign",):
            x = big_of(E, a)
            i = E.choose([x < 0, x == 0, x > 0], "sign")
            return VEnum("Sign", ["Minus", "NoSign", "Plus"][i], [])
        if meth == "is_negative":
            return VBool(big_of(E, a) < 0)
        if meth == "is_positive":
            return VBool(big_of(E, a) > 0)
        if meth == "is_zero":
            return VBool(big_of(E, a) == 0)
        if meth == "abs":
            x = big_of(E, a)
            return VBig(z3.If(x >= 0, x, -x))
        if meth == "to_u64_digits":
            x = big_of(E, a)
            i = E.choose([x < 0, x == 0, x > 0], "sign")
            return VStruct("()", [VEnum("Sign", ["Minus", "NoSign", "Plus"][i], []), VDigits(z3.If(x >= 0, x, -x))])
        if meth in ("div_floor", "div_ceil"):
            x, y = big_of(E, a), big_of(E, args[1])
            i = E.choose([y != 0, y == 0], "bigint division by zero")
            if i == 1:
                raise PathAbort("panic", "attempt to divide by zero (num-bigint)")
            return VBig(floor_div(E, x, y) if meth == "div_floor" else ceil_div(E, x, y))
        if meth in ("checked_add", "checked_sub", "checked_mul"):
            x, y = big_of(E, a), big_of(E, args[1])
            return some(VBig({"checked_add": x + y, "checked_sub": x - y, "checked_mul": x * y}[meth]))
        if meth == "neg":
            return VBig(-big_of(E, a))
        if meth == "eq" and isinstance(a, VEnum):
            b = deref(E, args[1])
            return VBool(a.variant == b.variant)
    if tc and tc[0].endswith("Sign") and tc[2] in ("eq", "ne"):
        a, b = deref(E, args[0]), deref(E, args[1])
        return VBool((a.variant == b.variant) == (tc[2] == "eq"))
    if tc and tc[1] and tc[1].startswith("Pow<") and tc[2] == "pow":
        a = deref(E, args[0])
        n = E.concretize(deref(E, args[1]).t)
        if n is None:
            raise Unsupported("symbolic exponent")
        x = big_of(E, a)
        r = z3.IntVal(1)
        for _ in range(n):
            r = r * x
        return VBig(r)
    if tc and tc[1] in ("Integer", "num_integer::Integer") and tc[2] in ("div_floor", "div_ceil"):
        x, y = big_of(E, args[0]), big_of(E, args[1])
        i = E.choose([y != 0, y == 0], "division by zero")
        if i == 1:
            raise PathAbort("panic", "attempt to divide by zero")
        return VBig(floor_div(E, x, y) if tc[2] == "div_floor" else ceil_div(E, x, y))
    if tc and tc[1] in ("Signed", "num_traits::Signed") and tc[2] in ("is_negative", "is_positive", "abs"):
        x = big_of(E, args[0])
        if tc[2] == "abs":
            return VBig(z3.If(x >= 0, x, -x))
        return VBool(x < 0 if tc[2] == "is_negative" else x > 0)
    # ToPrimitive on big integers
    if tc and tc[1] in ("ToPrimitive", "num_traits::ToPrimitive") and tc[2] in ("to_u64", "to_i64", "to_u128", "to_i128", "to_u32", "to_i32", "to_usize"):
        a = deref(E, args[0])
        if isinstance(a, (VBig, VInt)):
            ty = tc[2][3:]
            return fork_opt(E, in_range(a.t, ty), VInt(a.t, ty), tc[2])
    # digits vector
    if re.match(r"^std::vec::Vec::<u64>::len$", c) or c.endswith("<impl [u64]>::len"):
        v = deref(E, args[0])
        if isinstance(v, VDigits):
            i = E.choose([v.mag == 0, z3.And(v.mag > 0, v.mag <= U64MAX), v.mag > U64MAX], "digits")
            if i == 2:
                k = E.fresh("ndigits")
                E.pc.append(k >= 2)
                return VInt(k, "usize")
            return VInt(i, "usize")
    if c.endswith("<impl [u64]>::first"):
        v = deref(E, args[0])
        if isinstance(v, VDigits):
            i = E.choose([v.mag == 0, v.mag > 0], "first digit")
            if i == 0:
                return NONE()
            return some(VRef(Cell(VInt(v.mag % (1 << 64), "u64"), "digit0")))
    if tc and tc[0].startswith("std::vec::Vec<u64>") and tc[1] and tc[1].startswith("PartialEq") and tc[2] == "eq":
        raise Unsupported("digits == vec")
    # ------------------------------------------------------------ Option / Result combinators
    m = re.match(r"^std::(option::Option|result::Result)::<.*?>::(\w+)(::<.*>)?$", c, re.S)
    if m:
        meth = m.group(2)
        v = E.force_arg(args[0]) if args else None
        isopt = m.group(1).startswith("option")
        good = "Some" if isopt else "Ok"
        if not isinstance(v, VEnum):
            return NotImplemented
        if meth in ("unwrap", "expect"):
            if v.variant == good:
                return v.fields[0]
            raise PathAbort("panic", "called `%s::unwrap()` on a `%s` value" % ("Option" if isopt else "Result", v.variant))
        if meth in ("unwrap_or",):
            return v.fields[0] if v.variant == good else args[1]
        if meth in ("unwrap_or_default",):
            if v.variant == good:
                return v.fields[0]
            raise Unsupported("unwrap_or_default on bad variant")
        if meth in ("is_some", "is_ok"):
            return VBool(v.variant == good)
        if meth in ("is_none", "is_err"):
            return VBool(v.variant != good)
        if meth == "ok_or":
            return ok(v.fields[0]) if v.variant == "Some" else err(args[1])
        if meth == "ok_or_else":
            return ok(v.fields[0]) if v.variant == "Some" else err(E.call_value(args[1], []))
        if meth == "transpose" and isopt:
            # Option<Result<T, E>> -> Result<Option<T>, E>
            if v.variant == "None":
                return ok(NONE())
            inner = E.force_arg(v.fields[0])
            if not isinstance(inner, VEnum):
                return NotImplemented
            return ok(some(inner.fields[0])) if inner.variant == "Ok" else err(inner.fields[0])
        if meth == "ok":
            return some(v.fields[0]) if v.variant == "Ok" else NONE()
        if meth == "err":
            return some(v.fields[0]) if v.variant == "Err" else NONE()
        if meth == "map":
            if v.variant == good:
                r = E.call_value(args[1], [v.fields[0]])
                return VEnum(v.ty, good, [r])
            return v
        if meth == "map_err":
            if v.variant == "Err":
                return err(E.call_value(args[1], [v.fields[0]]))
            return v
        if meth == "or_else":
            if v.variant == good:
                return v
            return E.call_value(args[1], [] if isopt else [v.fields[0]])
        if meth == "and_then":
            if v.variant == good:
                return E.call_value(args[1], [v.fields[0]])
            return v
        if meth == "unwrap_or_else":
            if v.variant == good:
                return v.fields[0]
            return E.call_value(args[1], [] if isopt else [v.fields[0]])
        if meth == "map_or":
            if v.variant == good:
                return E.call_value(args[2], [v.fields[0]])
            return args[1]
        if meth == "map_or_else":
            if v.variant == good:
                return E.call_value(args[2], [v.fields[0]])
            return E.call_value(args[1], [] if isopt else [v.fields[0]])
        if meth in ("as_ref", "as_mut"):
            r = args[0]
            while isinstance(r, VRef) and isinstance(E.read_ref(r), VRef):
                r = E.read_ref(r)
            if v.variant == good:
                return VEnum(v.ty, good, [VRef(r.cell, r.path + (("field", 0),))])
            return VEnum(v.ty, v.variant, [VRef(r.cell, r.path + (("field", 0),))] if v.fields else [])
        if meth in ("cloned", "copied"):
            return VEnum(v.ty, good, [clone(deref(E, v.fields[0]))]) if v.variant == good else v
        if meth == "flatten":
            return v.fields[0] if v.variant == good else v
        if meth == "take":
            r = args[0]
            E.write_at(r.cell, r.path, NONE())
            return v
        if meth == "or":
            return v if v.variant == good else args[1]
        if meth == "filter":
            if v.variant != good:
                return v
            b = E.call_value(args[1], [VRef(Cell(v.fields[0], "filter"))])
            i = E.choose([b.t, z3.Not(b.t)], "filter")
            return v if i == 0 else NONE()
    # ------------------------------------------------------------ FnOnce / FnMut call
    if tc and tc[1] and re.match(r"^Fn(Once|Mut)?<", tc[1]) and tc[2] in ("call", "call_mut", "call_once"):
        f = args[0]
        a = deref(E, args[1])
        return E.call_value(f, list(a.fields) if isinstance(a, VStruct) else [a])
    # ------------------------------------------------------------ abstract sequences / iterators
    import seqmodel
    r = seqmodel.dispatch(E, c, tc, args)
    if r is not NotImplemented:
        return r
    # ------------------------------------------------------------ byte sequences keep their identity under to_vec / clone / as_ref
    if re.search(r"<impl \[u8\]>::to_vec$", c) or c.endswith("<[u8; 28] as AsRef<[u8]>>::as_ref") or re.search(r"<\[u8; \d+\] as AsRef<\[u8\]>>::as_ref$", c):
        return VOpaque("bytes", [], E.as_u(args[0]))
    # ------------------------------------------------------------ mem
    if c.startswith("std::mem::replace") or c.startswith("core::mem::replace"):
        r = args[0]
        old = E.read_ref(r)
        E.write_at(r.cell, r.path, args[1])
        return old
    if c.startswith("std::mem::take") or c.startswith("core::mem::take"):
        raise Unsupported("mem::take")
    if c.startswith("std::mem::swap") or c.startswith("core::mem::swap"):
        a, b = args
        va, vb = E.read_ref(a), E.read_ref(b)
        E.write_at(a.cell, a.path, vb)
        E.write_at(b.cell, b.path, va)
        return UNIT
    if c.startswith("std::mem::drop") or c.startswith("core::mem::drop") or c.startswith("std::mem::forget"):
        return UNIT
    if c.startswith("std::cmp::max") or c.startswith("std::cmp::min") or c.startswith("core::cmp::max") or c.startswith("core::cmp::min"):
        a, b = deref(E, args[0]), deref(E, args[1])
        if isinstance(a, VInt):
            mx = "max" in c.split("::")[2]
            return VInt(z3.If((a.t >= b.t) if mx else (a.t <= b.t), a.t, b.t), a.ty)
    if re.match(r"^<(str|std::string::String|String) as (std::borrow::)?ToOwned>::to_owned$", c) or re.match(r"^<str as (std::string::)?ToString>::to_string$", c):
        return args[0] if not isinstance(args[0], VRef) else clone(E.read_ref(args[0]))
    mt = re.match(r"^<(.*) as (?:std::convert::)?TryInto<(.*)>>::try_into$", c, re.S)
    if mt and mt.group(1).strip() == mt.group(2).strip():
        return VEnum("Result", "Ok", [args[0]])
    if re.match(r"^(std::boxed::|alloc::boxed::)?Box::<\[.*; \d+\]>::new_uninit$", c, re.S):
        # lowering of vec![..]: Box<MaybeUninit<[T; N]>> written through a raw pointer, then box_assume_init_into_vec_unsafe
        cell = Cell(VStruct("MaybeUninit", [UNIT, VStruct("ManuallyDrop", [VStruct("MaybeDangling", [UNIT])])]), "vec_macro_box")
        return VStruct("Box", [VStruct("Unique", [VStruct("NonNull", [VRef(cell)])])])
    if re.search(r"(^|::)box_assume_init_into_vec_unsafe::<.*>$", c, re.S):
        b = args[0]
        r = b.fields[0].fields[0].fields[0]
        arr = E.read_ref(r).fields[1].fields[0].fields[0]
        return VSeq(list(arr.items), "vec")
    if re.match(r"^((std|alloc)::(rc::Rc|boxed::Box|sync::Arc)|Rc|Box|Arc)::<.*>::new$", c, re.S):
        return VStruct(re.search(r"(Rc|Box|Arc)", c).group(1), [args[0]])
    if c.startswith("std::intrinsics::") or c.startswith("core::intrinsics::"):
        nm = c.split("::")[2]
        if nm in ("unlikely", "likely", "black_box"):
            return args[0]
    return NotImplemented


def norm(t):
    t = re.sub(r"\b(?:[a-z_0-9]+::)+", "", t)
    return re.sub(r"\s+", "", t)


def val_eq(E, a, b):
    """structural equality as a z3 Bool (forks never; enums compare variants concretely)"""
    a, b = deref(E, a), deref(E, b)
    if isinstance(a, (VInt, VBig)) and isinstance(b, (VInt, VBig)):
        return a.t == b.t
    if isinstance(a, VBool) and isinstance(b, VBool):
        return a.t == b.t
    if isinstance(a, VEnum) and isinstance(b, VEnum):
        if a.variant != b.variant:
            return z3.BoolVal(False)
        return z3.And([val_eq(E, x, y) for x, y in zip(a.fields, b.fields)]) if a.fields else z3.BoolVal(True)
    if isinstance(a, VStruct) and isinstance(b, VStruct):
        return z3.And([val_eq(E, x, y) for x, y in zip(a.fields, b.fields)]) if a.fields else z3.BoolVal(True)
    if isinstance(a, VSeq) and isinstance(b, VSeq):
        if len(a.items) != len(b.items):
            return z3.BoolVal(False)
        return z3.And([val_eq(E, x, y) for x, y in zip(a.items, b.items)]) if a.items else z3.BoolVal(True)
    from engine import VDigits as _VD
    if isinstance(a, _VD) or isinstance(b, _VD):
        d, q = (a, b) if isinstance(a, _VD) else (b, a)
        if isinstance(q, VSeq) and all(isinstance(deref(E, x), VInt) for x in q.items):
            # normalised little-endian base-2^64 digits (no leading zero digit) of the magnitude
            ds = [deref(E, x).t for x in q.items]
            if not ds:
                return d.mag == 0
            return z3.And(ds[-1] != 0, d.mag == z3.Sum([ds[i] * (1 << (64 * i)) for i in range(len(ds))]))
    if isinstance(a, VOpaque) or isinstance(b, VOpaque):
        return E.as_u(a) == E.as_u(b)
    raise Unsupported("equality of %r and %r" % (a, b))
