"""Parser for rustc's `-Zunpretty=mir` text (optimized MIR) — only what mir2smt executes.

parse_mir(text) -> {def_name: Fn}.  Statements/terminators are kept as raw strings and parsed into
small tuples on first use (Fn.block(bb) -> (stmts, term)).
"""
import re

INT_TYPES = {"u8": (False, 8), "u16": (False, 16), "u32": (False, 32), "u64": (False, 64), "u128": (False, 128),
             "usize": (False, 64), "i8": (True, 8), "i16": (True, 16), "i32": (True, 32), "i64": (True, 64),
             "i128": (True, 128), "isize": (True, 64)}

BINOPS = {"Add", "Sub", "Mul", "Div", "Rem", "BitAnd", "BitOr", "BitXor", "Shl", "Shr", "Eq", "Lt", "Le", "Ne", "Ge", "Gt",
          "AddWithOverflow", "SubWithOverflow", "MulWithOverflow", "AddUnchecked", "SubUnchecked", "MulUnchecked",
          "ShlUnchecked", "ShrUnchecked", "Cmp", "Offset"}
UNOPS = {"Not", "Neg", "PtrMetadata"}


class Fn:
    def __init__(self, name, params, ret, header_line):
        self.name = name
        self.params = params      # [(local, type)]
        self.ret = ret
        self.locals = {}          # local -> type string
        self.raw_blocks = {}      # bb -> [lines]
        self.cleanup = set()
        self._parsed = {}
        self.header_line = header_line

    def block(self, bb):
        if bb not in self._parsed:
            lines = self.raw_blocks[bb]
            stmts = [parse_stmt(l) for l in lines[:-1]]
            self._parsed[bb] = (stmts, parse_term(lines[-1]))
        return self._parsed[bb]


def split_top(s, sep=","):
    """split s at top-level occurrences of sep (depth 0 w.r.t. () [] {} <> and string literals)."""
    out, depth, cur, i, n = [], 0, [], 0, len(s)
    while i < n:
        c = s[i]
        if c == '"':
            j = i + 1
            while j < n and s[j] != '"':
                j += 2 if s[j] == "\\" else 1
            cur.append(s[i:j + 1]); i = j + 1; continue
        if c in "([{":
            depth += 1
        elif c in ")]}":
            depth -= 1
        elif c == "<":
            # generic bracket unless it is a shift/compare (not present in MIR rvalues)
            depth += 1
        elif c == ">":
            if i > 0 and s[i - 1] in "-=":
                pass
            else:
                depth -= 1
        if depth == 0 and s.startswith(sep, i):
            out.append("".join(cur)); cur = []; i += len(sep); continue
        cur.append(c); i += 1
    last = "".join(cur)
    if last.strip() or out:
        out.append(last)
    return [x.strip() for x in out]


def find_top(s, pat, start=0):
    """index of first top-level occurrence of literal pat, or -1"""
    depth, i, n = 0, 0, len(s)
    while i < n:
        c = s[i]
        if c == '"':
            j = i + 1
            while j < n and s[j] != '"':
                j += 2 if s[j] == "\\" else 1
            i = j + 1; continue
        if depth == 0 and i >= start and s.startswith(pat, i):
            return i
        if c in "([{<":
            depth += 1
        elif c in ")]}":
            depth -= 1
        elif c == ">" and not (i > 0 and s[i - 1] in "-="):
            depth -= 1
        i += 1
    return -1


def match_close(s, i):
    """s[i] is an opening bracket; return index of its matching close"""
    op = s[i]
    cl = {"(": ")", "[": "]", "{": "}", "<": ">"}[op]
    depth, n = 0, len(s)
    j = i
    while j < n:
        c = s[j]
        if c == '"':
            k = j + 1
            while k < n and s[k] != '"':
                k += 2 if s[k] == "\\" else 1
            j = k + 1; continue
        if c == op:
            depth += 1
        elif c == cl and not (c == ">" and j > 0 and s[j - 1] in "-="):
            depth -= 1
            if depth == 0:
                return j
        j += 1
    raise ValueError("unbalanced: " + s)


LOCAL_RE = re.compile(r"^_(\d+)$")


def parse_place(s):
    """-> ('local', n) | ('deref', p) | ('field', p, idx, type) | ('downcast', p, variant) | ('index', p, local_place)
          | ('constindex', p, i, from_end)"""
    s = s.strip()
    if s.startswith("(fake) "):
        s = s[7:].strip()
    m = LOCAL_RE.match(s)
    if m:
        return ("local", int(m.group(1)))
    if s.endswith("]"):
        # find matching '[' of the last ']'
        depth = 0
        for i in range(len(s) - 1, -1, -1):
            if s[i] == "]":
                depth += 1
            elif s[i] == "[":
                depth -= 1
                if depth == 0:
                    break
        base, idx = s[:i], s[i + 1:-1]
        m = re.match(r"^(-?\d+) of (\d+)$", idx)
        if m:
            return ("constindex", parse_place(base), int(m.group(1)), False)
        m = re.match(r"^-(\d+) of (\d+)$", idx)
        if ".." in idx or ":" in idx:
            return ("subslice", parse_place(base), idx)
        return ("index", parse_place(base), parse_place(idx))
    if s.startswith("(") and match_close(s, 0) == len(s) - 1:
        inner = s[1:-1].strip()
        if inner.startswith("*"):
            return ("deref", parse_place(inner[1:]))
        k = find_top(inner, " as ")
        if k >= 0 and find_top(inner, ": ") < 0:
            return ("downcast", parse_place(inner[:k]), inner[k + 4:].strip())
        # field: <place>.<n>: <type>   — the '.n:' we want is the last top-level one before the type
        k = find_top(inner, ": ")
        if k >= 0:
            left, ty = inner[:k], inner[k + 2:]
            j = left.rfind(".")
            return ("field", parse_place(left[:j]), int(left[j + 1:]), ty.strip())
        return parse_place(inner)
    raise ValueError("cannot parse place: %r" % s)


def parse_const(s):
    """-> ('int', value, type) | ('bool', b) | ('str', text) | ('unit',) | ('raw', text)"""
    s = s.strip()
    m = re.match(r"^(-?\d+)_(u8|u16|u32|u64|u128|usize|i8|i16|i32|i64|i128|isize)$", s)
    if m:
        return ("int", int(m.group(1)), m.group(2))
    if s == "true":
        return ("bool", True)
    if s == "false":
        return ("bool", False)
    if s == "()":
        return ("unit",)
    if s.startswith('"'):
        return ("str", s)
    if s.startswith("b\""):
        return ("str", s)
    m = re.match(r"^'(.*)'$", s)
    if m:
        return ("char", m.group(1))
    m = re.match(r"^(-?[0-9.]+(?:[eE][+-]?\d+)?)(f32|f64)$", s)
    if m:
        return ("float", float(m.group(1)), m.group(2))
    return ("raw", s)


def parse_operand(s):
    s = s.strip()
    if s.startswith("no_retag "):
        s = s[9:]
    if s.startswith("copy "):
        return ("copy", parse_place(s[5:]))
    if s.startswith("move "):
        return ("move", parse_place(s[5:]))
    if s.startswith("const "):
        return ("const", parse_const(s[6:]))
    if s.startswith("(fake) "):
        return parse_operand(s[7:])
    # a bare path: function item / unit constructor used as a value
    return ("const", ("raw", s))


def is_operand(s):
    s = s.strip()
    return s.startswith(("copy ", "move ", "const ", "no_retag "))


def parse_rvalue(s):
    s = s.strip()
    if s.startswith("no_retag "):
        s = s[9:].strip()
    if s.startswith("&raw const "):
        return ("ref", parse_place(s[11:]), "raw")
    if s.startswith("&raw mut "):
        return ("ref", parse_place(s[9:]), "raw")
    if s.startswith("&mut "):
        return ("ref", parse_place(s[5:]), "mut")
    if s.startswith("&fake shallow "):
        return ("ref", parse_place(s[14:]), "shared")
    if s.startswith("&"):
        return ("ref", parse_place(s[1:]), "shared")
    if is_operand(s):
        k = find_top(s, " as ")
        if k >= 0 and s.endswith(")"):
            # cast: <operand> as <type> (<Kind>)
            j = s.rfind(" (")
            return ("cast", parse_operand(s[:k]), s[k + 4:j].strip(), s[j + 2:-1])
        return ("use", parse_operand(s))
    m = re.match(r"^([A-Za-z]+)\((.*)\)$", s, re.S)
    if m and m.group(1) in BINOPS:
        a, b = split_top(m.group(2))
        return ("binop", m.group(1), parse_operand(a), parse_operand(b))
    if m and m.group(1) in UNOPS:
        return ("unop", m.group(1), parse_operand(m.group(2)))
    if m and m.group(1) == "discriminant":
        return ("discriminant", parse_place(m.group(2)))
    if m and m.group(1) == "Len":
        return ("len", parse_place(m.group(2)))
    if s.startswith("("):
        inner = s[1:-1].strip()
        if inner == "":
            return ("aggregate", "tuple", None, [])
        return ("aggregate", "tuple", None, [parse_operand(x) for x in split_top(inner) if x])
    if s.startswith("["):
        inner = s[1:-1]
        k = find_top(inner, "; ")
        if k >= 0:
            return ("repeat", parse_operand(inner[:k]), inner[k + 2:].strip())
        return ("aggregate", "array", None, [parse_operand(x) for x in split_top(inner) if x])
    if s.startswith("{closure@") or s.startswith("{coroutine@"):
        k = match_close(s, 0)
        name = s[:k + 1]
        rest = s[k + 1:].strip()
        ops = []
        if rest.startswith("{"):
            for f in split_top(rest[1:-1]):
                if f:
                    kk = find_top(f, ": ")
                    ops.append(parse_operand(f[kk + 2:]))
        return ("aggregate", "closure", name, ops)
    # ADT aggregate
    if s.endswith("}"):
        k = find_top(s, " {")
        if k >= 0:
            name = s[:k].strip()
            fields = []
            for f in split_top(s[k + 2:-1]):
                if f:
                    kk = find_top(f, ": ")
                    fields.append((f[:kk].strip(), parse_operand(f[kk + 2:])))
            return ("aggregate", "adt", name, [v for _, v in fields], [n for n, _ in fields])
    if s.endswith(")"):
        # Name(args): find the '(' matching the final ')'
        depth = 0
        for i in range(len(s) - 1, -1, -1):
            if s[i] == ")":
                depth += 1
            elif s[i] == "(":
                depth -= 1
                if depth == 0:
                    break
        name = s[:i].strip()
        args = [parse_operand(x) for x in split_top(s[i + 1:-1]) if x]
        return ("aggregate", "adt", name, args, None)
    # unit-like ADT / unit variant
    return ("aggregate", "adt", s, [], None)


def parse_stmt(line):
    s = line.strip().rstrip(";").strip()
    if s in ("nop",) or s.startswith(("StorageLive", "StorageDead", "FakeRead", "PlaceMention", "AscribeUserType", "Retag", "Coverage", "ConstEvalCounter", "BackwardIncompatibleDropHint")):
        return ("nop",)
    m = re.match(r"^discriminant\((.*)\) = (-?\d+)$", s)
    if m:
        return ("setdiscr", parse_place(m.group(1)), int(m.group(2)))
    if s.startswith("Deinit("):
        return ("nop",)
    if s.startswith("assume("):
        return ("assume", parse_operand(s[7:-1]))
    if s.startswith("copy_nonoverlapping("):
        return ("unsupported", s)
    k = find_top(s, " = ")
    if k < 0:
        return ("unsupported", s)
    return ("assign", parse_place(s[:k]), s[k + 3:])   # rvalue parsed lazily by the executor (cached there)


TARGETS_RE = re.compile(r"(\w+): (bb\d+)")


def parse_term(line):
    s = line.strip().rstrip(";").strip()
    if s == "return":
        return ("return",)
    if s in ("unreachable",):
        return ("unreachable",)
    if s.startswith("resume") or s.startswith("abort") or s.startswith("terminate"):
        return ("resume",)
    m = re.match(r"^goto -> (bb\d+)$", s)
    if m:
        return ("goto", m.group(1))
    m = re.match(r"^falseEdge -> \[real: (bb\d+), imaginary: bb\d+\]$", s)
    if m:
        return ("goto", m.group(1))
    m = re.match(r"^falseUnwind -> \[real: (bb\d+).*\]$", s)
    if m:
        return ("goto", m.group(1))
    if s.startswith("switchInt("):
        k = match_close(s, len("switchInt"))
        op = parse_operand(s[len("switchInt("):k])
        tgt = s[k + 1:]
        tgt = tgt[tgt.index("[") + 1: tgt.rindex("]")]
        cases, otherwise = [], None
        for t in split_top(tgt):
            a, b = t.split(": ")
            if a == "otherwise":
                otherwise = b
            else:
                cases.append((int(a), b))
        return ("switch", op, cases, otherwise)
    if s.startswith("drop("):
        k = match_close(s, 4)
        m = re.search(r"return: (bb\d+)", s[k:])
        return ("drop", parse_place(s[5:k]), m.group(1))
    if s.startswith("assert("):
        k = match_close(s, 6)
        inner = split_top(s[7:k])
        cond = inner[0]
        neg = cond.startswith("!")
        if neg:
            cond = cond[1:]
        msg = inner[1] if len(inner) > 1 else ""
        m = re.search(r"success: (bb\d+)", s[k:])
        return ("assert", parse_operand(cond), not neg, msg, m.group(1))
    # call:  <place> = <callee>(<args>) -> [return: bbN, unwind ...]   |  ... -> unwind ...  (diverging)
    k = find_top(s, " = ")
    if k >= 0:
        dest = parse_place(s[:k])
        rest = s[k + 3:]
    else:
        dest, rest = None, s
    a = find_top(rest, " -> ")
    tail = rest[a + 4:] if a >= 0 else ""
    call = rest[:a] if a >= 0 else rest
    # callee(args): '(' matching final ')'
    depth = 0
    for i in range(len(call) - 1, -1, -1):
        if call[i] == ")":
            depth += 1
        elif call[i] == "(":
            depth -= 1
            if depth == 0:
                break
    callee = call[:i].strip()
    args = [parse_operand(x) for x in split_top(call[i + 1:-1]) if x]
    m = re.search(r"return: (bb\d+)", tail)
    return ("call", dest, callee, args, m.group(1) if m else None)


FN_RE = re.compile(r"^fn (.*)$")


def parse_mir(text):
    fns = {}
    lines = text.split("\n")
    i, n = 0, len(lines)
    while i < n:
        line = lines[i]
        if line.startswith("fn ") and line.rstrip().endswith("{"):
            hdr = line[3:].rstrip()[:-1].rstrip()
            # name = up to the '(' that opens the parameter list: the last top-level '(' before ' -> ' or end
            a = find_top(hdr, " -> ")
            if a >= 0:
                sig, ret = hdr[:a], hdr[a + 4:].strip()
            else:
                sig, ret = hdr, "()"
            # params '(' is matched from the end of sig
            depth = 0
            for k in range(len(sig) - 1, -1, -1):
                if sig[k] == ")":
                    depth += 1
                elif sig[k] == "(":
                    depth -= 1
                    if depth == 0:
                        break
            name = sig[:k]
            params = []
            for p in split_top(sig[k + 1:-1]):
                if p:
                    kk = p.index(": ")
                    params.append((int(p[1:kk]), p[kk + 2:]))
            fn = Fn(name, params, ret, i + 1)
            for (l, t) in params:
                fn.locals[l] = t
            fn.locals[0] = ret
            i += 1
            cur = None
            while i < n and lines[i] != "}":
                l = lines[i]
                ls = l.strip()
                m = re.match(r"^let (?:mut )?_(\d+): (.*);$", ls)
                if m:
                    fn.locals[int(m.group(1))] = m.group(2)
                else:
                    m = re.match(r"^(bb\d+)( \(cleanup\))?: \{$", ls)
                    if m:
                        cur = m.group(1)
                        fn.raw_blocks[cur] = []
                        if m.group(2):
                            fn.cleanup.add(cur)
                    elif ls == "}" :
                        if cur is not None and l.startswith("    }"):
                            cur = None
                    elif cur is not None and ls:
                        # statements may span several lines (long aggregates): join until ';'
                        buf = ls
                        while not buf.endswith(";") and i + 1 < n:
                            i += 1
                            buf += " " + lines[i].strip()
                        fn.raw_blocks[cur].append(buf)
                i += 1
            if name in fns:
                # macro-generated items share one span: keep every instance under a numbered key
                k = 2
                while "%s#%d" % (name, k) in fns:
                    k += 1
                name = "%s#%d" % (name, k)
                fn.name = name
            fns[name] = fn
        i += 1
    return fns
