"""Pointwise abstraction of multi-asset values for the bookkeeping obligations (C05, C06, C19).

A `Value` is tracked as (lovelace, q, other): lovelace exactly, q = quantity of ONE arbitrary but fixed native asset,
other = "some different asset is present".  Because the fixed asset is arbitrary, an equation proved for q holds for
every asset.  The summaries below state how the library's Value operations act on this abstraction; each summary is
itself established on the real code by the C14 E2 obligations over shaped bundles (c14_e2_value_checked_add /
checked_sub / clamped_sub / partial_cmp: 7 x 7 bundle shapes over 2 policies x 2 names, all u64 quantities):

  checked_add : lovelace and q add exactly, Err on u64 overflow of either
  checked_sub : lovelace and every asset exact, Err on underflow of any of them (since fix fd1ee69; before, assets
                were clamped at 0 silently); result has no assets iff every asset reached 0
  clamped_sub : every component max(l - r, 0)
  partial_cmp : (MultiAsset) the pointwise order: Equal / Less / Greater when every asset agrees on the direction, else None
  eq          : lovelace equal and every asset equal (here: q equal, 'other' parts equal as uninterpreted identities)
"""
import re
import z3
from engine import (VInt, VBool, VStruct, VEnum, VRef, VLazy, VOpaque, UNIT, Cell, clone, Unsupported, in_range)

U64 = (1 << 64) - 1
T_BIGNUM = "protocol_types::numeric::big_num::BigNum"
T_OPT_MA = "std::option::Option<MultiAsset>"


def deref(E, v):
    while isinstance(v, VRef):
        v = E.read_ref(v)
    return v


def bn(t):
    return VStruct("BigNum", [t if isinstance(t, VInt) else VInt(t, "u64")])


def mk_ma(q, other, ident=None):
    return VStruct("MultiAsset", [VStruct("#AssetMap", [VInt(q, "u64"), VBool(other), ident])])


def mk_value(coin, ma=None):
    """ma: None or (q, other[, ident])"""
    opt = VEnum("Option", "None", []) if ma is None else VEnum("Option", "Some", [mk_ma(*ma)])
    return VStruct("Value", [bn(VInt(coin, "u64")), opt])


def ma_parts(E, ma):
    """(q, other, identity-of-the-other-assets term) of a MultiAsset value (abstract or lazy)"""
    ma = deref(E, ma)
    if isinstance(ma, VStruct) and ma.fields and isinstance(ma.fields[0], VStruct) and ma.fields[0].name == "#AssetMap":
        f = ma.fields[0].fields
        return f[0].t, f[1].t, f[2]
    if isinstance(ma, VStruct) and ma.name == "#AssetMap":
        return ma.fields[0].t, ma.fields[1].t, ma.fields[2]
    u = E.as_u(ma)
    q = z3.Function("asset_qty", E.U, z3.IntSort())(u)
    other = z3.Function("asset_other", E.U, z3.BoolSort())(u)
    E.pc.append(z3.And(q >= 0, q <= U64))
    return q, other, z3.Function("asset_rest", E.U, E.U)(u)


def value_parts(E, v):
    """(coin term, None | (q, other, rest))"""
    v = deref(E, v)
    coinv = E.nav(v, [("field", 0, T_BIGNUM), ("field", 0, "u64")])
    opt = E.nav(v, [("field", 1, T_OPT_MA)])
    if isinstance(opt, VLazy):
        opt = E.force_enum(opt)
        if isinstance(v, VLazy):
            v.fields[1] = opt
        elif isinstance(v, VStruct):
            v.fields[1] = opt
    if opt.variant == "None":
        return coinv.t, None
    return coinv.t, ma_parts(E, opt.fields[0])


def ok(v): return VEnum("Result", "Ok", [v])
def err(tag): return VEnum("Result", "Err", [VOpaque("err:" + tag)])


def rest_join(E, a, b, op):
    f = z3.Function("rest_" + op, E.U, E.U, E.U)
    if a is None and b is None:
        return None
    if a is None:
        return b if op == "add" else None
    if b is None:
        return a
    return f(a, b)


def s_checked_add(E, c, args):
    ca, ma = value_parts(E, args[0])
    cb, mb = value_parts(E, args[1])
    i = E.choose([ca + cb <= U64, ca + cb > U64], "coin add overflow")
    if i == 1:
        return err("coin overflow")
    if ma is None and mb is None:
        return ok(mk_value(ca + cb))
    if ma is None or mb is None:
        m = ma or mb
        return ok(mk_value(ca + cb, (m[0], m[1], m[2])))
    q = ma[0] + mb[0]
    i = E.choose([q <= U64, q > U64], "asset add overflow")
    if i == 1:
        return err("asset overflow")
    # an overflow in one of the *other* assets is possible as well
    oth_over = E.fresh("other_asset_overflow", "bool")
    i = E.choose([z3.Not(oth_over), z3.And(oth_over, ma[1], mb[1])], "other asset overflow")
    if i == 1:
        return err("asset overflow")
    return ok(mk_value(ca + cb, (q, z3.Or(ma[1], mb[1]), rest_join(E, ma[2], mb[2], "add"))))


def _sub_assets(E, ma, mb):
    """MultiAsset::sub on the abstraction; returns None (no assets left) or (q, other, rest)"""
    if ma is None:
        return None
    if mb is None:
        return ma
    q = z3.If(ma[0] >= mb[0], ma[0] - mb[0], 0)
    # whether untracked assets remain is a FUNCTION of the two bundles (subtracting twice gives the same answer)
    nil = z3.Const("no_other_assets", E.U)
    oth = z3.Function("others_left_after_sub", E.U, E.U, z3.BoolSort())(ma[2] if ma[2] is not None else nil, mb[2] if mb[2] is not None else nil)
    E.pc.append(z3.Implies(oth, ma[1]))               # other assets can only remain if the left side had some
    E.pc.append(z3.Implies(z3.And(ma[1], z3.Not(mb[1])), oth))   # and they all remain if the right side has none
    i = E.choose([z3.Or(q > 0, oth), z3.And(q == 0, z3.Not(oth))], "assets left after sub")
    if i == 1:
        return None
    return (q, oth, rest_join(E, ma[2], mb[2], "sub"))


def s_checked_sub(E, c, args):
    ca, ma = value_parts(E, args[0])
    cb, mb = value_parts(E, args[1])
    i = E.choose([ca >= cb, ca < cb], "coin sub underflow")
    if i == 1:
        return err("coin underflow")
    if mb is not None:
        # every asset is subtracted exactly or the call fails: the tracked asset decides for itself, the untracked ones
        # ("other") may fail whenever the right-hand side has some
        qa = ma[0] if ma is not None else z3.IntVal(0)
        if E.choose([qa >= mb[0], qa < mb[0]], "asset sub underflow") == 1:
            return err("asset underflow")
        oth_fail = E.fresh("other_asset_underflow", "bool")
        E.pc.append(z3.Implies(oth_fail, mb[1]))
        if E.choose([z3.Not(oth_fail), oth_fail], "other asset underflow") == 1:
            return err("asset underflow")
    return ok(mk_value(ca - cb, _sub_assets(E, ma, mb)))


def s_clamped_sub(E, c, args):
    ca, ma = value_parts(E, args[0])
    cb, mb = value_parts(E, args[1])
    return mk_value(z3.If(ca >= cb, ca - cb, 0), _sub_assets(E, ma, mb))


def s_eq(E, c, args):
    ca, ma = value_parts(E, args[0])
    cb, mb = value_parts(E, args[1])
    qa, oa, ra = ma if ma is not None else (z3.IntVal(0), z3.BoolVal(False), None)
    qb, ob, rb = mb if mb is not None else (z3.IntVal(0), z3.BoolVal(False), None)
    # equality of the remaining assets: decided by the uninterpreted identities when both sides have some,
    # otherwise both must have none.  (An empty-but-present bundle equals an absent one: reduce_empty_to_none.)
    if ra is not None and rb is not None:
        rest_eq = z3.Or(z3.And(z3.Not(oa), z3.Not(ob)), z3.And(oa, ob, ra == rb))
    else:
        rest_eq = z3.And(z3.Not(oa), z3.Not(ob))
    t = z3.And(ca == cb, qa == qb, rest_eq)
    return VBool(t if c.endswith("::eq") else z3.Not(t))


def s_btree_len(E, c, args):
    m = deref(E, args[0])
    if isinstance(m, VStruct) and m.name == "#AssetMap":
        q, other = m.fields[0].t, m.fields[1].t
        empty = z3.And(q == 0, z3.Not(other))
        if c.endswith("is_empty"):
            return VBool(empty)
        n = E.fresh("npolicies")
        E.pc.append(z3.If(empty, n == 0, n >= 1))
        return VInt(n, "usize")
    return NotImplemented


def s_ma_sub(E, c, args):
    a, b = ma_parts(E, args[0]), ma_parts(E, args[1])
    r = _sub_assets(E, a, b)
    return mk_ma(*(r if r is not None else (z3.IntVal(0), z3.BoolVal(False), None)))


def s_ma_len(E, c, args):
    q, other, _ = ma_parts(E, args[0])
    n = E.fresh("npolicies")
    E.pc.append(z3.If(z3.And(q == 0, z3.Not(other)), n == 0, n >= 1))
    return VInt(n, "usize")


def s_ma_partial_cmp(E, c, args):
    """MultiAsset::partial_cmp: pointwise order; is_all_zeros(a, b) <=> every asset of a is <= its quantity in b"""
    a, b = ma_parts(E, args[0]), ma_parts(E, args[1])
    # the verdict on the untracked assets is a FUNCTION of the two bundles (asking twice gives the same answer)
    nil = z3.Const("no_other_assets", E.U)
    le = z3.Function("others_pointwise_le", E.U, E.U, z3.BoolSort())
    ra, rb = (a[2] if a[2] is not None else nil), (b[2] if b[2] is not None else nil)
    le_ab = z3.Or(z3.Not(a[1]), le(ra, rb))
    le_ba = z3.Or(z3.Not(b[1]), le(rb, ra))
    az, bz = z3.And(a[0] <= b[0], le_ab), z3.And(b[0] <= a[0], le_ba)
    i = E.choose([z3.And(az, bz), z3.And(az, z3.Not(bz)), z3.And(z3.Not(az), bz), z3.And(z3.Not(az), z3.Not(bz))], "multiasset order")
    if i == 3:
        return VEnum("Option", "None", [])
    return VEnum("Option", "Some", [VEnum("Ordering", ["Equal", "Less", "Greater"][i], [])])


def s_btree_new(E, c, args):
    return VStruct("#AssetMap", [VInt(0, "u64"), VBool(False), None])


SUMMARIES = {
    r"BTreeMap::<.*ScriptHash, Assets>::new$": s_btree_new,
    r"(^|::)Value::checked_add$": s_checked_add,
    r"(^|::)Value::checked_sub$": s_checked_sub,
    r"(^|::)Value::clamped_sub$": s_clamped_sub,
    r"^<(utils::)?Value as PartialEq>::(eq|ne)$": s_eq,
    r"BTreeMap::<.*ScriptHash, Assets>::(len|is_empty)$": s_btree_len,
    r"(^|::)MultiAsset::sub$": s_ma_sub,
    r"(^|::)MultiAsset::len$": s_ma_len,
    r"^<MultiAsset as PartialOrd>::partial_cmp$": s_ma_partial_cmp,
}


def install(E):
    E.extra_intrinsics.update(SUMMARIES)
