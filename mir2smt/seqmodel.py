"""Abstract sequences: Vec / slices / iterators over a concrete-length list of symbolic elements (VSeq).
What is abstracted: the container's identity and layout. What is kept: length, element order, element values."""
import re
import z3
from engine import VInt, VBool, VStruct, VEnum, VRef, VSeq, VOpaque, VFn, UNIT, Cell, clone, Unsupported, PathAbort
from mirparse import match_close, find_top


def deref(E, v):
    while isinstance(v, VRef):
        v = E.read_ref(v)
    return v


def some(v): return VEnum("Option", "Some", [v])
NONE = lambda: VEnum("Option", "None", [])


def ref_chain(E, r):
    """innermost reference (the one pointing at a non-reference value)"""
    while isinstance(r, VRef) and isinstance(E.read_ref(r), VRef):
        r = E.read_ref(r)
    return r


def conc(E, t, what):
    n = E.concretize(t)
    if n is None:
        raise Unsupported("symbolic " + what)
    return n


SETK = ("set", "hset", "bset")


def iteration_order(E, d, key_of=None):
    """indices of d.items in the order the container iterates them.  Default: insertion order (sound only for obligations
    that do not depend on the order).  With E.model_iteration_order set: a hash container ("hset" / "hmap") iterates in an
    ARBITRARY order — every permutation is a fork, nothing relates two iterations —, an ordered one ("bset") in the
    order of an uninterpreted strict total order `container_ord` on element identities."""
    n = len(d.items)
    if not getattr(E, "model_iteration_order", False) or d.kind not in ("hset", "hmap", "bset") or n < 2:
        return list(range(n))
    key_of = key_of or (lambda it: elem_ident(E, it))
    ids = [key_of(it) for it in d.items]
    rest, order = list(range(n)), []
    if d.kind == "bset":
        lt = z3.Function("container_ord", ids[0].sort(), ids[0].sort(), z3.BoolSort())
        for a in range(n):
            E.pc.append(z3.Not(lt(ids[a], ids[a])))
            for b in range(n):
                if a < b:
                    E.pc.append(z3.Implies(ids[a] != ids[b], z3.Xor(lt(ids[a], ids[b]), lt(ids[b], ids[a]))))
                for c_ in range(n):
                    if len({a, b, c_}) == 3:
                        E.pc.append(z3.Implies(z3.And(lt(ids[a], ids[b]), lt(ids[b], ids[c_])), lt(ids[a], ids[c_])))
        while len(rest) > 1:
            conds = [z3.And([lt(ids[c_], ids[o]) for o in rest if o != c_]) for c_ in rest]
            k = E.choose(conds, "ordered iteration")
            order.append(rest.pop(k))
        return order + rest
    while len(rest) > 1:
        pick = z3.FreshConst(z3.IntSort(), "hash_order")
        k = E.choose([pick == j for j in range(len(rest))], "hash iteration order", trust=True)
        order.append(rest.pop(k))
    return order + rest


def strip_ptr(E, v):
    while True:
        if isinstance(v, VRef):
            v = E.read_ref(v)
        elif isinstance(v, VStruct) and v.name in ("Rc", "Box", "Arc") and len(v.fields) == 1:
            v = v.fields[0]
        else:
            return v


def huge_capacity_guard(E, n, what):
    """pre-allocating from an attacker-controlled count: capacity overflow panics, and an allocation of 2^40 elements or more
    aborts the process — both are reachable failures when the count is not bounded by the code"""
    if isinstance(n, VInt):
        if E.choose([n.t < (1 << 40), n.t >= (1 << 40)], what) == 1:
            raise PathAbort("panic", "%s with a capacity of 2^40 or more (capacity overflow / allocation failure)" % what)


def last_seg_(t):
    from engine import last_seg
    return last_seg(t)


def elem_ident(E, v):
    """identity of a container element in sort U; Rc / Box / Arc and references are transparent (Eq and Hash look through them)"""
    while True:
        if isinstance(v, VRef):
            v = E.read_ref(v)
        elif isinstance(v, VStruct) and v.name in ("Rc", "Box", "Arc") and len(v.fields) == 1:
            v = v.fields[0]
        elif isinstance(v, VInt):
            return v.t              # integers are their own identity (the embedding into U is not injective)
        else:
            return E.as_u(v)


CONTAINER_RE = re.compile(r"(?:^|::)((BTreeMap|BTreeSet|Vec|HashMap|HashSet|LinkedHashMap|LinkedHashSet|VecDeque)::<.*>|String|str)::(len|is_empty)$", re.S)


LAZY_CONT_RE = re.compile(r"^(?:std::(?:vec|collections)::|alloc::vec::|linked_hash_map::|hashlink::(?:linked_hash_map::)?|std::collections::(?:btree_map|btree_set|hash_map|hash_set)::)?(Vec|BTreeMap|LinkedHashMap|HashMap|BTreeSet|HashSet)<(.*)>$", re.S)


def unfold_lazy_container(E, a):
    """opt-in (E.lazy_collection_sizes = (0, 1, 2)): a lazily initialised std container reached through `a` becomes an abstract
    sequence of n lazily initialised elements, n one of the listed sizes (a fork); map keys / set elements are pairwise
    distinct identities.  Returns True when something was unfolded."""
    sizes = getattr(E, "lazy_collection_sizes", None)
    if not sizes:
        return False
    from engine import VLazy
    from mirparse import split_top
    r = a
    while isinstance(r, VRef) and isinstance(E.read_ref(r), VRef):
        r = E.read_ref(r)
    d = E.read_ref(r) if isinstance(r, VRef) else r
    if not isinstance(d, VLazy) or getattr(d, "fields", None):
        return False
    m = LAZY_CONT_RE.match(d.ty.strip())
    if not m:
        return False
    fam, inner = m.group(1), split_top(m.group(2))
    n_t = z3.Int(d.path + "#len")
    k = E.choose([n_t == n for n in sizes], "size of " + d.path)
    n = sizes[k]
    items = []
    def mat(t, path):
        mp = re.match(r"^(?:std::rc::|alloc::rc::|std::sync::|std::boxed::)?(Rc|Arc|Box)<(.*)>$", t.strip(), re.S)
        if mp:                      # smart pointers are transparent wrappers around a lazily initialised pointee
            return VStruct(mp.group(1), [mat(mp.group(2), path + ".ptr")])
        return E.materialize(t, path)
    for i in range(n):
        if fam in ("BTreeMap", "LinkedHashMap", "HashMap"):
            items.append(VStruct("()", [mat(inner[0], "%s[%d].k" % (d.path, i)), mat(inner[1], "%s[%d].v" % (d.path, i))]))
        else:
            items.append(mat(inner[0], "%s[%d]" % (d.path, i)))
    kind = {"Vec": "vec", "BTreeMap": "map", "LinkedHashMap": "map", "HashMap": "hmap", "BTreeSet": "set", "HashSet": "set"}[fam]
    if (fam != "Vec" or getattr(E, "lazy_vec_distinct", False)) and n > 1:      # lazy_vec_distinct: the vector of a set-typed collection (representation invariant, C16)
        ids = [elem_ident(E, it.fields[0] if kind in ("map", "hmap") else it) for it in items]
        for x in range(n):
            for y in range(x):
                try:
                    E.pc.append(ids[x] != ids[y])
                except Exception:
                    pass
    seq = VSeq(items, kind)
    if isinstance(r, VRef):
        E.replace_at(r.cell, r.path, seq)
    return True


def dispatch(E, c, tc, args):
    if args and getattr(E, "lazy_collection_sizes", None):
        unfold_lazy_container(E, args[0])
    # ---------------- size of an abstract (lazy / opaque) container: an uninterpreted function of its identity
    m = CONTAINER_RE.search(c)
    if m and args:
        from engine import VLazy
        d = deref(E, args[0])
        if isinstance(d, (VLazy, VOpaque)):
            f = z3.Function("container_len", E.U, z3.IntSort())
            n = f(E.as_u(d))
            E.pc.append(n >= 0)
            E.pc.append(n < (1 << 48))
            return VInt(n, "usize") if m.group(3) == "len" else VBool(n == 0)
    # ---------------- Range<usize>
    if tc and tc[0].startswith("std::ops::Range<") and tc[1] == "Iterator" and tc[2] == "next":
        r = ref_chain(E, args[0])
        rg = E.read_ref(r)
        s, e = rg.fields[0], rg.fields[1]
        i = E.choose([s.t < e.t, s.t >= e.t], "range next")
        if i == 1:
            return NONE()
        E.write_at(r.cell, r.path + (("field", 0),), VInt(s.t + 1, s.ty))
        return some(VInt(s.t, s.ty))
    if tc and tc[1] == "IntoIterator" and tc[2] == "into_iter":
        v = args[0]
        d = deref(E, v)
        if isinstance(d, VStruct) and d.name == "Range":
            return v
        if isinstance(d, VSeq):
            byref = isinstance(v, VRef)
            order = iteration_order(E, d, (lambda it: elem_ident(E, it.fields[0])) if d.kind in ("map", "hmap") else None)
            if byref:
                r = ref_chain(E, v)
                if d.kind in ("map", "hmap"):
                    return VSeq([VStruct("()", [VRef(r.cell, r.path + (("field", k), ("field", 0))), VRef(r.cell, r.path + (("field", k), ("field", 1)))]) for k in order], "iter")
                return VSeq([VRef(r.cell, r.path + (("field", k),)) for k in order], "iter")
            return VSeq([d.items[k] for k in order], "iter")
    # ---------------- Vec / slice basics
    if re.match(r"^std::vec::Vec::<.*>::(len|is_empty)$", c, re.S) or re.search(r"<impl \[.*\]>::(len|is_empty)$", c):
        d = deref(E, args[0])
        if isinstance(d, VSeq):
            n = len(d.items)
            return VInt(n, "usize") if c.endswith("len") else VBool(n == 0)
    if re.match(r"^std::vec::Vec::<.*>::new$", c, re.S):
        return VSeq([], "vec")
    if re.match(r"^std::vec::Vec::<.*>::with_capacity$", c, re.S):
        huge_capacity_guard(E, args[0], "Vec::with_capacity")
        return VSeq([], "vec")
    mw = re.search(r"(?:^|::)(BTreeMap|HashMap|LinkedHashMap|HashSet|LinkedHashSet|VecDeque)::<.*>::with_capacity$", c, re.S)
    if mw and len(args) == 1 and mw.group(1) not in ("HashSet", "LinkedHashSet"):
        huge_capacity_guard(E, args[0], mw.group(1) + "::with_capacity")
        return VSeq([], "map" if "Map" in mw.group(1) else "vec")
    if re.match(r"^std::vec::Vec::<.*>::push$", c, re.S):
        r = ref_chain(E, args[0])
        d = E.read_ref(r)
        if isinstance(d, VSeq):
            d.items.append(args[1])
            return UNIT
    if re.match(r"^std::vec::Vec::<.*>::pop$", c, re.S):
        r = ref_chain(E, args[0])
        d = E.read_ref(r)
        if isinstance(d, VSeq):
            return some(d.items.pop()) if d.items else NONE()
    if re.match(r"^std::vec::Vec::<.*>::(iter|iter_mut)$", c, re.S) or re.search(r"<impl \[.*\]>::(iter|iter_mut)$", c):
        r = ref_chain(E, args[0])
        d = E.read_ref(r)
        if isinstance(d, VSeq):
            return VSeq([VRef(r.cell, r.path + (("field", k),)) for k in range(len(d.items))], "iter")
    m2 = re.search(r"(?:^|::)(BTreeMap|HashMap|LinkedHashMap)::<.*>::(iter|values|keys|len|is_empty)$", c, re.S)
    if m2 and args:
        r = ref_chain(E, args[0]) if isinstance(args[0], VRef) else None
        d = E.read_ref(r) if r is not None else None
        if isinstance(d, VSeq) and d.kind in ("map", "hmap"):
            n = len(d.items)
            meth = m2.group(2)
            if meth == "len":
                return VInt(n, "usize")
            if meth == "is_empty":
                return VBool(n == 0)
            order = iteration_order(E, d, lambda it: elem_ident(E, it.fields[0]))
            if meth == "iter":
                return VSeq([VStruct("()", [VRef(r.cell, r.path + (("field", k), ("field", 0))), VRef(r.cell, r.path + (("field", k), ("field", 1)))]) for k in order], "iter")
            idx = 0 if meth == "keys" else 1
            return VSeq([VRef(r.cell, r.path + (("field", k), ("field", idx))) for k in order], "iter")
    if re.search(r"<impl \[.*\]>::contains$", c) or re.match(r"^std::vec::Vec::<.*>::contains$", c, re.S):
        d = deref(E, args[0])
        if isinstance(d, VSeq):
            x = E.as_u(args[1])
            eq = z3.Function("abstract_eq", E.U, E.U, z3.BoolSort())
            return VBool(z3.Or([eq(E.as_u(it), x) for it in d.items]) if d.items else z3.BoolVal(False))
    me = re.search(r"(?:^|::)(BTreeMap|HashMap|LinkedHashMap)::<.*>::entry$", c, re.S)
    if me and len(args) == 2:
        r = ref_chain(E, args[0])
        d = E.read_ref(r)
        if isinstance(d, VSeq) and d.kind in ("map", "umap", "hmap"):
            kid = str(elem_ident(E, args[1]))
            for k, it in enumerate(d.items):
                if str(elem_ident(E, it.fields[0])) == kid:
                    return VEnum("Entry", "Occupied", [VStruct("#Occ", [VRef(r.cell, r.path), args[1], VInt(k, "usize")])])
            return VEnum("Entry", "Vacant", [VStruct("#Vac", [VRef(r.cell, r.path), args[1]])])
    if re.search(r"Entry::<.*>::(or_default|or_insert_with|or_insert)(::<.*>)?$", c, re.S) and args and isinstance(args[0], VEnum) and args[0].ty == "Entry":
        pay = args[0].fields[0]
        mref = pay.fields[0]
        d = E.read_ref(mref)
        if args[0].variant == "Occupied":
            k = conc(E, pay.fields[2].t, "entry index")
            return VRef(mref.cell, mref.path + (("field", k), ("field", 1)))
        key = pay.fields[1]
        if c.split("::")[-1].startswith("or_default"):
            mt_ = re.search(r"Entry::<.*?, (.*)>::or_default$", c, re.S)
            val = VSeq([], "vec") if mt_ and last_seg_(mt_.group(1)) == "Vec" else None
            vty = re.sub(r"^.*[,<]\s*", "", re.sub(r">::or_default$", "", c)).strip()
            if val is None and last_seg_(vty) in ("Assets", "MintAssets"):
                mt_ = re.match(r"(.*)", vty)
                val = VStruct(last_seg_(mt_.group(1)), [VSeq([], "map")])       # #[derive(Default)] newtype around an ordered map
            if val is None:
                raise Unsupported("or_default for " + c)
        elif "or_insert_with" in c:
            val = E.call_value(args[1], [])
        else:
            val = args[1]
        d.items.append(VStruct("()", [key, val]))
        return VRef(mref.cell, mref.path + (("field", len(d.items) - 1), ("field", 1)))
    if re.search(r"OccupiedEntry::<.*>::(get_mut|get|into_mut)$", c, re.S) and args:
        pay = deref(E, args[0])
        if isinstance(pay, VStruct) and pay.name == "#Occ":
            mref = pay.fields[0]
            k = conc(E, pay.fields[2].t, "entry index")
            return VRef(mref.cell, mref.path + (("field", k), ("field", 1)))
    if re.search(r"VacantEntry::<.*>::insert$", c, re.S) and len(args) == 2:
        pay = deref(E, args[0])
        if isinstance(pay, VStruct) and pay.name == "#Vac":
            mref = pay.fields[0]
            d = E.read_ref(mref)
            d.items.append(VStruct("()", [pay.fields[1], args[1]]))
            return VRef(mref.cell, mref.path + (("field", len(d.items) - 1), ("field", 1)))
    m3 = re.search(r"(?:^|::)(BTreeMap|HashMap|LinkedHashMap)::<.*>::(insert|get|get_mut|contains_key|new|remove)(?:::<.*>)?$", c, re.S)
    if m3:
        meth = m3.group(2)
        if meth == "new" and not args:
            return VSeq([], "map")
        r = ref_chain(E, args[0]) if args and isinstance(args[0], VRef) else None
        d = E.read_ref(r) if r is not None else None
        from engine import VLazy as _VL
        if meth == "contains_key" and isinstance(d, (_VL, VOpaque)):
            # membership in an abstract (lazily initialised) map: an arbitrary but fixed predicate of map and key
            f = z3.Function("map_contains_key", E.U, E.U, z3.BoolSort())
            return VBool(f(E.as_u(d), elem_ident(E, args[1])))
        if isinstance(d, VSeq) and d.kind in ("map", "umap", "hmap"):
            kid = str(elem_ident(E, args[1]))
            pos = None
            for k, it in enumerate(d.items):
                if str(elem_ident(E, it.fields[0])) == kid:
                    pos = k
            if meth == "insert":
                if pos is None:
                    d.items.append(VStruct("()", [args[1], args[2]]))
                    return NONE()
                old = d.items[pos].fields[1]
                d.items[pos].fields[1] = args[2]
                return some(old)
            if meth == "contains_key":
                return VBool(pos is not None)
            if meth == "remove":
                if pos is None:
                    return NONE()
                return some(d.items.pop(pos).fields[1])
            if meth in ("get", "get_mut"):
                return some(VRef(r.cell, r.path + (("field", pos), ("field", 1)))) if pos is not None else NONE()
    if re.match(r"^<std::vec::Vec<.*> as (std::iter::)?Extend<.*>>::extend(::<.*>)?$", c, re.S) and len(args) == 2:
        r = ref_chain(E, args[0])
        d = E.read_ref(r)
        src = deref(E, args[1])
        if isinstance(d, VSeq) and isinstance(src, VSeq):
            d.items += [clone(deref(E, x)) if isinstance(x, VRef) else x for x in src.items[getattr(src, "pos", 0):]]
            return UNIT
        if isinstance(d, VSeq) and isinstance(src, VOpaque) and re.match(r"^<std::vec::Vec<u8> as", c):
            d.items.append(VStruct("#chunk", [src]))          # an opaque run of bytes appended as a whole
            return UNIT
    if (re.search(r"<impl \[.*\]>::(get_mut|get)::<usize>$", c, re.S) or re.match(r"^std::vec::Vec::<.*>::(get_mut|get)::<usize>$", c, re.S)) and len(args) == 2:
        r = ref_chain(E, args[0])
        d = E.read_ref(r)
        if isinstance(d, VSeq):
            k = conc(E, args[1].t, "slice index")
            return some(VRef(r.cell, r.path + (("field", k),))) if 0 <= k < len(d.items) else NONE()
    if re.match(r"^(std|core)::mem::swap::<.*>$", c, re.S) and len(args) == 2:
        ra, rb = ref_chain(E, args[0]), ref_chain(E, args[1])
        va, vb = E.read_ref(ra), E.read_ref(rb)
        E.write_at(ra.cell, ra.path, vb)
        E.write_at(rb.cell, rb.path, va)
        return UNIT
    if re.match(r"^std::vec::Vec::<.*>::retain::<", c, re.S) and len(args) == 2:
        r = ref_chain(E, args[0])
        d = E.read_ref(r)
        if isinstance(d, VSeq):
            keep = []
            for x in list(d.items):
                b = E.call_value(args[1], [VRef(Cell(x, "retain_item"))])
                if E.choose([b.t, z3.Not(b.t)], "retain") == 0:
                    keep.append(x)
            d.items[:] = keep
            return UNIT
    if re.search(r"<impl \[(?:u8|u16|u32|u64|usize)\]>::binary_search$", c) and len(args) == 2:
        # std's contract: on a slice sorted ascending, Ok(position of a match) or Err(insertion point); on an unsorted slice the
        # result is unspecified — modelled as ANY answer the algorithm could give: a position that really holds the value, or a miss
        d = deref(E, args[0])
        x = deref(E, args[1])
        if isinstance(d, VSeq) and isinstance(x, VInt) and all(isinstance(deref(E, it), VInt) for it in d.items):
            vals = [deref(E, it).t for it in d.items]
            n = len(vals)
            srt = z3.And([vals[i] <= vals[i + 1] for i in range(n - 1)]) if n > 1 else z3.BoolVal(True)
            is_sorted = E.choose([srt, z3.Not(srt)], "slice sorted") == 0
            alts = [("ok", i, vals[i] == x.t) for i in range(n)]
            if is_sorted:
                alts += [("err", j, z3.And([v < x.t for v in vals[:j]] + [v > x.t for v in vals[j:]])) for j in range(n + 1)]
            else:
                pick = E.fresh("unsorted_binary_search_miss", "bool")
                alts += [("err", n, z3.And(pick, z3.BoolVal(True)))]
                alts = [(k_, i, z3.And(cnd, z3.Not(pick))) if k_ == "ok" else (k_, i, cnd) for k_, i, cnd in alts]
            k = E.choose([a[2] for a in alts], "binary_search outcome")
            kind, i, _ = alts[k]
            return VEnum("Result", "Ok" if kind == "ok" else "Err", [VInt(z3.IntVal(i), "usize")])
    if re.match(r"^std::vec::Vec::<.*>::swap_remove$", c, re.S) and len(args) == 2:
        r = ref_chain(E, args[0])
        d = E.read_ref(r)
        if isinstance(d, VSeq):
            k = conc(E, args[1].t, "swap_remove index")
            if k >= len(d.items):
                raise PathAbort("panic", "swap_remove index out of bounds")
            x = d.items[k]
            d.items[k] = d.items[-1]
            d.items.pop()
            return x
    if re.search(r"<impl \[.*\]>::reverse$", c, re.S) and len(args) == 1:
        d = E.read_ref(ref_chain(E, args[0]))
        if isinstance(d, VSeq):
            d.items.reverse()
            return UNIT
    if re.match(r"^std::vec::Vec::<.*>::remove$", c, re.S) and len(args) == 2 and isinstance(deref(E, args[1]), VInt):
        r = ref_chain(E, args[0])
        d = E.read_ref(r)
        if isinstance(d, VSeq) and d.kind == "vec":
            k = conc(E, deref(E, args[1]).t, "remove index")
            if k >= len(d.items):
                raise PathAbort("panic", "removal index (is %d) should be < len (is %d)" % (k, len(d.items)))
            return d.items.pop(k)
    if re.search(r"<impl \[.*\]>::sort_by_key::<", c, re.S) and len(args) == 2:
        # stable insertion sort (ascending) on the keys the real key closure returns; every comparison is a solver-checked fork
        r = ref_chain(E, args[0])
        d = E.read_ref(r)
        if isinstance(d, VSeq):
            def key_of(x):
                k = deref(E, E.call_value(args[1], [VRef(Cell(x, "key_item"))]))
                while isinstance(k, VStruct) and len(k.fields) == 1:
                    k = deref(E, k.fields[0])
                if not isinstance(k, VInt):
                    raise Unsupported("sort key %r" % (k,))
                return k.t
            out = []
            for x in d.items:
                kx = key_of(x)
                k = len(out)
                while k > 0:
                    if E.choose([out[k - 1][0] > kx, out[k - 1][0] <= kx], "sort_by_key compare") == 0:
                        k -= 1
                    else:
                        break
                out.insert(k, (kx, x))
            d.items[:] = [x for _, x in out]
            return UNIT
    msort = re.search(r"<impl \[(.*)\]>::sort$", c, re.S)
    if msort and len(args) == 1:
        # slice::sort: stable insertion sort driven by the element type's own Ord::cmp (executed from its MIR)
        r = ref_chain(E, args[0])
        d = E.read_ref(r)
        if isinstance(d, VSeq):
            ety = msort.group(1).strip()
            out = []
            for x in d.items:
                k = len(out)
                while k > 0:
                    o_ = E.call("<%s as Ord>::cmp" % ety, [VRef(Cell(out[k - 1], "sort_a")), VRef(Cell(x, "sort_b"))])
                    if isinstance(o_, VEnum) and o_.variant == "Greater":
                        k -= 1
                    elif isinstance(o_, VEnum):
                        break
                    else:
                        raise Unsupported("Ord::cmp result %r" % (o_,))
                out.insert(k, x)
            d.items[:] = out
            return UNIT
    if re.search(r"<impl \[.*\]>::sort_by::<", c, re.S) and len(args) == 2:
        # stable insertion sort driven by the real comparator closure (each comparison is executed; its outcome is a path decision)
        r = ref_chain(E, args[0])
        d = E.read_ref(r)
        if isinstance(d, VSeq):
            out = []
            for x in d.items:
                k = len(out)
                while k > 0:
                    o_ = E.call_value(args[1], [VRef(Cell(out[k - 1], "sort_a")), VRef(Cell(x, "sort_b"))])
                    if isinstance(o_, VEnum) and o_.variant == "Greater":
                        k -= 1
                    elif isinstance(o_, VEnum):
                        break
                    else:
                        raise Unsupported("comparator result %r" % (o_,))
                out.insert(k, x)
            d.items[:] = out
            return UNIT
    ms = re.search(r"(?:^|::)(BTreeSet|HashSet|LinkedHashSet)::<.*>::(insert|contains|new|with_capacity|len|is_empty|iter|remove)(?:::<.*>)?$", c, re.S)
    if ms:
        meth = ms.group(2)
        if meth == "with_capacity":
            meth, args = "new", []
        if meth == "new" and not args:
            fam = ms.group(1)
            return VSeq([], ("hset" if fam == "HashSet" else "bset" if fam == "BTreeSet" else "set") if getattr(E, "model_iteration_order", False) else "set")
        r = ref_chain(E, args[0]) if args and isinstance(args[0], VRef) else None
        d = E.read_ref(r) if r is not None else None
        if isinstance(d, VSeq) and d.kind in SETK:
            if meth == "len":
                return VInt(len(d.items), "usize")
            if meth == "is_empty":
                return VBool(len(d.items) == 0)
            if meth == "iter":
                return VSeq([VRef(r.cell, r.path + (("field", k),)) for k in iteration_order(E, d)], "iter")
            # membership: an ordered set compares with the element type's Ord, a hash set with its PartialEq (assumed
            # consistent with Hash).  Unfolded struct elements go through the crate's own impls — they may be hand-written
            # and disagree with each other —, everything else by identity (smart pointers are transparent).
            fam = ms.group(1)
            def same(y, xv):
                ya, xa = strip_ptr(E, y), strip_ptr(E, xv)
                if isinstance(ya, VStruct) and isinstance(xa, VStruct) and ya.name == xa.name and not ya.name.startswith(("(", "#")):
                    tr, meth_ = ("Ord", "cmp") if fam == "BTreeSet" else ("PartialEq", "eq")
                    if E.P.resolve("<%s as %s>::%s" % (ya.name, tr, meth_)) is not None:
                        r_ = E.call("<%s as %s>::%s" % (ya.name, tr, meth_), [VRef(Cell(ya, "set_a")), VRef(Cell(xa, "set_b"))])
                        if isinstance(r_, VBool):
                            return r_.t
                        if isinstance(r_, VEnum) and r_.ty == "Ordering":
                            return z3.BoolVal(r_.variant == "Equal")
                return elem_ident(E, y) == elem_ident(E, xv)
            present = z3.Or([same(it, args[1]) for it in d.items]) if d.items else z3.BoolVal(False)
            x = elem_ident(E, args[1])
            if meth == "contains":
                return VBool(present)
            if meth == "remove":
                for k, it in enumerate(d.items):
                    eq_ = same(it, args[1])
                    if E.choose([eq_, z3.Not(eq_)], "set remove") == 0:
                        d.items.pop(k)
                        return VBool(True)
                return VBool(False)
            i = E.choose([z3.Not(present), present], "set insert")
            if i == 0:
                d.items.append(args[1])
                return VBool(True)
            return VBool(False)
    if tc and tc[1] and (tc[1].startswith("Index<") and tc[2] == "index" or tc[1].startswith("IndexMut<") and tc[2] == "index_mut") and isinstance(deref(E, args[1]), VInt):
        r = ref_chain(E, args[0])
        d = E.read_ref(r)
        if isinstance(d, VSeq):
            iv = deref(E, args[1])
            n = conc(E, iv.t, "index")
            if n >= len(d.items):
                raise PathAbort("panic", "index out of bounds")
            return VRef(r.cell, r.path + (("field", n),))
    if tc and tc[1] and re.match(r"Index<(std::ops::|core::ops::)?(RangeTo|RangeFrom|Range)<usize>>", tc[1]) and tc[2] == "index" and isinstance(deref(E, args[0]), VSeq):
        d = deref(E, args[0])
        rg = deref(E, args[1])
        n_ = len(d.items) - d.pos
        kind_ = re.search(r"(RangeTo|RangeFrom|Range)<", tc[1]).group(1)
        def bound(t_, what):
            c_ = E.concretize(t_)
            if c_ is not None:
                return c_
            # a symbolic bound: every position inside the slice, or beyond it (the indexing panics there) - a fork
            k_ = E.choose([t_ == j_ for j_ in range(n_ + 1)] + [t_ > n_], what)
            return k_ if k_ <= n_ else n_ + 1
        lo = 0 if kind_ == "RangeTo" else bound(deref(E, rg.fields[0]).t, "slice start")
        hi = n_ if kind_ == "RangeFrom" else bound(deref(E, rg.fields[0 if kind_ == "RangeTo" else 1]).t, "slice end")
        if lo > hi or hi > n_:
            raise PathAbort("panic", "range end index %d out of range for slice of length %d" % (hi, n_))
        return VRef(Cell(VSeq(list(d.items[d.pos + lo:d.pos + hi]), "vec"), "subslice"))
    if tc and tc[1] in ("Deref", "DerefMut") and isinstance(deref(E, args[0]), VSeq):
        return ref_chain(E, args[0])
    if re.search(r"<impl \[.*\]>::(first|last|first_mut|last_mut)$", c):
        r = ref_chain(E, args[0])
        d = E.read_ref(r)
        if isinstance(d, VSeq):
            if not d.items:
                return NONE()
            k = 0 if re.search(r"first(_mut)?$", c) else len(d.items) - 1
            return some(VRef(r.cell, r.path + (("field", k),)))
    if re.search(r"<impl \[.*\]>::get$", c) or re.match(r"^std::vec::Vec::<.*>::get$", c, re.S):
        r = ref_chain(E, args[0])
        d = E.read_ref(r)
        if isinstance(d, VSeq):
            n = conc(E, deref(E, args[1]).t, "index")
            return some(VRef(r.cell, r.path + (("field", n),))) if n < len(d.items) else NONE()
    # ---------------- iterator protocol on VSeq("iter")
    if tc and tc[1] in ("Iterator", "DoubleEndedIterator", "Itertools", "itertools::Itertools") and args:
        it = deref(E, args[0])
        if isinstance(it, VStruct) and it.name == "Range" and tc[2] != "next":
            lo, hi = conc(E, it.fields[0].t, "range start"), conc(E, it.fields[1].t, "range end")
            it = VSeq([VInt(k, it.fields[0].ty) for k in range(lo, max(lo, hi))], "iter")
        if isinstance(it, VSeq):
            meth = tc[2]
            if meth == "next":
                if it.pos >= len(it.items):
                    return NONE()
                v = it.items[it.pos]
                it.pos += 1
                return some(v)
            if meth == "nth":
                k = conc(E, deref(E, args[1]).t, "nth")
                it.pos += k
                if it.pos >= len(it.items):
                    it.pos = len(it.items)
                    return NONE()
                v = it.items[it.pos]
                it.pos += 1
                return some(v)
            rest = it.items[it.pos:]
            if meth in ("try_fold",):
                acc = args[1]
                for x in rest:
                    r = E.call_value(args[2], [acc, x])
                    # R: Try — Result / Option / ControlFlow
                    if isinstance(r, VEnum) and r.ty == "Result":
                        if r.variant == "Err":
                            it.pos = len(it.items)
                            return r
                        acc = r.fields[0]
                    elif isinstance(r, VEnum) and r.ty == "Option":
                        if r.variant == "None":
                            return r
                        acc = r.fields[0]
                    elif isinstance(r, VEnum) and r.ty == "ControlFlow":
                        if r.variant == "Break":
                            return r
                        acc = r.fields[0]
                    else:
                        raise Unsupported("try_fold result %r" % (r,))
                it.pos = len(it.items)
                rt = c
                if "ControlFlow" in c:
                    return VEnum("ControlFlow", "Continue", [acc])
                if "option::Option" in c and "result::Result" not in c:
                    return some(acc)
                return VEnum("Result", "Ok", [acc])
            if meth == "fold":
                acc = args[1]
                for x in rest:
                    acc = E.call_value(args[2], [acc, x])
                it.pos = len(it.items)
                return acc
            if meth == "map":
                # closures handed to map are pure projections in this crate: apply eagerly
                return VSeq([E.call_value(args[1], [x]) for x in rest], "iter")
            if meth == "filter":
                keep = []
                for x in rest:
                    b = E.call_value(args[1], [VRef(Cell(x, "filter_item"))])
                    if E.choose([b.t, z3.Not(b.t)], "filter") == 0:
                        keep.append(x)
                return VSeq(keep, "iter")
            if meth in ("dedup", "unique"):
                # itertools: dedup drops CONSECUTIVE repeats only, unique drops every repeat; element equality is identity
                # equality decided by the solver (both outcomes explored)
                keep = []
                for x in rest:
                    against = keep[-1:] if meth == "dedup" else keep
                    dup = z3.Or([elem_ident(E, y) == elem_ident(E, x) for y in against]) if against else z3.BoolVal(False)
                    if E.choose([z3.Not(dup), dup], meth) == 0:
                        keep.append(x)
                return VSeq(keep, "iter")
            if meth == "map_while":
                keep = []
                for x in rest:
                    r = E.force_arg(E.call_value(args[1], [x]))
                    if r.variant != "Some":
                        break
                    keep.append(r.fields[0])
                return VSeq(keep, "iter")
            if meth in ("take_while", "skip_while"):
                k = 0
                for x in rest:
                    b = E.call_value(args[1], [VRef(Cell(x, "while_item"))])
                    if E.choose([b.t, z3.Not(b.t)], meth) == 1:
                        break
                    k += 1
                return VSeq(rest[:k] if meth == "take_while" else rest[k:], "iter")
            if meth == "filter_map":
                keep = []
                for x in rest:
                    r = E.force_arg(E.call_value(args[1], [x]))
                    if r.variant == "Some":
                        keep.append(r.fields[0])
                return VSeq(keep, "iter")
            if meth in ("find_map", "find", "position"):
                for k, x in enumerate(rest):
                    if meth == "find_map":
                        r = E.force_arg(E.call_value(args[1], [x]))
                        if r.variant == "Some":
                            it.pos += k + 1
                            return r
                    else:
                        b = E.call_value(args[1], [VRef(Cell(x, "find_item"))] if meth == "find" else [x])
                        if E.choose([b.t, z3.Not(b.t)], meth) == 0:
                            it.pos += k + 1
                            return some(x) if meth == "find" else some(VInt(k, "usize"))
                it.pos = len(it.items)
                return NONE()
            if meth == "flatten":
                # an iterator of Options (Some(x) -> x, None -> nothing) or of sequences
                out = []
                for x in rest:
                    xv = E.force_arg(x) if isinstance(x, VRef) or not isinstance(x, (VEnum, VSeq)) else x
                    xv = deref(E, xv) if not isinstance(xv, (VEnum, VSeq)) else xv
                    if isinstance(xv, VEnum) and xv.ty == "Option":
                        if xv.variant == "Some":
                            if isinstance(x, VRef):
                                rr = ref_chain(E, x)            # &Option<T> yields &T
                                out.append(VRef(rr.cell, rr.path + (("field", 0),)))
                            else:
                                out.append(xv.fields[0])
                    elif isinstance(xv, VSeq):
                        out += list(xv.items[xv.pos:])
                    else:
                        raise Unsupported("flatten over %r" % (xv,))
                return VSeq(out, "iter")
            if meth == "flat_map":
                out = []
                for x in rest:
                    sub = E.call_value(args[1], [x])
                    subv = deref(E, sub)
                    if isinstance(subv, VSeq):
                        if subv.kind == "map" and isinstance(sub, VRef):
                            rr = ref_chain(E, sub)
                            out += [VStruct("()", [VRef(rr.cell, rr.path + (("field", k), ("field", 0))), VRef(rr.cell, rr.path + (("field", k), ("field", 1)))]) for k in range(len(subv.items))]
                        elif isinstance(sub, VRef):
                            rr = ref_chain(E, sub)
                            out += [VRef(rr.cell, rr.path + (("field", k),)) for k in range(len(subv.items))]
                        else:
                            out += list(subv.items[subv.pos:])
                    else:
                        raise Unsupported("flat_map over %r" % (subv,))
                return VSeq(out, "iter")
            if meth == "sum":
                acc = None
                for x in rest:
                    xv = deref(E, x)
                    acc = xv.t if acc is None else acc + xv.t
                ty = deref(E, rest[0]).ty if rest else "usize"
                from engine import in_range
                t = acc if acc is not None else z3.IntVal(0)
                i = E.choose([in_range(t, ty), z3.Not(in_range(t, ty))], "sum overflow")
                if i == 1:
                    raise PathAbort("panic", "attempt to add with overflow (sum)")
                return VInt(t, ty)
            if meth == "enumerate":
                return VSeq([VStruct("()", [VInt(k, "usize"), x]) for k, x in enumerate(rest)], "iter")
            if meth == "count":
                return VInt(len(rest), "usize")
            if meth in ("rev",):
                return VSeq(list(reversed(rest)), "iter")
            if meth in ("cloned", "copied"):
                return VSeq([clone(deref(E, x)) for x in rest], "iter")
            if meth == "for_each":
                for x in rest:
                    E.call_value(args[1], [x])
                return UNIT
            if meth == "any" or meth == "all":
                res = None
                for x in rest:
                    b = E.call_value(args[1], [x])
                    i = E.choose([b.t, z3.Not(b.t)], meth)
                    if (meth == "any" and i == 0) or (meth == "all" and i == 1):
                        return VBool(meth == "any")
                return VBool(meth == "all")
            if meth == "collect_vec":            # itertools
                return VSeq(rest, "vec")
            if meth == "collect":
                mt = re.search(r"collect::<(.*)>$", c, re.S)
                tgt = last_seg_(mt.group(1)) if mt else "Vec"
                if tgt in ("BTreeMap", "HashMap", "LinkedHashMap"):
                    # keyed lookups only ("umap"): the iteration order of a map collected from abstract keys is not known
                    pairs = [deref(E, x) for x in rest]
                    return VSeq([VStruct("()", [p_.fields[0], p_.fields[1]]) for p_ in pairs], "map" if tgt == "LinkedHashMap" else "umap")
                if tgt in ("BTreeSet", "HashSet", "LinkedHashSet"):
                    keep = []
                    for x in rest:
                        dup = z3.Or([elem_ident(E, y) == elem_ident(E, x) for y in keep]) if keep else z3.BoolVal(False)
                        if E.choose([z3.Not(dup), dup], "collect into a set") == 0:
                            keep.append(x)
                    return VSeq(keep, "set")
                return VSeq(rest, "vec")
    return NotImplemented
