"""C07: minimum-ADA bound and admission limits (E2).

`TransactionOutput::to_bytes().len()` is replaced by the size lemma  len = K + head(coin)  where K >= 1 is the
(arbitrary, symbolic) size of everything but the coin and head() is the CBOR uint head length.  The lemma itself —
that the serialized size depends on the coin only through its head length — is established on the real serializer
by the E1 harnesses of C03 (to_bytes == reference bytes for every coin), so K ranges over ALL shapes at once here.
"""
import z3
from engine import *
from prove import Obligation, mval, le_bytes
import valuemodel as VM

U64 = (1 << 64) - 1


def R(v, name="tmp"):
    return VRef(Cell(v, name))


def head(c):
    return z3.If(c < 24, 1, z3.If(c < 256, 2, z3.If(c < 65536, 3, z3.If(c < (1 << 32), 5, 9))))


def install_size_model(E, K):
    def to_bytes(E_, c, args):
        coin, _ = VM.value_parts(E_, E_.nav(VM.deref(E_, args[0]), [("field", E_.P.struct_fields["TransactionOutput"].index("amount"), "utils::Value")]))
        return VStruct("#Bytes", [VInt(K + head(coin), "usize")])
    def vec_len(E_, c, args):
        v = VM.deref(E_, args[0])
        if isinstance(v, VStruct) and v.name == "#Bytes":
            return v.fields[0]
        return NotImplemented
    E.extra_intrinsics[r"TransactionOutput::to_bytes$"] = to_bytes
    E.extra_intrinsics[r"Vec::<u8>::len$"] = vec_len


def obligations(ctx):
    P = ctx.P
    # ------------------------------------------------------------------ min_ada_for_output
    E = Engine(P, max_loop=6)
    K = E.sym_int("K", "usize").t
    E.assume(K >= 1); E.assume(K <= (1 << 32))
    coin, cpb = E.sym_int("coin", "u64"), E.sym_int("coins_per_byte", "u64")
    install_size_model(E, K)
    def mk():
        out = E.mk_struct("TransactionOutput", amount=VM.mk_value(coin.t))
        dc = E.call("DataCost::new_coins_per_byte", [R(VM.bn(cpb))])
        return [R(out, "output"), R(dc, "data_cost")]
    ob = Obligation(ctx, "c07_e2_min_ada_bound", "coin, coins_per_byte: all u64; size of the rest of the output K: all of 1..2^32 (covers every shape by the size lemma)",
                    ["min_ada_for_output", "MinOutputAdaCalculator::calculate_ada", "calc_required_coin", "calc_size_cost"])
    seen = set()
    for o in E.explore("utils::min_ada_for_output", mk):
        if o.kind != "return":
            ob.vc("no panic in min_ada_for_output (%s %s)" % (o.kind, o.msg), o.pc, z3.BoolVal(False))
            continue
        v = o.value
        seen.add(v.variant)
        widest = cpb.t * (160 + K + 9)
        if v.variant == "Ok":
            c = v.fields[0].fields[0].t
            funded = z3.If(c >= coin.t, c, coin.t)
            ob.vc("output carrying max(c, coin) satisfies coin >= cpb*(160+size)", o.pc, funded >= cpb.t * (160 + K + head(funded)))
            ob.vc("c does not exceed the bound at the widest coin encoding", o.pc, c <= widest)
        else:
            ob.vc("Err only if the bound at the widest encoding exceeds u64", o.pc, widest > U64)
    if not {"Ok", "Err"} <= seen:
        ob.fail("expected Ok and Err paths, saw %s" % sorted(seen))
    ob.finish(E, lambda m: ("e2n_c07_min_ada", [le_bytes(mval(m, coin.t), 8), le_bytes(mval(m, cpb.t), 8), le_bytes(mval(m, K), 8)]))

    # ------------------------------------------------------------------ add_output admission
    E = Engine(P)
    vsize, maxv = E.sym_int("value_size", "usize"), E.sym_int("max_value_size", "u32")
    coin, minada = E.sym_int("coin", "u64"), E.sym_int("min_ada", "u64")
    g = z3.Bool("min_ada_ok")
    E.extra_intrinsics[r"(^|::)Value::to_bytes$"] = lambda E_, c, args: VStruct("#Bytes", [vsize])
    E.extra_intrinsics[r"Vec::<u8>::len$"] = lambda E_, c, args: VM.deref(E_, args[0]).fields[0] if isinstance(VM.deref(E_, args[0]), VStruct) and VM.deref(E_, args[0]).name == "#Bytes" else NotImplemented
    def min_ada_stub(E_, c, args):
        i = E_.choose([g, z3.Not(g)], "min ada")
        return VEnum("Result", "Ok", [VM.bn(minada)]) if i == 0 else VEnum("Result", "Err", [VOpaque("err")])
    E.extra_intrinsics[r"min_ada_for_output$"] = min_ada_stub
    added = []
    def add_stub(E_, c, args):
        E_.trace.append(("outputs.add", args[1]))
        return UNIT
    E.extra_intrinsics[r"TransactionOutputs::add$"] = add_stub
    def mk():
        cfg = E.mk_struct("TransactionBuilderConfig", max_value_size=maxv)
        tb = E.mk_struct("TransactionBuilder", config=cfg)
        out = E.mk_struct("TransactionOutput", amount=VM.mk_value(coin.t))
        return [R(tb, "self"), R(out, "output")]
    ob = Obligation(ctx, "c07_e2_add_output_admission", "value size: all usize, max_value_size: all u32, coin and min-ADA: all u64",
                    ["TransactionBuilder::add_output"], fallback_native="e2n_c07_add_output")
    nok = 0
    for o in E.explore("TransactionBuilder::add_output", mk):
        if o.kind != "return":
            ob.vc("no panic in add_output (%s %s)" % (o.kind, o.msg), o.pc, z3.BoolVal(False))
            continue
        stored = [t for t in o.trace if t[0] == "outputs.add"]
        if o.value.variant == "Ok":
            nok += 1
            ob.vc("accepted output respects max value size and min ADA", o.pc, z3.And(vsize.t <= maxv.t, g, coin.t >= minada.t))
            if len(stored) != 1:
                ob.fail("accepted output was not stored exactly once")
        else:
            if stored:
                ob.fail("rejected output was stored")
            ob.vc("rejected only for size, min-ADA failure or too little coin", o.pc, z3.Or(vsize.t > maxv.t, z3.Not(g), coin.t < minada.t))
    if nok == 0:
        ob.fail("no Ok path")
    ob.finish(E)

    # ------------------------------------------------------------------ final size gate in build()
    E = Engine(P)
    size, maxtx = E.sym_int("full_tx_size", "usize"), E.sym_int("max_tx_size", "u32")
    g = z3.Bool("build_and_size_ok")
    def bas_stub(E_, c, args):
        i = E_.choose([g, z3.Not(g)], "build_and_size")
        return VEnum("Result", "Ok", [VStruct("()", [VLazy("body", "TransactionBody"), size])]) if i == 0 else VEnum("Result", "Err", [VOpaque("err")])
    E.extra_intrinsics[r"TransactionBuilder::build_and_size$"] = bas_stub
    def mk():
        return [R(E.mk_struct("TransactionBuilder", config=E.mk_struct("TransactionBuilderConfig", max_tx_size=maxtx)), "self")]
    ob = Obligation(ctx, "c07_e2_build_size_gate", "predicted full size: all usize; max_tx_size: all u32", ["TransactionBuilder::build"])
    nok = 0
    for o in E.explore("TransactionBuilder::build", mk):
        if o.kind != "return":
            ob.vc("no panic in build (%s %s)" % (o.kind, o.msg), o.pc, z3.BoolVal(False))
        elif o.value.variant == "Ok":
            nok += 1
            ob.vc("a built body implies predicted size <= max_tx_size", o.pc, z3.And(g, size.t <= maxtx.t))
    if nok == 0:
        ob.fail("no Ok path")
    ob.finish(E)
    # change outputs: every output the balancing step creates passes the admission check (shared exploration with C05 / C06)
    from obl.c05 import change_step
    change_step(ctx, record=("c07",), rounds=1)
    # the size compared with max_tx_size counts one mock key witness per counted key: the mock keys may not collide (shared with C18)
    from obl.c18 import mock_keys_injective
    mock_keys_injective(ctx)
