"""C15: stand-alone fee functions equal the ledger definitions (E2)."""
import z3
from engine import *
from prove import Obligation, mval, le_bytes

U64 = (1 << 64) - 1


def bignum(t):
    return VStruct("BigNum", [t])


def mk_unit_interval(E, n, d):
    return E.call("UnitInterval::new", [VRef(Cell(bignum(n))), VRef(Cell(bignum(d)))])


def result_parts(o):
    """(kind, value-term) of a Result<BigNum, JsError> outcome"""
    v = o.value
    if o.kind != "return":
        return o.kind, None
    if v.variant == "Ok":
        return "Ok", v.fields[0].fields[0].t
    return "Err", None


def obligations(ctx):
    P = ctx.P
    # ------------------------------------------------------------ linear fee
    E = Engine(P)
    size, a, b = E.sym_int("size", "usize"), E.sym_int("coeff", "u64"), E.sym_int("constant", "u64")
    def mk():
        lf = E.call("LinearFee::new", [VRef(Cell(bignum(a))), VRef(Cell(bignum(b)))])
        return [size, VRef(Cell(lf, "lf"))]
    ob = Obligation(ctx, "c15_e2_min_fee_for_size", "size: all usize; coefficient, constant: all u64", ["min_fee_for_size"])
    exact = b.t + a.t * size.t
    seen = set()
    for o in E.explore("min_fee_for_size", mk):
        k, v = result_parts(o)
        seen.add(k)
        if k == "Ok":
            ob.vc("Ok value == constant + coefficient*size", o.pc, z3.And(v == exact, exact <= U64))
        elif k == "Err":
            ob.vc("Err only if exact result exceeds u64", o.pc, exact > U64)
        else:
            ob.vc("no panic path (%s: %s)" % (o.kind, o.msg), o.pc, z3.BoolVal(False))
    if not {"Ok", "Err"} <= seen:
        ob.fail("expected both Ok and Err paths, saw %s" % sorted(seen))
    ob.finish(E, lambda m: ("e2n_min_fee_for_size", [le_bytes(mval(m, size.t), 8), le_bytes(mval(m, a.t), 8), le_bytes(mval(m, b.t), 8)]))

    # ------------------------------------------------------------ ex-unit cost (ceil of mem*pm + steps*ps)
    E = Engine(P)
    mem, steps = E.sym_int("mem", "u64"), E.sym_int("steps", "u64")
    n1, d1, n2, d2 = E.sym_int("n1", "u64"), E.sym_int("d1", "u64"), E.sym_int("n2", "u64"), E.sym_int("d2", "u64")
    E.assume(d1.t > 0); E.assume(d2.t > 0)
    def mk():
        ex = E.call("ExUnits::new", [VRef(Cell(bignum(mem))), VRef(Cell(bignum(steps)))])
        p1, p2 = mk_unit_interval(E, n1, d1), mk_unit_interval(E, n2, d2)
        pr = E.call("ExUnitPrices::new", [VRef(Cell(p1)), VRef(Cell(p2))])
        return [VRef(Cell(ex, "ex")), VRef(Cell(pr, "prices"))]
    ob = Obligation(ctx, "c15_e2_ex_units_ceil_cost", "mem, steps, numerators: all u64; denominators: all u64 > 0 (CDDL positive_int)",
                    ["calculate_ex_units_ceil_cost"])
    N = mem.t * n1.t * d2.t + steps.t * n2.t * d1.t
    D = d1.t * d2.t
    seen = set()
    for o in E.explore("calculate_ex_units_ceil_cost", mk):
        k, v = result_parts(o)
        seen.add(k)
        if k == "Ok":
            # v = ceil(N/D)  <=>  (v-1)*D < N <= v*D
            ob.vc("Ok value is the exact ceiling", o.pc, z3.And((v - 1) * D < N, N <= v * D, v >= 0, v <= U64))
        elif k == "Err":
            ob.vc("Err only if ceiling exceeds u64", o.pc, N > U64 * D)
        else:
            ob.vc("no panic path (%s: %s)" % (o.kind, o.msg), o.pc, z3.BoolVal(False))
    if not {"Ok", "Err"} <= seen:
        ob.fail("expected both Ok and Err paths, saw %s" % sorted(seen))
    ob.finish(E, lambda m: ("e2n_ex_units_cost", [le_bytes(mval(m, x.t), 8) for x in (mem, steps, n1, d1, n2, d2)]))

    # ------------------------------------------------------------ script fee over the summed units of all redeemers
    for nred in ((0, 1, 2, 3) if ctx.tier == "quick" else (0, 1, 2, 3, 4, 5)):
        for has_redeemers in ((True, False) if nred == 0 else (True,)):
            E = Engine(P, max_loop=nred + 3)
            mems = [E.sym_int("mem%d" % i, "u64") for i in range(nred)]
            stps = [E.sym_int("steps%d" % i, "u64") for i in range(nred)]
            n1, d1, n2, d2 = E.sym_int("n1", "u64"), E.sym_int("d1", "u64"), E.sym_int("n2", "u64"), E.sym_int("d2", "u64")
            E.assume(d1.t > 0); E.assume(d2.t > 0)
            def mk():
                reds = [E.mk_struct("Redeemer", ex_units=E.call("ExUnits::new", [VRef(Cell(bignum(m))), VRef(Cell(bignum(st)))])) for m, st in zip(mems, stps)]
                rs = E.mk_struct("Redeemers", redeemers=VSeq(reds, "vec"))
                ws = E.mk_struct("TransactionWitnessSet", redeemers=VEnum("Option", "Some", [rs]) if has_redeemers else VEnum("Option", "None", []))
                tx = E.mk_struct("Transaction", witness_set=ws)
                pr = E.call("ExUnitPrices::new", [VRef(Cell(mk_unit_interval(E, n1, d1))), VRef(Cell(mk_unit_interval(E, n2, d2)))])
                return [VRef(Cell(tx, "tx")), VRef(Cell(pr, "prices"))]
            ob = Obligation(ctx, "c15_e2_min_script_fee_%d_redeemers%s" % (nred, "" if has_redeemers else "_absent"),
                            "%d redeemers, each memory/steps: all u64; price numerators all u64, denominators all u64 > 0" % nred,
                            ["min_script_fee", "Redeemers::total_ex_units", "calculate_ex_units_ceil_cost"])
            M, S_ = sum([m.t for m in mems], z3.IntVal(0)), sum([x.t for x in stps], z3.IntVal(0))
            N = M * n1.t * d2.t + S_ * n2.t * d1.t
            D = d1.t * d2.t
            seen = set()
            for o in E.explore("min_script_fee", mk):
                k, v = result_parts(o)
                seen.add(k)
                if k == "Ok":
                    ob.vc("Ok value is the ceiling of the price of the SUMMED execution units", o.pc, z3.And((v - 1) * D < N, N <= v * D, v >= 0, v <= U64, M <= U64, S_ <= U64))
                elif k == "Err":
                    ob.vc("Err only if a unit total or the ceiling exceeds u64", o.pc, z3.Or(M > U64, S_ > U64, N > U64 * D))
                else:
                    ob.vc("no panic path (%s: %s)" % (o.kind, o.msg), o.pc, z3.BoolVal(False))
            if "Ok" not in seen:
                ob.fail("no Ok path")
            vals = lambda m: [[nred]] + sum([[le_bytes(mval(m, a.t), 8), le_bytes(mval(m, b.t), 8)] for a, b in zip(mems, stps)], []) + [le_bytes(mval(m, x.t), 8) for x in (n1, d1, n2, d2)]
            ob.finish(E, (lambda m, vals=vals: ("e2n_script_fee", vals(m))) if has_redeemers else None)

    # ------------------------------------------------------------ tiered reference-script fee
    # beyond the first tiers: counts far past the point where a price of 1 would overflow (1.2^244 > 2^64) — a tiny or zero
    # price still has an exact 64-bit result there, and the function has to return it
    tiers = (list(range(0, 9)) + [260]) if ctx.tier == "quick" else (list(range(0, 49)) + [100, 256, 257, 300, 600])
    for n in tiers:
        E = Engine(P)
        r, pa, pb = E.sym_int("rem", "usize"), E.sym_int("pa", "u64"), E.sym_int("pb", "u64")
        E.assume(r.t < 25600); E.assume(pb.t > 0)
        total = VInt(n * 25600 + r.t, "usize")
        def mk():
            ui = mk_unit_interval(E, pa, pb)
            return [total, VRef(Cell(ui, "price"))]
        ob = Obligation(ctx, "c15_e2_min_ref_script_fee_tiers_%02d" % n,
                        "size = %d*25600 + r, r: all of 0..25599; price numerator: all u64, denominator: all u64 > 0" % n,
                        ["min_ref_script_fee", "tier_ref_script_fee", "Rational::*"])
        # ledger recursion: tier i (0-based) costs 25600 * p * (6/5)^i, the partial tier r * p * (6/5)^n; floor of the sum.
        # X = pa/pb * S / 5^n with S = 25600 * sum_{i<n} 6^i 5^(n-i) + r * 6^n
        S = sum(25600 * 6 ** i * 5 ** (n - i) for i in range(n)) + r.t * 6 ** n
        NUM = pa.t * S
        DEN = pb.t * 5 ** n
        seen = set()
        for o in E.explore("min_ref_script_fee", mk):
            k, v = result_parts(o)
            seen.add(k)
            if k == "Ok":
                ob.vc("Ok value is the exact floor of the tiered price", o.pc, z3.And(v * DEN <= NUM, NUM < (v + 1) * DEN, v >= 0, v <= U64))
            elif k == "Err":
                ob.vc("Err only if the floor exceeds u64", o.pc, NUM >= (U64 + 1) * DEN)
            else:
                ob.vc("no panic path (%s: %s)" % (o.kind, o.msg), o.pc, z3.BoolVal(False))
        if "Ok" not in seen:
            ob.fail("no Ok path")
        ob.finish(E, lambda m, n=n: ("e2n_ref_script_fee", [le_bytes(n * 25600 + mval(m, r.t), 8), le_bytes(mval(m, pa.t), 8), le_bytes(mval(m, pb.t), 8)]))
