"""C06: the fee set by the builder is sufficient — E2 obligations on the fee gate, the fee-request algebra, the
composition of the private min_fee, and the bookkeeping that feeds it (inputs recorded with their reference-script size,
reference-script sizes summed over every source).  Fee functions themselves are C15, signer counting is C18."""
import z3
from engine import *
from prove import Obligation, mval, le_bytes
import valuemodel as VM

U64 = (1 << 64) - 1


def R(v, name="tmp"):
    return VRef(Cell(v, name))


def opt(x):
    return VEnum("Option", "Some", [x]) if x is not None else VEnum("Option", "None", [])


def res_stub(good, build, tag):
    def f(E, c, args):
        E.trace.append(("call", tag, [E.as_u(a) for a in args]))
        i = E.choose([good, z3.Not(good)], "stub " + tag)
        return VEnum("Result", "Ok", [build()]) if i == 0 else VEnum("Result", "Err", [VOpaque("err:" + tag)])
    return f


def fee_request(E, kind, x):
    """TxBuilderFee value of the given variant (declaration order: Unspecified, NotLess, Exactly)"""
    return VEnum("TxBuilderFee", kind, [] if kind == "Unspecified" else [VM.bn(x)])


def obligations(ctx):
    P = ctx.P
    # ------------------------------------------------------------------ validate_fee: Ok iff fee set and fee >= min_fee(self)
    E = Engine(P)
    fee, minfee = E.sym_int("fee", "u64"), E.sym_int("min_fee", "u64")
    fee_set, g = z3.Bool("fee_set"), z3.Bool("min_fee_ok")
    E.extra_intrinsics[r"TransactionBuilder::get_fee_if_set$"] = lambda E_, c, a: opt(VM.bn(fee)) if E_.choose([fee_set, z3.Not(fee_set)], "fee set") == 0 else opt(None)
    E.extra_intrinsics[r"^(tx_builder::)?min_fee$"] = res_stub(g, lambda: VM.bn(minfee), "min_fee")
    ob = Obligation(ctx, "c06_e2_validate_fee_exact", "fee, minimum fee: all u64; fee possibly unset; arbitrary builder state", ["TransactionBuilder::validate_fee"], fallback_native="e2n_builder_battery")
    nok = 0
    for o in E.explore("TransactionBuilder::validate_fee", lambda: [R(VLazy("self", "TransactionBuilder"), "self")]):
        if o.kind != "return":
            ob.vc("no panic (%s %s)" % (o.kind, o.msg), o.pc, z3.BoolVal(False)); continue
        good = z3.And(fee_set, g, fee.t >= minfee.t)
        if o.value.variant == "Ok":
            nok += 1
            ob.vc("validate_fee Ok => fee is set and fee >= min_fee(self)", o.pc, good)
            calls = [t for t in o.trace if t[0] == "call" and t[1] == "min_fee"]
            if len(calls) != 1 or str(calls[0][2][0]) != "lazy_self@0":
                ob.fail("min_fee was not evaluated on the unmodified builder: %s" % calls)
        else:
            ob.vc("validate_fee Err => fee unset, min_fee failed or fee < min_fee", o.pc, z3.Not(good))
    if nok == 0:
        ob.fail("no Ok path")
    ob.finish(E)

    # ------------------------------------------------------------------ fee request algebra
    for kind in ("Unspecified", "NotLess", "Exactly"):
        E = Engine(P)
        newfee, req, old = E.sym_int("new_fee", "u64"), E.sym_int("requested", "u64"), E.sym_int("old_fee", "u64")
        has_old = z3.Bool("fee_already_set")
        expected = {"Unspecified": newfee.t, "NotLess": z3.If(newfee.t >= req.t, newfee.t, req.t), "Exactly": req.t}[kind]
        ob = Obligation(ctx, "c06_e2_fee_request_%s" % kind.lower(), "computed fee, requested fee, previously stored fee: all u64",
                        ["TxBuilderFee::get_new_fee", "TransactionBuilder::set_final_fee", "TransactionBuilder::get_fee_if_set"], fallback_native="e2n_builder_battery")
        # get_new_fee
        for o in E.explore("TxBuilderFee::get_new_fee", lambda: [R(fee_request(E, kind, req)), VM.bn(newfee)]):
            if o.kind != "return":
                ob.vc("no panic in get_new_fee", o.pc, z3.BoolVal(False)); continue
            ob.vc("get_new_fee(%s): a minimum is a lower bound, an exact fee is used exactly" % kind, o.pc, o.value.fields[0].t == expected)
        # set_final_fee followed by get_fee_if_set on the same state
        cell = {}
        def mk():
            tb = E.mk_struct("TransactionBuilder", fee_request=fee_request(E, kind, req),
                             fee=opt(VM.bn(old)) if E.choose([has_old, z3.Not(has_old)], "old fee") == 0 else opt(None))
            cell["tb"] = tb
            return [R(tb, "self"), VM.bn(newfee)]
        fidx = P.struct_fields["TransactionBuilder"].index("fee")
        for o in E.explore("TransactionBuilder::set_final_fee", mk):
            if o.kind != "return":
                ob.vc("no panic in set_final_fee", o.pc, z3.BoolVal(False)); continue
            stored = VM.deref(E, o.args[0]).fields[fidx]
            if not (isinstance(stored, VEnum) and stored.variant == "Some"):
                ob.fail("set_final_fee left the fee unset")
            else:
                ob.vc("set_final_fee(%s) stores the honoured fee" % kind, o.pc, stored.fields[0].fields[0].t == expected)
        def mk2():
            tb = E.mk_struct("TransactionBuilder", fee_request=fee_request(E, kind, req),
                             fee=opt(VM.bn(old)) if E.choose([has_old, z3.Not(has_old)], "old fee") == 0 else opt(None))
            return [R(tb, "self")]
        for o in E.explore("TransactionBuilder::get_fee_if_set", mk2):
            if o.kind != "return":
                ob.vc("no panic in get_fee_if_set", o.pc, z3.BoolVal(False)); continue
            v = o.value
            if v.variant == "Some":
                ob.vc("get_fee_if_set(%s) returns the stored fee, else the requested one" % kind, o.pc,
                      v.fields[0].fields[0].t == z3.If(has_old, old.t, req.t))
            else:
                ob.vc("get_fee_if_set None only when nothing is stored or requested", o.pc, z3.And(z3.Not(has_old), z3.BoolVal(kind == "Unspecified")))
        ob.finish(E)

    # ------------------------------------------------------------------ composition of the private min_fee
    for prices_set in (True, False):
        for rspb_set in (True, False):
            E = Engine(P)
            a, b, c_, refsize = E.sym_int("linear_fee", "u64"), E.sym_int("script_fee", "u64"), E.sym_int("ref_script_fee", "u64"), E.sym_int("ref_scripts_size", "usize")
            gs = {n: z3.Bool(n + "_ok") for n in ("build", "fake", "lin", "script", "refsize", "reffee")}
            plutus = z3.Bool("has_plutus_inputs")
            E.extra_intrinsics[r"TransactionBuilder::build$"] = res_stub(gs["build"], lambda: VLazy("body", "TransactionBody"), "build")
            E.extra_intrinsics[r"(^|::)fake_full_tx$"] = res_stub(gs["fake"], lambda: VLazy("fulltx", "Transaction"), "fake_full_tx")
            E.extra_intrinsics[r"^fees::min_fee$"] = res_stub(gs["lin"], lambda: VM.bn(a), "fees::min_fee")
            E.extra_intrinsics[r"(^|::)min_script_fee$"] = res_stub(gs["script"], lambda: VM.bn(b), "fees::min_script_fee")
            E.extra_intrinsics[r"TransactionBuilder::get_total_ref_scripts_size$"] = res_stub(gs["refsize"], lambda: refsize, "get_total_ref_scripts_size")
            def mrsf(E_, c, args):
                E_.trace.append(("call", "min_ref_script_fee", [args[0].t]))
                i = E_.choose([gs["reffee"], z3.Not(gs["reffee"])], "min_ref_script_fee")
                return VEnum("Result", "Ok", [VM.bn(c_)]) if i == 0 else VEnum("Result", "Err", [VOpaque("err")])
            E.extra_intrinsics[r"(^|::)min_ref_script_fee$"] = mrsf
            E.extra_intrinsics[r"TransactionBuilder::has_plutus_inputs$"] = lambda E_, c, args: VBool(plutus)
            def mk():
                cfg = E.mk_struct("TransactionBuilderConfig", fee_algo=VLazy("fee_algo", "fees::LinearFee"),
                                  ex_unit_prices=opt(VLazy("prices", "ExUnitPrices")) if prices_set else opt(None),
                                  ref_script_coins_per_byte=opt(VLazy("rspb", "UnitInterval")) if rspb_set else opt(None))
                return [R(E.mk_struct("TransactionBuilder", config=cfg), "tx_builder")]
            ob = Obligation(ctx, "c06_e2_min_fee_composition_prices%d_refprice%d" % (prices_set, rspb_set),
                            "component fees: all u64; reference-script size: all usize; ex-unit prices %s, reference-script price %s" % ("set" if prices_set else "unset", "set" if rspb_set else "unset"),
                            ["tx_builder::min_fee"], fallback_native="e2n_builder_battery")
            nok = 0
            total = a.t + (b.t if prices_set else 0) + (c_.t if rspb_set else 0)
            for o in E.explore("tx_builder::min_fee", mk):
                if o.kind != "return":
                    ob.vc("no panic (%s %s)" % (o.kind, o.msg), o.pc, z3.BoolVal(False)); continue
                if o.value.variant == "Ok":
                    nok += 1
                    ob.vc("min_fee = linear fee of the fake full tx + script fee + tiered reference-script fee", o.pc,
                          z3.And(o.value.fields[0].fields[0].t == total, total <= U64, gs["build"], gs["fake"], gs["lin"], gs["refsize"]))
                    if not prices_set:
                        ob.vc("without ex-unit prices a transaction with Plutus inputs is refused", o.pc, z3.Not(plutus))
                    if not rspb_set:
                        ob.vc("without a reference-script price, reference scripts are refused", o.pc, refsize.t == 0)
                    calls = {t[1]: t[2] for t in o.trace if t[0] == "call"}
                    # the sized transaction is fake_full_tx(builder, build(builder)) and the linear fee is taken on it
                    if [str(x) for x in calls.get("fake_full_tx", [])] != ["lazy_tx_builder@0" if False else str(calls["build"][0]), "lazy_body@0"]:
                        ob.fail("fake_full_tx not applied to (builder, build(builder)): %s" % calls.get("fake_full_tx"))
                    if str(calls.get("fees::min_fee", [None])[0]) != "lazy_fulltx@0":
                        ob.fail("linear fee not computed on the fake full transaction")
                    if rspb_set and str(calls.get("min_ref_script_fee", [None])[0]) != str(refsize.t):
                        ob.fail("reference-script fee not computed on the total reference-script size")
            if nok == 0:
                ob.fail("no Ok path")
            ob.finish(E)

    # ------------------------------------------------------------------ inputs are recorded faithfully (amount, outpoint, ref-script size, witness)
    E = Engine(P)
    size = E.sym_int("ref_script_size", "usize")
    has_size = z3.Bool("has_ref_script")
    def push_stub(E_, c, args):
        E_.trace.append(("push_input", VM.deref(E_, args[1]) if isinstance(args[1], VRef) else args[1]))
        return UNIT
    E.extra_intrinsics[r"TxInputsBuilder::push_input$"] = push_stub
    E.extra_intrinsics[r"Ed25519KeyHashes::add_move$"] = lambda E_, c, args: (E_.trace.append(("vkey", E_.as_u(args[1]))), UNIT)[1]
    E.extra_intrinsics[r"BTreeSet::<std::vec::Vec<u8>>::insert$"] = lambda E_, c, args: (E_.trace.append(("bootstrap", E_.as_u(args[1]))), VBool(True))[1]
    E.extra_intrinsics[r"ByronAddress::to_bytes$"] = lambda E_, c, args: VOpaque("byron_bytes", [], z3.Function("byron_bytes", E_.U, E_.U)(E_.as_u(args[0])))
    def mk():
        sz = opt(size) if E.choose([has_size, z3.Not(has_size)], "size present") == 0 else opt(None)
        return [R(VLazy("self", "TxInputsBuilder"), "self"), R(VLazy("addr", "Address"), "address"), R(VLazy("txin", "TransactionInput"), "input"),
                R(VLazy("amount", "utils::Value"), "amount"), sz]
    ob = Obligation(ctx, "c06_e2_regular_input_recorded_faithfully", "every address kind and credential kind (lazy address); reference-script size: absent or all usize",
                    ["TxInputsBuilder::add_regular_input_extended", "add_key_input_extended", "add_bootstrap_input_extended"], fallback_native="e2n_builder_battery")
    names = P.struct_fields["TxBuilderInput"]
    nok = 0
    kinds = set()
    for o in E.explore("TxInputsBuilder::add_regular_input_extended", mk):
        if o.kind != "return":
            ob.vc("no panic (%s %s)" % (o.kind, o.msg), o.pc, z3.BoolVal(False)); continue
        pushed = [t for t in o.trace if t[0] == "push_input"]
        if o.value.variant != "Ok":
            if pushed:
                ob.fail("a refused input was stored")
            continue
        nok += 1
        E.enter(o)
        if len(pushed) != 1:
            ob.fail("accepted input stored %d times" % len(pushed)); continue
        tup = pushed[0][1]
        tbi = tup.fields[0]
        ob.vc("stored outpoint is the given one", o.pc, E.as_u(tbi.fields[names.index("input")]) == z3.Const("lazy_txin@0", E.U))
        ob.vc("stored amount is the given one", o.pc, E.as_u(tbi.fields[names.index("amount")]) == z3.Const("lazy_amount@0", E.U))
        sz = tbi.fields[names.index("input_ref_script_size")]
        if sz.variant == "Some":
            ob.vc("stored reference-script size is the given one", o.pc, z3.And(has_size, sz.fields[0].t == size.t))
        else:
            ob.vc("reference-script size dropped only when none was given", o.pc, z3.Not(has_size))
        wit = [t for t in o.trace if t[0] in ("vkey", "bootstrap")]
        if len(wit) != 1:
            ob.fail("accepted input recorded %d witness requirements" % len(wit))
        kinds.add(wit[0][0] if wit else "?")
    if nok < 4 or kinds != {"vkey", "bootstrap"}:
        ob.fail("expected Ok paths for base, enterprise, pointer and Byron addresses, saw %d (%s)" % (nok, kinds))
    ob.finish(E)

    # ------------------------------------------------------------------ total reference-script size sums every source
    E = Engine(P, max_loop=6)
    srcs = ["inputs_inline", "inputs_witness", "explicit_ref", "mint", "withdrawals", "certs", "voting_procedures", "voting_proposals"]
    sizes = {s: E.sym_int("size_" + s, "usize") for s in srcs}
    for s in srcs:
        E.assume(sizes[s].t < (1 << 40))
    def item(s):
        return VStruct("()", [R(VLazy("refin_" + s, "TransactionInput")), sizes[s]])
    def src_stub(s):
        return lambda E_, c, args: VSeq([item(s)], "iter")
    E.extra_intrinsics[r"TxInputsBuilder::get_inputs_with_ref_script_size$"] = src_stub("inputs_inline")
    E.extra_intrinsics[r"TxInputsBuilder::get_script_ref_inputs_with_size$"] = src_stub("inputs_witness")
    E.extra_intrinsics[r"MintBuilder::get_script_ref_inputs_with_size$"] = src_stub("mint")
    E.extra_intrinsics[r"WithdrawalsBuilder::get_script_ref_inputs_with_size$"] = src_stub("withdrawals")
    E.extra_intrinsics[r"CertificatesBuilder::get_script_ref_inputs_with_size$"] = src_stub("certs")
    E.extra_intrinsics[r"VotingBuilder::get_script_ref_inputs_with_size$"] = src_stub("voting_procedures")
    E.extra_intrinsics[r"VotingProposalBuilder::get_script_ref_inputs_with_size$"] = src_stub("voting_proposals")
    def add_to_map(E_, c, args):
        it = args[0]
        m = args[1]
        mv = E_.read_ref(m)
        mv.items.append(VStruct("()", [it.fields[0], it.fields[1]]))
        return VEnum("Result", "Ok", [UNIT])
    E.extra_intrinsics[r"add_to_map$"] = add_to_map
    E.extra_intrinsics[r"HashMap::<.*>::new$"] = lambda E_, c, args: VSeq([], "map")
    present = {s: z3.Bool("has_" + s) for s in ("mint", "withdrawals", "certs", "voting_procedures", "voting_proposals")}
    def mk():
        def o(s, ty):
            return opt(VLazy(s + "_b", ty)) if E.choose([present[s], z3.Not(present[s])], s) == 0 else opt(None)
        tb = E.mk_struct("TransactionBuilder", inputs=VLazy("inputs", "TxInputsBuilder"),
                         reference_inputs=VSeq([VStruct("()", [VLazy("refin_explicit_ref", "TransactionInput"), sizes["explicit_ref"]])], "map"),
                         mint=o("mint", "MintBuilder"), withdrawals=o("withdrawals", "WithdrawalsBuilder"), certs=o("certs", "CertificatesBuilder"),
                         voting_procedures=o("voting_procedures", "VotingBuilder"), voting_proposals=o("voting_proposals", "VotingProposalBuilder"))
        return [R(tb, "self")]
    ob = Obligation(ctx, "c06_e2_total_ref_script_size_sums_all_sources", "one distinct reference input per source (8 sources), each size < 2^40; optional sub-builders present/absent",
                    ["TransactionBuilder::get_total_ref_scripts_size"], fallback_native="e2n_builder_battery")
    nok = 0
    for o in E.explore("TransactionBuilder::get_total_ref_scripts_size", mk):
        if o.kind != "return":
            ob.vc("no panic (%s %s)" % (o.kind, o.msg), o.pc, z3.BoolVal(False)); continue
        if o.value.variant == "Ok":
            nok += 1
            exp = sizes["inputs_inline"].t + sizes["inputs_witness"].t + sizes["explicit_ref"].t + sum([z3.If(present[s], sizes[s].t, 0) for s in present], z3.IntVal(0))
            ob.vc("total reference-script size = sum over inline-script inputs, script-witness references, explicit reference inputs and every sub-builder", o.pc, o.value.fields[0].t == exp)
    if nok == 0:
        ob.fail("no Ok path")
    ob.finish(E)
    input_ref_script_sizes(ctx)


def input_ref_script_sizes(ctx):
    """the tiered reference-script fee is charged on the size of EVERY script a spent input takes from a reference input:
    TxInputsBuilder::get_script_ref_inputs_with_size yields one (reference input, declared size) pair per witness that takes its
    script by reference - also when several inputs are locked by the same script hash and use different references."""
    import itertools
    P = ctx.P
    ob = Obligation(ctx, "c06_e2_input_ref_script_sizes_per_witness", "1-2 script hashes x 1-2 inputs each; witness of each input: native inline / native by reference / Plutus script inline or by reference / absent; sizes arbitrary",
                    ["TxInputsBuilder::get_script_ref_inputs_with_size", "ScriptWitnessType::get_script_ref_input_with_size"], fallback_native="e2n_c06_ref_script_sizes")
    agg = Engine(P)
    KINDS = ["NI", "NR", "Pi", "Pr", "A"]
    nok = 0
    for layout in [(1,), (2,), (1, 1), (2, 1)]:
        n = sum(layout)
        for pat in itertools.product(KINDS, repeat=n):
            if n == 3 and (pat.count("A") + pat.count("NI") + pat.count("Pi")) > 1:
                continue
            E = Engine(P, max_loop=2 * n + 6)
            E.U = agg.U
            sizes = [E.sym_int("size%d" % j, "usize") for j in range(n)]
            want = []
            def mk(layout=layout, pat=pat, E=E, want=want, sizes=sizes):
                del want[:]
                groups, j = [], 0
                for h, cnt in enumerate(layout):
                    inner = []
                    for _ in range(cnt):
                        k = pat[j]
                        if k == "A":
                            w = opt(None)
                        elif k == "NI":
                            w = opt(VEnum("ScriptWitnessType", "NativeScriptWitness", [VEnum("NativeScriptSourceEnum", "NativeScript", [VLazy("ns%d" % j, "NativeScript"), VLazy("sg%d" % j, "Option<Ed25519KeyHashes>")])]))
                        elif k == "NR":
                            w = opt(VEnum("ScriptWitnessType", "NativeScriptWitness", [VEnum("NativeScriptSourceEnum", "RefInput", [VLazy("ref%d" % j, "TransactionInput"), VLazy("nh%d" % j, "ScriptHash"),
                                                                                                                                  VLazy("sg%d" % j, "Option<Ed25519KeyHashes>"), VInt(sizes[j].t, "usize")])]))
                            want.append(("ref%d" % j, sizes[j].t))
                        else:
                            script = VEnum("PlutusScriptSourceEnum", "Script", [VLazy("ps%d" % j, "PlutusScript"), VLazy("psg%d" % j, "Option<Ed25519KeyHashes>")]) if k == "Pi" else \
                                VEnum("PlutusScriptSourceEnum", "RefInput", [E.mk_struct("PlutusScriptRef", input_ref=VLazy("ref%d" % j, "TransactionInput"), script_size=VInt(sizes[j].t, "usize")), VLazy("psg%d" % j, "Option<Ed25519KeyHashes>")])
                            if k == "Pr":
                                want.append(("ref%d" % j, sizes[j].t))
                            w = opt(VEnum("ScriptWitnessType", "PlutusScriptWitness", [E.mk_struct("PlutusWitness", script=script, datum=VLazy("d%d" % j, "Option<DatumSourceEnum>"), redeemer=VLazy("red%d" % j, "Redeemer"))]))
                        inner.append(VStruct("()", [VLazy("txin%d" % j, "TransactionInput"), w]))
                        j += 1
                    groups.append(VStruct("()", [VLazy("sh%d" % h, "ScriptHash"), VSeq(inner, "map")]))
                rw = E.mk_struct("InputsRequiredWitness", scripts=VSeq(groups, "map"))
                return [R(E.mk_struct("TxInputsBuilder", required_witnesses=rw), "self")]
            try:
                outs = E.explore("TxInputsBuilder::get_script_ref_inputs_with_size", mk, max_paths=50)
            except Unsupported as e:
                ob.fail("layout %s witnesses %s: cannot be executed (%s)" % (layout, "/".join(pat), str(e)[:200])); continue
            for o in outs:
                if o.kind != "return":
                    ob.vc("no panic (%s %s)" % (o.kind, o.msg[:60]), o.pc, z3.BoolVal(False)); continue
                it = VM.deref(E, o.value)
                if not isinstance(it, VSeq):
                    ob.fail("the result is not a sequence the engine can follow: %r" % (it,)); continue
                nok += 1
                E.enter(o)
                got = []
                for x in it.items[it.pos:]:
                    x = VM.deref(E, x)
                    r_, s_ = VM.deref(E, x.fields[0]), VM.deref(E, x.fields[1])
                    got.append((r_.path if isinstance(r_, VLazy) else repr(r_), s_.t))
                if sorted(g[0] for g in got) != sorted(w[0] for w in want):
                    ob.violation("layout %s witnesses %s: scripts are taken from the reference inputs %s, sizes are reported for %s" % (layout, "/".join(pat), sorted(w[0] for w in want), sorted(g[0] for g in got))); continue
                wd = dict(want)
                if got:
                    ob.vc("layout %s witnesses %s: every reported size is the one declared for that reference" % (layout, "/".join(pat)), o.pc, z3.And([s_ == wd[r_] for r_, s_ in got]))
            agg.stats["paths"] += E.stats["paths"]; agg.stats["feasibility_queries"] += E.stats["feasibility_queries"]; agg.stats["functions"] |= E.stats["functions"]
    if nok < 20:
        ob.fail("only %d witness patterns executed" % nok)
    ob.cross_every = 8
    ob.finish(agg, lambda m, info=None: ("e2n_c06_ref_script_sizes", []))
