"""C05: built transactions conserve value exactly — E2 obligations on the release gate and the accounting getters.

End-to-end balancing is out of reach (DESIGN 0.1). What is decided here, each from the MIR of the named function and
from an ARBITRARY builder state (lazy initialisation), is the chain
   build_tx Ok  =>  validate_balance(self) Ok  =>  total_input == total_output + fee   (lovelace and an arbitrary asset)
   total_input  ==  explicit inputs + withdrawals + refunds + minted,   total_output == outputs + deposits + burned + donation
   the body released is build(self) of the same unmodified self.
Any balancing bug (change splitting, fee folding, coin selection) then makes build_tx fail instead of releasing an
unbalanced transaction, which the property permits.
"""
import z3
from engine import *
from prove import Obligation, mval, le_bytes
import valuemodel as VM

U64 = (1 << 64) - 1


def R(v, name="tmp"):
    return VRef(Cell(v, name))


class SymValue:
    """spec-owned symbolic Value: coin, optional bundle (q of the fixed asset, other assets)"""
    def __init__(self, E, prefix):
        self.coin = E.sym_int(prefix + "_coin", "u64").t
        self.has = z3.Bool(prefix + "_has_assets")
        self.q = E.sym_int(prefix + "_q", "u64").t
        self.other = z3.Bool(prefix + "_other")
        self.rest = z3.Const(prefix + "_rest", E.U)
        self.E = E
        E.assume(z3.Implies(z3.Not(self.has), z3.And(self.q == 0, z3.Not(self.other))))
    def build(self):
        i = self.E.choose([self.has, z3.Not(self.has)], "assets present")
        return VM.mk_value(self.coin, (self.q, self.other, self.rest) if i == 0 else None)
    def qty(self):
        return self.q


def stub_result(E, good, build):
    """stub returning Ok(build()) when bool symbol `good` holds, else Err"""
    def f(E_, c, args):
        i = E_.choose([good, z3.Not(good)], "stub " + c)
        return VEnum("Result", "Ok", [build()]) if i == 0 else VEnum("Result", "Err", [VOpaque("err:" + c)])
    return f


def out_value(o):
    """parts of a Result<Value,_> outcome: ('Ok', coin, q, other) | ('Err',) | (kind,)"""
    if o.kind != "return":
        return (o.kind,)
    v = o.value
    if v.variant != "Ok":
        return ("Err",)
    return ("Ok", v.fields[0])


def obligations(ctx):
    P = ctx.P
    # ------------------------------------------------------------------ O1: gate present in build_tx
    E = Engine(P, uninterpreted=[r"TransactionBuilder::validate_fee$", r"TransactionBuilder::validate_balance$",
                                 r"TransactionBuilder::validate_inputs_intersection$", r"TransactionBuilder::build$",
                                 r"TransactionBuilder::has_plutus_inputs$", r"TransactionBuilder::get_witness_set$"])
    ob = Obligation(ctx, "c05_e2_build_tx_gate", "arbitrary builder state (lazily initialised); callees uninterpreted",
                    ["TransactionBuilder::build_tx", "TransactionBuilder::build_tx_unsafe"], fallback_native="e2n_builder_battery")
    selfcell = {}
    def mk():
        lz = VLazy("self", "TransactionBuilder")
        selfcell["v"] = lz
        return [R(lz, "self")]
    nok = 0
    for o in E.explore("TransactionBuilder::build_tx", mk):
        if o.kind != "return":
            ob.vc("no panic in build_tx (%s %s)" % (o.kind, o.msg), o.pc, z3.BoolVal(False))
            continue
        if o.value.variant != "Ok":
            continue
        nok += 1
        E.enter(o)
        self_u = z3.Const("lazy_self@0", E.U)
        gate = z3.And(E.uf_good_term("TransactionBuilder::validate_balance", [self_u]),
                      E.uf_good_term("TransactionBuilder::validate_fee", [self_u]),
                      E.uf_good_term("TransactionBuilder::build", [self_u]))
        ob.vc("build_tx Ok => validate_balance, validate_fee and build returned Ok on the unmodified builder", o.pc, gate)
        tx = o.value.fields[0]
        names = P.struct_fields["Transaction"]
        body = tx.fields[names.index("body")]
        ob.vc("released body is build(self)'s body", o.pc, E.as_u(body) == E.uf_ident_term("TransactionBuilder::build#ok", [self_u]))
        ws = tx.fields[names.index("witness_set")]
        ob.vc("released witness set is get_witness_set(self)", o.pc, E.as_u(ws) == E.uf_ident_term("TransactionBuilder::get_witness_set", [self_u]))
    if nok == 0:
        ob.fail("no Ok path through build_tx")
    ob.finish(E)

    # ------------------------------------------------------------------ O2: gate exact (validate_balance)
    E = Engine(P, opaque=[r"::to_json$"])
    VM.install(E)
    tin, tout = SymValue(E, "tin"), SymValue(E, "tout")
    g_in, g_out, fee_set = z3.Bool("tin_ok"), z3.Bool("tout_ok"), z3.Bool("fee_set")
    fee = E.sym_int("fee", "u64")
    E.extra_intrinsics[r"TransactionBuilder::get_total_input$"] = stub_result(E, g_in, tin.build)
    E.extra_intrinsics[r"TransactionBuilder::get_total_output$"] = stub_result(E, g_out, tout.build)
    def fee_stub(E_, c, args):
        i = E_.choose([fee_set, z3.Not(fee_set)], "fee set")
        return VEnum("Option", "Some", [VM.bn(fee)]) if i == 0 else VEnum("Option", "None", [])
    E.extra_intrinsics[r"TransactionBuilder::get_fee_if_set$"] = fee_stub
    ob = Obligation(ctx, "c05_e2_validate_balance_exact", "total input/output: lovelace all u64, one arbitrary asset quantity all u64, other assets abstract; fee: all u64 or unset",
                    ["TransactionBuilder::validate_balance", "Value::eq (summary)"], fallback_native="e2n_builder_battery")
    nok = 0
    for o in E.explore("TransactionBuilder::validate_balance", lambda: [R(VLazy("self", "TransactionBuilder"), "self")]):
        if o.kind != "return":
            ob.vc("no panic in validate_balance (%s %s)" % (o.kind, o.msg), o.pc, z3.BoolVal(False))
            continue
        f = z3.If(fee_set, fee.t, 0)
        balanced = z3.And(g_in, g_out, tin.coin == tout.coin + f, tin.q == tout.q)
        if o.value.variant == "Ok":
            nok += 1
            ob.vc("validate_balance Ok => inputs == outputs + fee (lovelace and the arbitrary asset)", o.pc, balanced)
        else:
            ob.vc("validate_balance Err => not (balanced in lovelace, the asset and every other asset)", o.pc,
                  z3.Not(z3.And(balanced, z3.Not(tin.other), z3.Not(tout.other))))
    if nok == 0:
        ob.fail("no Ok path through validate_balance")
    def nat_vb(m):
        return "e2n_c05_gate", [le_bytes(mval(m, tin.coin), 8), le_bytes(mval(m, tout.coin), 8), le_bytes(mval(m, fee.t), 8), le_bytes(mval(m, tin.q), 8), le_bytes(mval(m, tout.q), 8)]
    ob.finish(E, nat_vb)

    # ------------------------------------------------------------------ O3: total input / total output are the ledger sums
    for which in ("input", "output"):
        E = Engine(P)
        VM.install(E)
        a, b, mint, burn = SymValue(E, "a"), SymValue(E, "b"), SymValue(E, "mint"), SymValue(E, "burn")
        ga, gb, gd = z3.Bool("a_ok"), z3.Bool("b_ok"), z3.Bool("dep_ok")
        dep, don = E.sym_int("deposit", "u64"), E.sym_int("donation", "u64")
        has_don = z3.Bool("has_donation")
        E.assume(mint.coin == 0); E.assume(burn.coin == 0)
        E.extra_intrinsics[r"TransactionBuilder::get_mint_as_values$"] = lambda E_, c, args: VStruct("()", [mint.build(), burn.build()])
        if which == "input":
            E.extra_intrinsics[r"TransactionBuilder::get_explicit_input$"] = stub_result(E, ga, a.build)
            E.extra_intrinsics[r"TransactionBuilder::get_implicit_input$"] = stub_result(E, gb, b.build)
            terms_c, terms_q = [a.coin, b.coin], [a.q, b.q, mint.q]
        else:
            E.extra_intrinsics[r"TransactionBuilder::get_explicit_output$"] = stub_result(E, ga, a.build)
            E.extra_intrinsics[r"TransactionBuilder::get_deposit$"] = stub_result(E, gd, lambda: VM.bn(dep))
            terms_c, terms_q = [a.coin, dep.t, z3.If(has_don, don.t, 0)], [a.q, burn.q]
        def mk():
            i = E.choose([has_don, z3.Not(has_don)], "donation present")
            dv = VEnum("Option", "Some", [VM.bn(don)]) if i == 0 else VEnum("Option", "None", [])
            return [R(E.mk_struct("TransactionBuilder", donation=dv), "self")]
        ob = Obligation(ctx, "c05_e2_total_%s_is_ledger_sum" % which, "components: lovelace all u64, one arbitrary asset quantity all u64; mint/burn bundles abstract",
                        ["TransactionBuilder::get_total_%s" % which, "Value::checked_add (summary)"], fallback_native="e2n_builder_battery")
        nok = 0
        for o in E.explore("TransactionBuilder::get_total_%s" % which, mk):
            r = out_value(o)
            csum, qsum = sum(terms_c, z3.IntVal(0)), sum(terms_q, z3.IntVal(0))
            if r[0] == "Ok":
                nok += 1
                E.enter(o)
                c, ma = VM.value_parts(E, r[1])
                q = ma[0] if ma is not None else z3.IntVal(0)
                ob.vc("get_total_%s: lovelace is the exact sum of its components" % which, o.pc, c == csum)
                ob.vc("get_total_%s: the arbitrary asset's quantity is the exact sum of its components" % which, o.pc, q == qsum)
            elif r[0] == "Err":
                stubs_ok = z3.And(ga, gb) if which == "input" else z3.And(ga, gd)
                ob.vc("get_total_%s: Err only if a component errs or an exact sum exceeds u64" % which, o.pc,
                      z3.Or(z3.Not(stubs_ok), csum > U64, qsum > U64, z3.Or(a.other, b.other, mint.other, burn.other)))
            else:
                ob.vc("no panic in get_total_%s (%s %s)" % (which, o.kind, o.msg), o.pc, z3.BoolVal(False))
        if nok == 0:
            ob.fail("no Ok path")
        ob.finish(E)

    # ------------------------------------------------------------------ O4: explicit input / output are sums over the stored items
    for which, n in (("input", 2), ("output", 2), ("input", 3) if ctx.tier == "thorough" else ("input", 1), ("output", 3) if ctx.tier == "thorough" else ("output", 1)):
        E = Engine(P, max_loop=n + 3)
        VM.install(E)
        vals = [SymValue(E, "item%d" % j) for j in range(n)]
        def mk():
            if which == "input":
                items = [VStruct("()", [VLazy("txin%d" % j, "TransactionInput"),
                                        VStruct("()", [E.mk_struct("TxBuilderInput", amount=v.build()), VLazy("sh%d" % j, "std::option::Option<ScriptHash>")])]) for j, v in enumerate(vals)]
                return [R(E.mk_struct("TransactionBuilder", inputs=E.mk_struct("TxInputsBuilder", inputs=VSeq(items, "map"))), "self")]
            items = [E.mk_struct("TransactionOutput", amount=v.build()) for v in vals]
            return [R(E.mk_struct("TransactionBuilder", outputs=VStruct("TransactionOutputs", [VSeq(items, "vec")])), "self")]
        ob = Obligation(ctx, "c05_e2_explicit_%s_sums_%d_items" % (which, n), "%d stored %ss; each amount: lovelace all u64, arbitrary asset quantity all u64" % (n, which),
                        ["TransactionBuilder::get_explicit_%s" % which, "Value::checked_add (summary)"], fallback_native="e2n_builder_battery")
        nok = 0
        for o in E.explore("TransactionBuilder::get_explicit_%s" % which, mk):
            r = out_value(o)
            csum, qsum = sum([v.coin for v in vals], z3.IntVal(0)), sum([v.q for v in vals], z3.IntVal(0))
            if r[0] == "Ok":
                nok += 1
                E.enter(o)
                c, ma = VM.value_parts(E, r[1])
                q = ma[0] if ma is not None else z3.IntVal(0)
                ob.vc("explicit %s: lovelace sum exact" % which, o.pc, c == csum)
                ob.vc("explicit %s: asset sum exact" % which, o.pc, q == qsum)
            elif r[0] == "Err":
                ob.vc("explicit %s: Err only on overflow" % which, o.pc, z3.Or(csum > U64, qsum > U64, z3.Or([v.other for v in vals])))
            else:
                ob.vc("no panic (%s %s)" % (o.kind, o.msg), o.pc, z3.BoolVal(False))
        if nok == 0:
            ob.fail("no Ok path")
        ob.finish(E)

    # ------------------------------------------------------------------ O5: mint split (positive part is input, negative part is output)
    E = Engine(P, uninterpreted=[r"MintBuilder::build_unchecked$", r"Mint::as_positive_multiasset$", r"Mint::as_negative_multiasset$"])
    VM.install(E)
    ob = Obligation(ctx, "c05_e2_mint_split", "arbitrary mint builder state", ["TransactionBuilder::get_mint_as_values"], fallback_native="e2n_builder_battery")
    has_mint = z3.Bool("has_mint")
    def mk():
        i = E.choose([has_mint, z3.Not(has_mint)], "mint present")
        mv = VEnum("Option", "Some", [VLazy("mintb", "MintBuilder")]) if i == 0 else VEnum("Option", "None", [])
        return [R(E.mk_struct("TransactionBuilder", mint=mv), "self")]
    for o in E.explore("TransactionBuilder::get_mint_as_values", mk):
        if o.kind != "return":
            ob.vc("no panic (%s %s)" % (o.kind, o.msg), o.pc, z3.BoolVal(False))
            continue
        mintv, burnv = o.value.fields
        E.enter(o)
        mu = E.uf_ident_term("MintBuilder::build_unchecked", [z3.Const("lazy_mintb@0", E.U)])
        for nm, v, fn in (("minted", mintv, "Mint::as_positive_multiasset"), ("burned", burnv, "Mint::as_negative_multiasset")):
            c, ma = VM.value_parts(E, v)
            ob.vc("%s value carries no lovelace" % nm, o.pc, c == 0)
            if ma is not None:
                opt = v.fields[1]
                ob.vc("%s bundle is %s(build_unchecked(mint))" % (nm, fn), o.pc, E.as_u(opt.fields[0]) == E.uf_ident_term(fn, [mu]))
            else:
                x = z3.Const("x", E.U)
                nonempty = z3.ForAll([x], z3.Function("container_len", E.U, z3.IntSort())(x) > 0)
                ob.vc("%s bundle absent only without a mint builder or when it is empty" % nm, list(o.pc) + [nonempty], z3.Not(has_mint))
    ob.finish(E)
    fee_alignment_contracts(ctx)
    change_step(ctx)


# ---------------------------------------------------------------------- the balancing step itself
MAXP = 30000


def change_step(ctx, record=("c05", "c06"), rounds=None):
    """ONE call of add_change_if_needed_with_optional_script_and_datum from an arbitrary builder state:
         Ok(_)  =>  total_input == total_output(before) + outputs added by the call + fee stored by the call
       for lovelace and for an arbitrary native asset.  Together with the accounting obligations above
       (total_output == outputs + deposits + burn + donation) this is the preservation-of-value rule for the body
       `build()` assembles from the same state — also when the caller never passes the build_tx gate.
       Environment (every stub is part of the claim): get_total_input / get_total_output return arbitrary values or
       fail; the size-dependent free function min_fee(&builder) returns an arbitrary coin or fails (each call an
       independent value); MinOutputAdaCalculator results are arbitrary; pack_nfts_for_change returns 0..2 arbitrary
       bundles or fails; add_output admits (appending to the output list) or refuses.  Everything else — the fee
       alignment (TransactionBuilder::min_fee, fee_for_output, get_new_fee, set_final_fee), the change arithmetic,
       burn_extra, the comparison of totals — is executed from MIR; Value arithmetic through the valuemodel summaries."""
    P = ctx.P
    TB = P.struct_fields["TransactionBuilder"]
    thorough = ctx.tier == "thorough"
    ROUNDS = rounds or (2 if thorough else 1)
    NODATUM = not thorough
    E = Engine(P, max_loop=ROUNDS, opaque=[r"::to_json$"])
    def may_fail(E_, tag):
        """environment failure of a stubbed callee: the FIRST call of each kind on a path may fail (later calls of the same
        kind on that path succeed — their failure handling is the same code, reached on the paths where they come first)"""
        if any(t[0] == "called" and t[1] == tag for t in E_.trace):
            return False
        E_.trace.append(("called", tag))
        good = E_.fresh(tag + "_ok", "bool")
        return E_.choose([good, z3.Not(good)], tag) == 1
    VM.install(E)
    tin, tout = SymValue(E, "tin"), SymValue(E, "tout")
    g_in, g_out = z3.Bool("tin_ok"), z3.Bool("tout_ok")
    E.extra_intrinsics[r"TransactionBuilder::get_total_input$"] = stub_result(E, g_in, tin.build)
    E.extra_intrinsics[r"TransactionBuilder::get_total_output$"] = stub_result(E, g_out, tout.build)
    def fresh_coin_result(tag):
        def f(E_, c, args):
            if may_fail(E_, tag):
                return VEnum("Result", "Err", [VOpaque("err:" + tag)])
            v = E_.fresh(tag)
            E_.pc.append(z3.And(v >= 0, v <= U64))
            return VEnum("Result", "Ok", [VM.bn(v)])
        return f
    a_coef = E.sym_int("fee_coefficient", "u64")
    E.assume(a_coef.t <= (1 << 20))
    def ah(c):
        """a * (length of the CBOR head of c)"""
        a = a_coef.t
        return z3.If(c < 24, a, z3.If(c < 256, 2 * a, z3.If(c < 65536, 3 * a, z3.If(c < (1 << 32), 5 * a, 9 * a))))
    # fee alignment contracts (established from MIR by c05_e2_fee_alignment_contracts below):
    #   TransactionBuilder::min_fee   : Exactly(x) => x ; NotLess(n) => some fee >= n ; Unspecified => any fee
    #   TransactionBuilder::fee_for_output : Exactly(_) => 0 ; otherwise any increase >= 0
    def fee_request_of(E_, tb):
        fr = VM.deref(E_, VM.deref(E_, tb).fields[TB.index("fee_request")])
        if isinstance(fr, VLazy):
            fr = E_.force_enum(fr)
        return fr
    def coin_of(E_, v):
        v = VM.deref(E_, v)
        return v.fields[0].t if isinstance(v, VStruct) else E_.nav(v, [("field", 0, "u64")]).t
    def aligned(tag, exactly):
        def f(E_, c, args):
            if may_fail(E_, tag):
                return VEnum("Result", "Err", [VOpaque("err:" + tag)])
            fr = fee_request_of(E_, args[0])
            v = E_.fresh(tag)
            E_.pc.append(z3.And(v >= 0, v <= U64))
            # size meaning (used by the sufficiency obligation, fee request Unspecified): a linear fee  a * size + b
            r = E_.fresh(tag + "_rest")
            E_.pc.append(r >= 0)
            if tag == "min_fee":
                E_.trace.append(("raw0", r))                       # r = a * (size without the fee field) + b; the fee field is assumed 9 bytes wide
                if fr.variant == "Unspecified":
                    E_.pc.append(v == r + 9 * a_coef.t)
            else:
                oc, _ = VM.value_parts(E_, VM.deref(E_, args[1]).fields[P.struct_fields["TransactionOutput"].index("amount")])
                E_.trace.append(("ffo", r, oc))                    # r = a * (size of the output without its coin [+ array header growth])
                if fr.variant == "Unspecified":
                    E_.pc.append(v == r + ah(oc))
            if fr.variant == "Exactly":
                E_.pc.append(v == exactly(E_, fr))
            elif fr.variant == "NotLess" and tag == "min_fee":
                E_.pc.append(v >= coin_of(E_, fr.fields[0]))
            return VEnum("Result", "Ok", [VM.bn(v)])
        return f
    E.extra_intrinsics[r"TransactionBuilder::min_fee$"] = aligned("min_fee", lambda E_, fr: coin_of(E_, fr.fields[0]))
    E.extra_intrinsics[r"TransactionBuilder::fee_for_output$"] = aligned("fee_for_output", lambda E_, fr: z3.IntVal(0))
    E.extra_intrinsics[r"MinOutputAdaCalculator::calculate_ada$"] = fresh_coin_result("min_ada")
    E.extra_intrinsics[r"MinOutputAdaCalculator::new_empty$"] = lambda E_, c, a: VEnum("Result", "Ok", [VOpaque("calc")])
    E.extra_intrinsics[r"MinOutputAdaCalculator::set_\w+$"] = lambda E_, c, a: UNIT
    E.extra_intrinsics[r"TransactionBuilderConfig::utxo_cost$"] = lambda E_, c, a: VOpaque("data_cost")
    def pack(E_, c, args):
        if may_fail(E_, "pack"):
            return VEnum("Result", "Err", [VOpaque("err:pack")])
        k = E_.fresh("pack_n")
        n = E_.choose([k == 0, k == 1, k == 2], "bundles packed")
        items = []
        for j in range(n):
            q = E_.fresh("packed_q"); o = E_.fresh("packed_other", "bool")
            E_.pc.append(z3.And(q >= 0, q <= U64))
            items.append(VM.mk_ma(q, o, z3.FreshConst(E_.U, "packed_rest")))
        return VEnum("Result", "Ok", [VSeq(items, "vec")])
    E.extra_intrinsics[r"(^|::)pack_nfts_for_change$"] = pack
    def normalise(E_, c, args):
        # dropping entries with quantity 0 is the identity in the pointwise abstraction (a quantity of 0 and an absent entry are the
        # same point); what the helper does to concrete bundles is c03_e2_change_bundles_have_no_zero_or_empty_entries
        E_.trace.append(("normalised", len([t for t in E_.trace if t[0] == "called" and t[1] == "pack"])))
        return VM.deref(E_, args[0])
    E.extra_intrinsics[r"(^|::)without_zero_assets$"] = normalise
    def shortage(E_, c, args):
        # over-approximated: ANY verdict (none / some shortage / failure) whatever the totals are — the balance may not depend on it
        v = E_.fresh("shortage_verdict")
        i = E_.choose([v == 0, v == 1, v == 2], "shortage verdict")
        if i == 0:
            return VEnum("Result", "Ok", [VEnum("Option", "None", [])])
        if i == 1:
            return VEnum("Result", "Ok", [VEnum("Option", "Some", [VOpaque("shortage")])])
        return VEnum("Result", "Err", [VOpaque("err:shortage")])
    E.extra_intrinsics[r"(^|::)get_input_shortage$"] = shortage
    def add_output(E_, c, args):
        tb = VM.deref(E_, args[0])
        if may_fail(E_, "add_output"):
            return VEnum("Result", "Err", [VOpaque("err:add_output")])
        outs = VM.deref(E_, tb.fields[TB.index("outputs")])
        VM.deref(E_, outs.fields[0]).items.append(clone(VM.deref(E_, args[1])))
        E_.trace.append(("add",))
        E_.trace.append(("admitted", len(VM.deref(E_, outs.fields[0]).items) - 1, VM.value_parts(E_, VM.deref(E_, args[1]).fields[P.struct_fields["TransactionOutput"].index("amount")])))
        return VEnum("Result", "Ok", [UNIT])
    E.extra_intrinsics[r"TransactionBuilder::add_output$"] = add_output
    ppc, dnb = z3.Bool("prefer_pure_change"), z3.Bool("do_not_burn_extra_change")
    frk, frc = z3.Int("fee_request_kind"), E.sym_int("fee_request_coin", "u64")
    prev = SymValue(E, "prev")          # one output already in the builder (part of total_output): leftovers may be folded into it
    E.assume(prev.has)                  # a (possibly empty) bundle is present: no structural fork
    def prev_out():
        return E.mk_struct("TransactionOutput", address=VLazy("prev_addr", "Address"), amount=VM.mk_value(prev.coin, (prev.q, prev.other, prev.rest)))
    def mk():
        cfg = E.mk_struct("TransactionBuilderConfig", prefer_pure_change=VBool(ppc), do_not_burn_extra_change=VBool(dnb))
        k = E.choose([frk == 0, frk == 1, frk == 2], "fee request")
        fr = VEnum("TxBuilderFee", ["Unspecified", "NotLess", "Exactly"][k], [] if k == 0 else [VM.bn(frc)])
        tb = E.mk_struct("TransactionBuilder", config=cfg, outputs=VStruct("TransactionOutputs", [VSeq([prev_out()], "vec")]), fee=VLazy("old_fee", "Option<BigNum>"), fee_request=fr)
        if NODATUM:
            return [R(tb, "self"), R(VLazy("change_addr", "Address"), "address"), VEnum("Option", "None", []), VEnum("Option", "None", [])]
        return [R(tb, "self"), R(VLazy("change_addr", "Address"), "address"), VLazy("datum", "Option<DataOption>"), VLazy("script_ref", "Option<ScriptRef>")]
    ob = Obligation(ctx, "c05_e2_change_step_balances", "one call from an arbitrary builder state: totals lovelace all u64 + one arbitrary asset all u64 (others abstract); fee request Unspecified / NotLess / Exactly "
                    "with any coin; raw size fees, min-ADA values, packed bundles (0..2 per round, <= 3 rounds), output admission: arbitrary; prefer_pure_change / do_not_burn_extra_change: both",
                    ["TransactionBuilder::add_change_if_needed_with_optional_script_and_datum", "burn_extra", "has_assets", "TransactionBuilder::set_final_fee", "get_input_shortage", "<Value as PartialOrd>::partial_cmp", "Value::checked_add / checked_sub (summaries)"],
                    fallback_native="e2n_c05_change_step")
    ob2 = Obligation(ctx, "c06_e2_change_step_honours_fee_request", "as c05_e2_change_step_balances", ["TransactionBuilder::add_change_if_needed_with_optional_script_and_datum", "TransactionBuilder::set_final_fee", "burn_extra"],
                     fallback_native="e2n_c05_change_step")
    ob3 = Obligation(ctx, "c06_e2_change_step_fee_covers_final_sizes", "as c05_e2_change_step_balances, fee request Unspecified; linear fee a * size + b with a: 0..2^20, b arbitrary; every coin width; "
                     "size of an output = (part independent of the coin) + CBOR head of the coin", ["TransactionBuilder::add_change_if_needed_with_optional_script_and_datum", "burn_extra", "TransactionBuilder::set_final_fee"],
                     fallback_native="e2n_c06_change_fee_widths")
    ob4 = Obligation(ctx, "c07_e2_change_outputs_pass_admission", "as c05_e2_change_step_balances: every output the balancing step creates", ["TransactionBuilder::add_change_if_needed_with_optional_script_and_datum"],
                     fallback_native="e2n_c07_change_min_ada")
    ob5 = Obligation(ctx, "c03_e2_change_is_packed_from_the_normalised_leftover", "as c05_e2_change_step_balances", ["TransactionBuilder::add_change_if_needed_with_optional_script_and_datum", "without_zero_assets"],
                     fallback_native="e2n_c03_change_zero_quantities")
    seen, panics = {}, {}
    for o in E.explore("TransactionBuilder::add_change_if_needed_with_optional_script_and_datum", mk, max_paths=MAXP):
        if o.kind == "bound":
            continue
        if o.kind != "return":
            panics[o.msg[:60]] = panics.get(o.msg[:60], 0) + 1      # C05 speaks about reported successes only
            continue
        if o.value.variant != "Ok":
            continue
        E.enter(o)
        tb = VM.deref(E, o.args[0])
        fee = VM.deref(E, tb.fields[TB.index("fee")])
        if isinstance(fee, VLazy):
            fee = E.force_enum(fee)
        if fee.variant != "Some":
            ob.violation("Ok but no fee stored"); continue
        f = VM.deref(E, fee.fields[0])
        f = f.fields[0].t if isinstance(f, VStruct) else E.nav(f, [("field", 0, "u64")]).t
        added = VM.deref(E, VM.deref(E, tb.fields[TB.index("outputs")]).fields[0]).items
        coin_sum, q_sum = -prev.coin, -prev.q            # what the call added = outputs afterwards - the output that was there
        for a in added:
            a = VM.deref(E, a)
            c_, ma_ = VM.value_parts(E, a.fields[P.struct_fields["TransactionOutput"].index("amount")])
            coin_sum = coin_sum + c_
            if ma_ is not None:
                q_sum = q_sum + ma_[0]
        flag = VM.deref(E, o.value.fields[0])
        # C03 (builder clause): asset change is only ever packed from a leftover that went through the zero-dropping normalisation
        if any(t[0] == "called" and t[1] == "pack" for t in o.trace):
            norm = [t for t in o.trace if t[0] == "normalised"]
            if not norm or norm[0][1] != 0:
                ob5.violation("Ok with asset change packed from a leftover that was not normalised first (entries with quantity 0 would be copied into the change outputs)")
            else:
                ob5.vc("asset change packed after normalisation", o.pc, z3.BoolVal(True))
        # C07: every output the step created went through add_output (the admission check: minimum ADA of the real output,
        # max_value_size), holds the assets it was admitted with, and its coin was only raised afterwards
        adm = {t[1]: t[2] for t in o.trace if t[0] == "admitted"}
        for j, a in enumerate(added):
            if j == 0:
                continue
            a = VM.deref(E, a)
            c_, ma_ = VM.value_parts(E, a.fields[P.struct_fields["TransactionOutput"].index("amount")])
            if j not in adm:
                ob4.violation("Ok with %d change outputs: output #%d was put into the transaction without the admission check of add_output (minimum ADA of the real output, max_value_size)" % (len(added) - 1, j))
                continue
            c0, ma0 = adm[j]
            ob4.vc("change output #%d: the coin it finally holds is at least the coin it was admitted with" % j, o.pc, c_ >= c0)
            if (ma_ is None) != (ma0 is None):
                ob4.violation("change output #%d: asset bundle changed after admission" % j)
            elif ma_ is not None:
                ob4.vc("change output #%d: the arbitrary asset's quantity is the admitted one" % j, o.pc, ma_[0] == ma0[0])
        added = added[1:]
        key = (len(added), str(z3.simplify(flag.t)) if isinstance(flag, VBool) else "?")
        seen[key] = seen.get(key, 0) + 1
        ob.vc("Ok with %d change outputs => lovelace: inputs == outputs + change + fee" % len(added), o.pc, tin.coin == tout.coin + coin_sum + f, info=dict(n=len(added)))
        ob.vc("Ok with %d change outputs => arbitrary asset: inputs == outputs + change" % len(added), o.pc, tin.q == tout.q + q_sum, info=dict(n=len(added)))
        # sufficiency in sizes: the fee stored covers the transaction as it finally is — every change output with the coin it
        # ends up holding, the fee field with the width of the fee actually stored, a pre-existing output that received leftovers
        if E.concretize(frk) == 0:
            raw0 = [t[1] for t in o.trace if t[0] == "raw0"]
            pairs, pending = [], None
            for t in o.trace:
                if t[0] == "ffo":
                    pending = t
                elif t[0] == "add":
                    pairs.append(pending); pending = None
            outs_now = VM.deref(E, VM.deref(E, tb.fields[TB.index("outputs")]).fields[0]).items
            amt = P.struct_fields["TransactionOutput"].index("amount")
            finals = [VM.value_parts(E, VM.deref(E, x).fields[amt])[0] for x in outs_now]
            if len(raw0) != 1 or len(pairs) != len(finals) - 1:
                ob3.fail("bookkeeping of the size model lost track (%d raw fees, %d adds, %d outputs)" % (len(raw0), len(pairs), len(finals)))
            elif any(p_ is None for p_ in pairs):
                ob3.violation("Ok with %d change outputs: an output is added for which no fee was computed" % len(added))
            else:
                need = raw0[0] + ah(f) + (ah(finals[0]) - ah(prev.coin)) + z3.Sum([p_[1] + ah(c_) for p_, c_ in zip(pairs, finals[1:])] + [z3.IntVal(0)])
                ob3.vc("Ok with %d change outputs => stored fee >= a * (final size) + b" % len(added), o.pc, f >= need, info=dict(n=len(added)))
        ob2.vc("Ok with %d change outputs => a requested minimum fee is a lower bound of the stored fee, a fixed fee is stored exactly" % len(added), o.pc,
               z3.And(z3.Implies(frk == 1, f >= frc.t), z3.Implies(frk == 2, f == frc.t)), info=dict(n=len(added)))
    ctx.log("  [E2] change step: Ok outcomes by (outputs added, flag): %s; panicking paths (outside C05): %s" % (seen, panics))
    if not any(k[0] == 0 for k in seen) or not any(k[0] == 1 for k in seen) or not any(k[0] >= 2 for k in seen):
        ob.fail("expected Ok outcomes with 0, 1 and >= 2 added outputs, saw %s" % sorted(seen))
    if "c05" in record:
        ob.finish(E)
    if "c06" in record:
        ob2.finish(Engine(P))
        ob3.finish(Engine(P))
    if "c07" in record:
        ob4.finish(E if "c05" not in record else Engine(P))
    if "c03" in record:
        ob5.finish(E if ("c05" not in record and "c07" not in record) else Engine(P))


def fee_alignment_contracts(ctx):
    """the two contracts change_step assumes of the fee helpers, from their MIR; the size-dependent free function
    min_fee(&builder) is an arbitrary coin (each call its own) or a failure, add_output on the scratch copy admits or refuses"""
    P = ctx.P
    TB = P.struct_fields["TransactionBuilder"]
    for fn in ("min_fee", "fee_for_output"):
        E = Engine(P, opaque=[r"::to_json$"])
        VM.install(E)
        frk, frc = z3.Int("fee_request_kind"), E.sym_int("fee_request_coin", "u64")
        def raw(E_, c, args):
            good = E_.fresh("raw_ok", "bool")
            if E_.choose([good, z3.Not(good)], "raw min_fee") == 1:
                return VEnum("Result", "Err", [VOpaque("err:raw")])
            v = E_.fresh("raw_min_fee")
            E_.pc.append(z3.And(v >= 0, v <= U64))
            return VEnum("Result", "Ok", [VM.bn(v)])
        E.extra_intrinsics[r"^(builders::)?tx_builder::min_fee$"] = raw
        def add_output(E_, c, args):
            good = E_.fresh("admitted", "bool")
            return VEnum("Result", "Ok", [UNIT]) if E_.choose([good, z3.Not(good)], "add_output") == 0 else VEnum("Result", "Err", [VOpaque("err:add_output")])
        E.extra_intrinsics[r"TransactionBuilder::add_output$"] = add_output
        E.extra_intrinsics[r"^<TransactionBuilder as Clone>::clone$"] = lambda E_, c, a: clone(VM.deref(E_, a[0]))
        def mk():
            k = E.choose([frk == 0, frk == 1, frk == 2], "fee request")
            fr = VEnum("TxBuilderFee", ["Unspecified", "NotLess", "Exactly"][k], [] if k == 0 else [VM.bn(frc)])
            tb = E.mk_struct("TransactionBuilder", fee=VLazy("old_fee", "Option<BigNum>"), fee_request=fr)
            return [R(tb, "self")] + ([R(VLazy("output", "TransactionOutput"), "output")] if fn == "fee_for_output" else [])
        ob = Obligation(ctx, "c05_e2_fee_alignment_%s" % fn, "arbitrary builder; fee request Unspecified / NotLess(n) / Exactly(x), n and x all u64; raw size fees arbitrary per call",
                        ["TransactionBuilder::%s" % fn, "TxBuilderFee::get_new_fee", "TransactionBuilder::set_final_fee"])
        nok = 0
        for o in E.explore("TransactionBuilder::%s" % fn, mk, max_paths=400):
            if o.kind != "return":
                continue                    # C05 speaks about reported successes
            if o.value.variant != "Ok":
                continue
            nok += 1
            E.enter(o)
            r = VM.deref(E, o.value.fields[0]).fields[0].t
            if fn == "min_fee":
                ob.vc("Exactly(x) => x; NotLess(n) => a fee >= n", o.pc, z3.And(z3.Implies(frk == 2, r == frc.t), z3.Implies(frk == 1, r >= frc.t)))
            else:
                ob.vc("Exactly(_) => the fee does not move (0)", o.pc, z3.Implies(frk == 2, r == 0))
            tb = VM.deref(E, o.args[0])
            f = VM.deref(E, tb.fields[TB.index("fee")])
            if not (isinstance(f, VLazy) and f.path == "old_fee"):
                ob.violation("%s modifies the builder's own fee" % fn)
        if nok < 3:
            ob.fail("expected Ok outcomes for the three fee requests, saw %d" % nok)
        ob.finish(E)
