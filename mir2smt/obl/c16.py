"""C16: set-typed collections stay duplicate-free and keep first-insertion order — E2 obligations on the containers themselves.

Each collection keeps a Vec<Rc<T>> (the emitted order) and a HashSet / BTreeSet<Rc<T>> index. std's set is trusted to be a
set (insert reports whether the element was absent, under Eq on the element; Rc is transparent); what is decided is the
crate's side: that EVERY insertion path consults the index before it pushes, keeps index and vector in step, and never
reorders.  One inductive step from an arbitrary valid state covers histories of any length:

  pre-state   k = 0..2 pairwise distinct elements, vector and index holding exactly those (the representation invariant)
  operation   add / add_move (one arbitrary element, equal to a stored one or not), extend / extend_move / from_vec
              (0..3 arbitrary elements with arbitrary coincidences), deserialize (0..3 items, arbitrary coincidences)
  post-state  invariant again; old elements keep their positions; a new element is appended exactly when it was absent;
              the boolean result says so; the serializer then emits every element exactly once in vector order.
Element equality is equality of identities in the solver (two lazily initialised elements may or may not coincide: both
cases are explored)."""
import itertools
import re
import z3
from engine import *
from prove import Obligation
import cbormodel as CM
import valuemodel as VM
from seqmodel import elem_ident


def R(v, name="tmp"):
    return VRef(Cell(v, name))


# container, element type, vector field, index field
CONTAINERS = [
    ("Ed25519KeyHashes", "Ed25519KeyHash", "keyhashes", "dedup"),
    ("Credentials", "Credential", "credentials", "dedup"),
    ("TransactionInputs", "TransactionInput", "inputs", "dedup"),
    ("Certificates", "Certificate", "certs", "dedup"),
    ("VotingProposals", "VotingProposal", "proposals", "dedup"),
    ("Vkeywitnesses", "Vkeywitness", "witnesses", "dedup"),
    ("BootstrapWitnesses", "BootstrapWitness", "witnesses", "dedup"),
]


def rc(x):
    return VStruct("Rc", [x])


def state(E, cont, ety, vf, sf, k, prefix="old"):
    """a valid container value with k pairwise distinct lazy elements; returns (value, [identities])"""
    elems = [VLazy("%s%d" % (prefix, j), ety) for j in range(k)]
    ids = [E.as_u(e) for e in elems]
    for a, b in itertools.combinations(ids, 2):
        E.pc.append(a != b)
    v = E.mk_struct(cont, **{vf: VSeq([rc(clone(e)) for e in elems], "vec"), sf: VSeq([rc(clone(e)) for e in elems], "set")})
    return v, ids


def fields_of(E, P, cont, vf, sf, val):
    names = P.struct_fields[cont]
    vec, st = val.fields[names.index(vf)], val.fields[names.index(sf)]
    vec, st = VM.deref(E, vec), VM.deref(E, st)
    if not isinstance(vec, VSeq) or not isinstance(st, VSeq):
        raise Unsupported("container fields are not sequences: %r %r" % (vec, st))
    return [elem_ident(E, x) for x in vec.items], [elem_ident(E, x) for x in st.items]


def check_post(ob, E, o, what, old_ids, new_ids, vec_ids, set_ids, result=None):
    """invariant + first-insertion order after inserting new_ids (in that order) into a container holding old_ids"""
    pc = o.pc
    n_old = len(old_ids)
    if len(vec_ids) < n_old:
        ob.violation("%s: the vector lost elements (%d -> %d)" % (what, n_old, len(vec_ids))); return
    if len(vec_ids) > 1:
        ob.vc("%s: no two elements of the vector are equal" % what, pc, z3.Distinct(*vec_ids))
    for j in range(n_old):
        ob.vc("%s: stored element %d keeps its position" % (what, j), pc, vec_ids[j] == old_ids[j])
    # every element offered is in the vector afterwards; every appended element is an offered one that was absent before; appended in offer order
    for j, x in enumerate(new_ids):
        ob.vc("%s: offered element %d is in the vector afterwards" % (what, j), pc, z3.Or([x == v for v in vec_ids]) if vec_ids else z3.BoolVal(False))
    app = vec_ids[n_old:]
    pos = []
    for a in app:
        ob.vc("%s: an appended element is one of the offered ones and was not stored before" % what, pc,
              z3.And(z3.Or([a == x for x in new_ids]) if new_ids else z3.BoolVal(False), z3.And([a != v for v in old_ids]) if old_ids else z3.BoolVal(True)))
    if len(app) > 1 and new_ids:
        # first-insertion order: rank of an appended element = index of its first occurrence among the offered ones
        first = lambda a: z3.Sum([z3.If(z3.And([a != new_ids[i] for i in range(j)] + [a == new_ids[j]]), j, 0) for j in range(len(new_ids))])
        for i in range(len(app) - 1):
            ob.vc("%s: appended elements are in first-insertion order" % what, pc, first(app[i]) < first(app[i + 1]))
    # index and vector hold the same elements
    if len(set_ids) != len(vec_ids):
        ob.violation("%s: index has %d elements, vector %d" % (what, len(set_ids), len(vec_ids))); return
    for v in vec_ids:
        ob.vc("%s: every vector element is in the index" % what, pc, z3.Or([v == s for s in set_ids]))
    if result is not None and len(new_ids) == 1:
        ob.vc("%s: the result says whether the element was absent" % what, pc, result == (len(app) == 1))


def obligations(ctx):
    set_containers(ctx)
    asset_name_order(ctx)
    reference_inputs_deterministic(ctx)
    hash_agrees_with_eq(ctx)
    ord_agrees_with_eq(ctx)


def set_containers(ctx):
    P = ctx.P
    kmax = 2
    nmax = 2 if ctx.tier == "quick" else 3
    for cont, ety, vf, sf in CONTAINERS:
        ob = Obligation(ctx, "c16_e2_set_%s" % cont, "pre-state 0..%d distinct elements; 1 (add) / 0..%d (bulk, decode) offered elements with arbitrary coincidences" % (kmax, nmax),
                        ["%s::add / add_move / extend / extend_move / from_vec / deserialize / serialize" % cont], fallback_native="e2n_c16_sets")
        agg = Engine(P)
        if cont not in P.struct_fields or vf not in P.struct_fields[cont] or sf not in P.struct_fields[cont]:
            ob.fail("%s no longer has the fields %s / %s: the obligation has to be re-written for the new representation" % (cont, vf, sf)); ob.finish(agg); continue
        done = []
        def collect(E):
            agg.stats["paths"] += E.stats["paths"]; agg.stats["feasibility_queries"] += E.stats["feasibility_queries"]; agg.stats["functions"] |= E.stats["functions"]
        # ---- single insertion
        for meth, byref in (("add", True), ("add_move", False)):
            if P.resolve("%s::%s" % (cont, meth)) is None:
                continue
            done.append(meth)
            for k in range(kmax + 1):
                E = Engine(P, max_loop=8)
                cell = {}
                def mk(E=E, k=k, cell=cell, byref=byref):
                    st, ids = state(E, cont, ety, vf, sf, k)
                    x = VLazy("x", ety)
                    cell["old"], cell["x"] = ids, E.as_u(x)
                    return [R(st, "self"), R(x, "x") if byref else x]
                npaths = 0
                for o in E.explore("%s::%s" % (cont, meth), mk, max_paths=40):
                    if o.kind != "return":
                        ob.vc("%s.%s: no panic (%s %s)" % (cont, meth, o.kind, o.msg), o.pc, z3.BoolVal(False)); continue
                    npaths += 1
                    E.enter(o)
                    vec_ids, set_ids = fields_of(E, P, cont, vf, sf, VM.deref(E, o.args[0]))
                    check_post(ob, E, o, "%s.%s on %d stored" % (cont, meth, k), cell["old"], [cell["x"]], vec_ids, set_ids, o.value.t if isinstance(o.value, VBool) else None)
                if npaths < (2 if k else 1):
                    ob.fail("%s.%s with %d stored elements: %d paths (present / absent expected)" % (cont, meth, k, npaths))
                collect(E)
        # ---- bulk insertion
        for meth in ("extend", "extend_move"):
            if P.resolve("%s::%s" % (cont, meth)) is None:
                continue
            done.append(meth)
            for k in range(kmax + 1):
                for m in range(nmax + 1):
                    E = Engine(P, max_loop=m + 4)
                    cell = {}
                    def mk(E=E, k=k, m=m, cell=cell, meth=meth):
                        st, ids = state(E, cont, ety, vf, sf, k)
                        other, oids = state(E, cont, ety, vf, sf, m, prefix="new")
                        cell["old"], cell["new"] = ids, oids
                        return [R(st, "self"), R(other, "other") if meth == "extend" else other]
                    for o in E.explore("%s::%s" % (cont, meth), mk, max_paths=200):
                        if o.kind != "return":
                            ob.vc("%s.%s: no panic (%s %s)" % (cont, meth, o.kind, o.msg), o.pc, z3.BoolVal(False)); continue
                        E.enter(o)
                        vec_ids, set_ids = fields_of(E, P, cont, vf, sf, VM.deref(E, o.args[0]))
                        check_post(ob, E, o, "%s.%s %d stored + %d offered" % (cont, meth, k, m), cell["old"], cell["new"], vec_ids, set_ids)
                    collect(E)
        if P.resolve("%s::from_vec" % cont) is not None:
            done.append("from_vec")
            for m in range(nmax + 2):
                E = Engine(P, max_loop=m + 4)
                cell = {}
                def mk(E=E, m=m, cell=cell):
                    xs = [VLazy("new%d" % j, ety) for j in range(m)]
                    cell["new"] = [E.as_u(x) for x in xs]
                    return [VSeq(xs, "vec")]
                npaths = 0
                for o in E.explore("%s::from_vec" % cont, mk, max_paths=400):
                    if o.kind != "return":
                        ob.vc("%s::from_vec: no panic (%s %s)" % (cont, o.kind, o.msg), o.pc, z3.BoolVal(False)); continue
                    npaths += 1
                    E.enter(o)
                    vec_ids, set_ids = fields_of(E, P, cont, vf, sf, o.value)
                    check_post(ob, E, o, "%s::from_vec of %d" % (cont, m), [], cell["new"], vec_ids, set_ids)
                if npaths < [1, 1, 2, 4, 8][m]:
                    ob.fail("%s::from_vec of %d elements: only %d coincidence patterns explored" % (cont, m, npaths))
                collect(E)
        # ---- decoding bytes that repeat an element, then re-encoding
        for m in range(nmax + 1):
            for variant in ("definite", "tagged", "indefinite"):
                E = Engine(P, max_loop=m + 6)
                CM.install(E, target=cont)
                items = [("item", z3.Const("wire%d" % j, agg.U), ety) for j in range(m)]
                E.U = agg.U
                toks = ([("tag", 258)] if variant == "tagged" else []) + [("array", None if variant == "indefinite" else m)] + items + ([("special", "Break", None)] if variant == "indefinite" else [])
                ids = [t[1] for t in items]
                for o in E.explore("<%s as Deserialize>::deserialize" % cont, lambda toks=toks: [R(CM.VDe(list(toks)), "raw")], max_paths=400):
                    if o.kind != "return":
                        ob.vc("%s decode: no panic (%s %s)" % (cont, o.kind, o.msg), o.pc, z3.BoolVal(False)); continue
                    if o.value.variant != "Ok":
                        ob.vc("%s decode of %d well-formed items (%s) succeeds" % (cont, m, variant), o.pc, z3.BoolVal(False)); continue
                    E.enter(o)
                    val = o.value.fields[0]
                    vec_ids, set_ids = fields_of(E, P, cont, vf, sf, val)
                    check_post(ob, E, o, "%s decode of %d items (%s)" % (cont, m, variant), [], ids, vec_ids, set_ids)
                    # re-encode: every element once, in vector order
                    S = Engine(P, max_loop=len(vec_ids) + 4)
                    CM.install(S, target=cont)
                    S.U = agg.U
                    S.base = list(o.pc)
                    def mk2(val=val, S=S, o=o):
                        S.lazy_ident.update(o.idents)
                        return [R(clone(val), "self"), R(CM.VSer(), "ser")]
                    routs = [r for r in S.explore("<%s as cbor_event::se::Serialize>::serialize" % cont, mk2, max_paths=20) if r.kind == "return" and r.value.variant == "Ok"]
                    if len(routs) != 1:
                        ob.violation("%s: the decoded collection does not re-encode deterministically" % cont); continue
                    S.enter(routs[0])
                    out = [t for t in VM.deref(S, routs[0].args[1]).tokens if t[0] == "item"]
                    if len(out) != len(vec_ids):
                        ob.violation("%s: %d elements emitted for a collection of %d" % (cont, len(out), len(vec_ids))); continue
                    for j, t in enumerate(out):
                        ob.vc("%s: emitted element %d is vector element %d" % (cont, j, j), routs[0].pc, t[1] == vec_ids[j])
                    collect(S)
                collect(E)
        done.append("deserialize+serialize")
        ob.bound += "; insertion paths executed: " + ", ".join(done)
        ob.finish(agg, lambda m, info=None: ("e2n_c16_sets", []))


def asset_name_order(ctx):
    """Canonical CBOR key order of asset names (shorter first, equal lengths bytewise) — the one crate-specific ingredient of
    "asset bundles and the mint field are emitted in canonical key order": the containers are std BTreeMaps keyed by
    PolicyID (fixed 28 bytes, derived bytewise order) and AssetName (this comparison)."""
    P = ctx.P
    E = Engine(P)
    ob = Obligation(ctx, "c16_e2_asset_name_canonical_order", "two arbitrary asset names (lengths and contents arbitrary)", ["<AssetName as Ord>::cmp", "<AssetName as PartialOrd>::partial_cmp"])
    U = E.U
    bcmp = z3.Function("bytes_cmp", U, U, z3.IntSort())      # -1 / 0 / 1: lexicographic comparison of byte vectors (std)
    ln = z3.Function("container_len", U, z3.IntSort())
    def vec_cmp(E_, c, a):
        ua, ub = E_.as_u(VM.deref(E_, a[0])), E_.as_u(VM.deref(E_, a[1]))
        r = bcmp(ua, ub)
        E_.pc.append(z3.And(r >= -1, r <= 1))
        i = E_.choose([r == -1, r == 0, r == 1], "Vec<u8>::cmp")
        E_.trace.append(("bytes_cmp", ua, ub))
        return VEnum("Ordering", ["Less", "Equal", "Greater"][i], [])
    E.extra_intrinsics[r"^<std::vec::Vec<u8> as (std::cmp::)?Ord>::cmp$"] = vec_cmp
    seen = set()
    for entry in ("<AssetName as Ord>::cmp", "<AssetName as PartialOrd>::partial_cmp"):
        for o in E.explore(entry, lambda: [R(VLazy("a", "AssetName"), "a"), R(VLazy("b", "AssetName"), "b")], max_paths=40):
            if o.kind != "return":
                ob.vc("no panic (%s %s)" % (o.kind, o.msg), o.pc, z3.BoolVal(False)); continue
            E.enter(o)
            v = o.value
            if entry.endswith("partial_cmp"):
                if v.variant != "Some":
                    ob.violation("partial_cmp returns None"); continue
                v = v.fields[0]
            seen.add(v.variant)
            ua = E.as_u(VLazy("a.0", "std::vec::Vec<u8>"))
            ub = E.as_u(VLazy("b.0", "std::vec::Vec<u8>"))
            la, lb = ln(ua), ln(ub)
            want = z3.If(la < lb, -1, z3.If(la > lb, 1, bcmp(ua, ub)))
            got = {"Less": -1, "Equal": 0, "Greater": 1}[v.variant]
            ob.vc("%s: shorter name first, equal lengths bytewise (result %s)" % (entry.split("::")[-1], v.variant), o.pc, want == got)
    if seen != {"Less", "Equal", "Greater"}:
        ob.fail("expected all three outcomes, saw %s" % sorted(seen))
    ob.finish(E)


def reference_inputs_deterministic(ctx):
    """Repeated builds are byte-identical only if every sequence the builder emits is a FUNCTION of the builder state.  The
    reference inputs are gathered from several sources through an intermediate container: with hash containers modelled as
    iterating in an arbitrary order (nothing relates two iterations) and ordered containers as iterating in an arbitrary
    but FIXED total order, two executions of get_reference_inputs on the same state must yield the same sequence."""
    P = ctx.P
    ob = Obligation(ctx, "c16_e2_reference_inputs_deterministic", "2 explicitly declared reference inputs + 1 from the input scripts; de-duplication option on / off; two independent executions compared",
                    ["TransactionBuilder::get_reference_inputs"], fallback_native="e2n_c16_repeat_build")
    agg = Engine(P)
    U = agg.U
    for dedup in (False, True):
        runs = []
        for run in (0, 1):
            E = Engine(P, max_loop=8)
            E.U = U
            E.model_iteration_order = True
            # sub-builders: one reference input from the spending scripts, none elsewhere
            E.extra_intrinsics[r"TxInputsBuilder::get_ref_inputs$"] = lambda E_, c, a: E_.mk_struct("TransactionInputs", inputs=VSeq([rc(VLazy("script_ref", "TransactionInput"))], "vec"), dedup=VSeq([rc(VLazy("script_ref", "TransactionInput"))], "set"))
            E.extra_intrinsics[r"TxInputsBuilder::has_input$"] = lambda E_, c, a: VBool(False)
            def mk(E=E, dedup=dedup):
                cfg = E.mk_struct("TransactionBuilderConfig", deduplicate_explicit_ref_inputs_with_regular_inputs=VBool(dedup))
                refs = VSeq([VStruct("()", [VLazy("declared%d" % j, "TransactionInput"), VInt(0, "usize")]) for j in range(2)], "hmap")
                ids = [E.as_u(VLazy("declared0", "TransactionInput")), E.as_u(VLazy("declared1", "TransactionInput")), E.as_u(VLazy("script_ref", "TransactionInput"))]
                for a, b in itertools.combinations(ids, 2):
                    E.pc.append(a != b)
                none = VEnum("Option", "None", [])
                tb = E.mk_struct("TransactionBuilder", config=cfg, inputs=VLazy("inputs", "TxInputsBuilder"), reference_inputs=refs, mint=none, withdrawals=none, certs=none,
                                 voting_procedures=none, voting_proposals=none)
                return [R(tb, "self")]
            outs = []
            for o in E.explore("TransactionBuilder::get_reference_inputs", mk, max_paths=400):
                if o.kind != "return":
                    ob.vc("no panic (%s %s)" % (o.kind, o.msg), o.pc, z3.BoolVal(False)); continue
                E.enter(o)
                vec_ids, _ = fields_of(E, P, "TransactionInputs", "inputs", "dedup", o.value)
                # keep only the constraints about the iteration orders (decision variables are run-local by construction)
                outs.append((vec_ids, list(o.pc)))
            runs.append(outs)
            agg.stats["paths"] += E.stats["paths"]; agg.stats["feasibility_queries"] += E.stats["feasibility_queries"]; agg.stats["functions"] |= E.stats["functions"]
        if not runs[0] or not runs[1]:
            ob.fail("no path returned (dedup %s)" % dedup); continue
        for (sa, pa), (sb, pb) in itertools.product(runs[0], runs[1]):
            same = z3.And([x == y for x, y in zip(sa, sb)]) if len(sa) == len(sb) else z3.BoolVal(False)
            # run-local decision variables ("hash_order!k") are distinct fresh constants, the ordered-container relation and the
            # element identities are shared: the two executions see the same builder state
            ob.vc("two executions on the same builder state emit the same sequence of reference inputs (dedup option %s; orders %s / %s)" % (dedup, [str(x)[-12:] for x in sa], [str(x)[-12:] for x in sb]),
                  pa + pb, same)
    ob.cross_every = 4
    ob.finish(agg, lambda m, info=None: ("e2n_c16_repeat_build", []))


# ---------------------------------------------------------------- hand-written Hash agrees with the equality the hash containers use
def hash_agrees_with_eq(ctx):
    """A `HashSet` / `HashMap` keeps a set only if  a == b  implies  hash(a) == hash(b).  For every crate type with a
    hand-written `impl Hash`: `hash` is executed on two lazy values a, b with a recording hasher (what is fed to the
    hasher, as identities of the parts), `eq` on the same two values with part equality = identity equality; then
    eq(a, b) must imply that the k-th thing hashed from a is identical to the k-th thing hashed from b."""
    P = ctx.P
    ob = Obligation(ctx, "c16_e2_hash_agrees_with_eq", "every crate type with a hand-written Hash impl; two arbitrary (lazily initialised) values; parts opaque", ["<T as Hash>::hash", "<T as PartialEq>::eq"],
                    fallback_native="e2n_c16_hash_eq")
    agg = Engine(P)
    tys = {}
    for d in P.fns:
        if re.search(r"::hash(#\d+)?$", d) and "<impl at" in d:
            ty, tr = P.impl_of(d)
            if ty and tr and last_seg(tr.split("<")[0]) == "Hash" and not P.is_derived(d) and "$" not in ty:
                tys.setdefault(ty, d)
    # only what can be (part of) an element of the set-typed collections matters for C16
    ELEMS = ["Certificate", "VotingProposal", "Credential", "TransactionInput", "Ed25519KeyHash", "Vkeywitness", "BootstrapWitness"]
    import os
    bodies = {}
    for root, _, files in os.walk(P.src_root):
        for f in files:
            if f.endswith(".rs") and "/tests" not in root:
                src = re.sub(r"//[^\n]*", "", open(os.path.join(root, f), errors="replace").read())
                for m in re.finditer(r"\b(?:struct|enum)\s+(\w+)\s*(?:<[^>{(]*>)?\s*([({])", src):
                    depth, k = 0, m.end() - 1
                    op, cl = m.group(2), {"(": ")", "{": "}"}[m.group(2)]
                    j = k
                    while j < len(src):
                        if src[j] == op: depth += 1
                        elif src[j] == cl:
                            depth -= 1
                            if depth == 0: break
                        j += 1
                    bodies.setdefault(m.group(1), src[k:j + 1])
    def mentions(t):
        return set(re.findall(r"\b[A-Z]\w+\b", bodies.get(t, "")))
    inside, todo = set(ELEMS), list(ELEMS)
    while todo:
        for y in mentions(todo.pop()):
            if y not in inside:
                inside.add(y); todo.append(y)
    noted = sorted(t for t in tys if t not in inside)
    covered = []
    for ty in sorted(tys):
        if ty not in inside:
            continue
        eqd = P.resolve("<%s as PartialEq>::eq" % ty)
        if eqd is None or P.is_derived(eqd):
            continue        # a derived PartialEq compares every field: whatever parts Hash feeds are then equal
        def install(E):
            def nested_hash(E_, c, args):
                m = re.match(r"^<(.*) as (?:std::hash::|core::hash::)?Hash>::hash", c)
                if not m or last_seg(m.group(1)) == ty:
                    return NotImplemented
                E_.trace.append(("hashed", E_.as_u(VM.deref(E_, args[0]))))
                return UNIT
            def nested_eq(E_, c, args):
                m = re.match(r"^<(.*) as (?:std::cmp::|core::cmp::)?PartialEq(?:<.*>)?>::(eq|ne)$", c)
                if not m or last_seg(m.group(1)) == ty:
                    return NotImplemented
                t = E_.as_u(VM.deref(E_, args[0])) == E_.as_u(VM.deref(E_, args[1]))
                return VBool(t if m.group(2) == "eq" else z3.Not(t))
            E.extra_intrinsics[r" as (std::hash::|core::hash::)?Hash>::hash(::<.*>)?$"] = nested_hash
            E.extra_intrinsics[r" as (std::cmp::|core::cmp::)?PartialEq(<.*>)?>::(eq|ne)$"] = nested_eq
            E.extra_intrinsics[r"Hasher>::write\w*$"] = lambda E_, c, args: (E_.trace.append(("hashed", E_.as_u(VM.deref(E_, args[1])))), UNIT)[1]
        try:
            runs = {}
            for who in ("a", "b"):
                E = Engine(P, max_loop=4)
                install(E)
                outs = [o for o in E.explore("<%s as Hash>::hash" % ty, lambda: [R(VLazy(who, ty), "self"), R(VOpaque("hasher"), "state")], max_paths=8) if o.kind == "return"]
                if len(outs) != 1:
                    raise Unsupported("hash has %d paths" % len(outs))
                runs[who] = [t[1] for t in outs[0].trace if t[0] == "hashed"]
                agg.stats["paths"] += E.stats["paths"]; agg.stats["functions"] |= E.stats["functions"]
            E = Engine(P, max_loop=4)
            install(E)
            for o in E.explore("<%s as PartialEq>::eq" % ty, lambda: [R(VLazy("a", ty), "self"), R(VLazy("b", ty), "other")], max_paths=64):
                if o.kind != "return":
                    continue
                if len(runs["a"]) != len(runs["b"]):
                    ob.violation("%s: hash feeds %d parts for one value and %d for another" % (ty, len(runs["a"]), len(runs["b"]))); continue
                same = z3.And([x == y for x, y in zip(runs["a"], runs["b"])]) if runs["a"] else z3.BoolVal(True)
                ob.vc("%s: a == b implies the same parts are hashed (%d parts)" % (ty, len(runs["a"])), list(o.pc) + [o.value.t if isinstance(o.value, VBool) else z3.BoolVal(True)], same, info=dict(ty=ty))
            agg.stats["paths"] += E.stats["paths"]; agg.stats["functions"] |= E.stats["functions"]
            covered.append("%s(%d parts)" % (ty, len(runs["a"])))
        except (Unsupported, PathAbort) as e:
            ob.fail("%s: cannot be executed (%s)" % (ty, str(e)[:120]))
    ob.bound += ". Types: " + ", ".join(covered) + ". Hand-written Hash impls that cannot be part of an element of a set-typed collection (not checked here): " + ", ".join(noted)
    if not any(c.startswith("Ed25519KeyHashes") for c in covered) or not any(c.startswith("Credentials") for c in covered):
        ob.fail("expected the hand-written Hash impls nested in certificates and proposals (Ed25519KeyHashes, Credentials), found only %s" % covered)
    ob.finish(agg)


# ---------------------------------------------------------------- hand-written Ord agrees with the equality: ordered sets de-duplicate by cmp == Equal
def ord_agrees_with_eq(ctx):
    """A `BTreeSet` keeps one of two elements exactly when `cmp` answers Equal; the witness-set setters and the builder
    de-duplicate scripts and datums through ordered sets (`deduplicated_clone`).  'Emitted once' therefore needs
    cmp(a, b) == Equal  <=>  a == b  for the hand-written comparison pairs of the crate.  Both are executed from MIR on the
    same two lazily initialised values; comparisons of parts (other types, std containers) are identity comparisons:
    part_eq(x, y) <=> x is y, part_cmp(x, y) == Equal <=> x is y."""
    P = ctx.P
    ob = Obligation(ctx, "c16_e2_ord_agrees_with_eq", "every crate type with a hand-written Ord AND a hand-written PartialEq; two arbitrary (lazily initialised) values; parts opaque", ["<T as Ord>::cmp", "<T as PartialEq>::eq"],
                    fallback_native="e2n_c16_ord_eq")
    agg = Engine(P)
    tys = []
    for d in P.fns:
        if re.search(r"::cmp(#\d+)?$", d) and "<impl at" in d:
            ty, tr = P.impl_of(d)
            if ty and tr and last_seg(tr.split("<")[0]) == "Ord" and not P.is_derived(d) and "$" not in ty:
                eqd = P.resolve("<%s as PartialEq>::eq" % ty)
                if eqd is not None and not P.is_derived(eqd) and ty not in tys:
                    tys.append(ty)
    # Digest / DigestOf: chain_crypto generics, not ledger collections.  PlutusList: its order deliberately looks at the remembered
    # spelling (definite / indefinite) which `==` ignores — datums are de-duplicated by their BYTES (they are hashed); that pair of
    # notions is C09's de-duplication obligation, not a defect
    SKIP = ("Digest", "DigestOf", "PlutusList")
    covered = []
    for ty in sorted(t for t in tys if t not in SKIP):
        def install(E):
            def nested_eq(E_, c, args):
                m = re.match(r"^<(.*) as (?:std::cmp::|core::cmp::)?PartialEq(?:<.*>)?>::(eq|ne)$", c)
                if not m or last_seg(m.group(1)) == ty:
                    return NotImplemented
                t = E_.as_u(VM.deref(E_, args[0])) == E_.as_u(VM.deref(E_, args[1]))
                return VBool(t if m.group(2) == "eq" else z3.Not(t))
            def nested_cmp(E_, c, args):
                m = re.match(r"^<(.*) as (?:std::cmp::|core::cmp::)?(Ord|PartialOrd)(?:<.*>)?>::(cmp|partial_cmp)$", c)
                if not m or last_seg(m.group(1)) == ty:
                    return NotImplemented
                x, y = E_.as_u(VM.deref(E_, args[0])), E_.as_u(VM.deref(E_, args[1]))
                lt = z3.Function("part_lt", E_.U, E_.U, z3.BoolSort())
                i = E_.choose([x == y, z3.And(x != y, lt(x, y)), z3.And(x != y, z3.Not(lt(x, y)))], "order of parts")
                o = VEnum("Ordering", ["Equal", "Less", "Greater"][i], [])
                return o if m.group(3) == "cmp" else VEnum("Option", "Some", [o])
            E.extra_intrinsics[r" as (std::cmp::|core::cmp::)?PartialEq(<.*>)?>::(eq|ne)$"] = nested_eq
            E.extra_intrinsics[r" as (std::cmp::|core::cmp::)?(Ord|PartialOrd)(<.*>)?>::(cmp|partial_cmp)$"] = nested_cmp
        try:
            E = Engine(P, max_loop=4)
            E.U = agg.U
            install(E)
            couts = [o for o in E.explore("<%s as Ord>::cmp" % ty, lambda: [R(VLazy("a", ty), "self"), R(VLazy("b", ty), "other")], max_paths=200) if o.kind == "return"]
            E2 = Engine(P, max_loop=4)
            E2.U = agg.U
            install(E2)
            eouts = [o for o in E2.explore("<%s as PartialEq>::eq" % ty, lambda: [R(VLazy("a", ty), "self"), R(VLazy("b", ty), "other")], max_paths=200) if o.kind == "return"]
            if not couts or not eouts:
                raise Unsupported("no returning path")
            for oc in couts:
                is_eq = isinstance(oc.value, VEnum) and oc.value.variant == "Equal"
                for oe in eouts:
                    ev = oe.value.t if isinstance(oe.value, VBool) else None
                    if ev is None:
                        raise Unsupported("eq does not return a bool")
                    ob.vc("%s: cmp(a, b) == Equal exactly when a == b (cmp answers %s)" % (ty, oc.value.variant), list(oc.pc) + list(oe.pc),
                          ev if is_eq else z3.Not(ev), info=dict(ty=ty))
            agg.stats["paths"] += E.stats["paths"] + E2.stats["paths"]; agg.stats["functions"] |= E.stats["functions"] | E2.stats["functions"]
            covered.append(ty)
        except (Unsupported, PathAbort) as e:
            ob.fail("%s: cannot be executed (%s)" % (ty, str(e)[:160]))
    ob.bound += ". Types: " + ", ".join(covered)
    if "NativeScripts" not in covered or "PlutusScripts" not in covered:
        ob.fail("expected NativeScripts and PlutusScripts among the covered types, found %s" % covered)
    ob.cross_every = 4
    ob.finish(agg, lambda m, info=None: ("e2n_c16_ord_eq", []))
