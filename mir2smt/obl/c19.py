"""C19: collateral return and total collateral are consistent and sufficient (E2).

The setters are executed from MIR with the collateral inputs' total as an arbitrary Value (lovelace + one arbitrary
asset, pointwise abstraction of valuemodel.py — whose checked_sub summary states the library's real, clamping
behaviour) and min_ada_for_output as an arbitrary result."""
import z3
from engine import *
from prove import Obligation, mval, le_bytes
import valuemodel as VM
from obl.c05 import SymValue, stub_result, R

U64 = (1 << 64) - 1


def opt(x):
    return VEnum("Option", "Some", [x]) if x is not None else VEnum("Option", "None", [])


def field(P, v, struct, name):
    return v.fields[P.struct_fields[struct].index(name)]


def obligations(ctx):
    P = ctx.P
    TB = P.struct_fields["TransactionBuilder"]

    def install_common(E, ncol, total, g_total, minada, g_min):
        VM.install(E)
        E.extra_intrinsics[r"TxInputsBuilder::len$"] = lambda E_, c, a: ncol
        E.extra_intrinsics[r"TxInputsBuilder::total_value$"] = stub_result(E, g_total, total.build)
        def ms(E_, c, args):
            E_.trace.append(("min_ada_for", args[0]))
            given = E_.__dict__.get("_c19_given_return")
            if given is not None:
                # the minimum that counts is the one of the return output AS GIVEN (its datum and script reference included): a minimum
                # computed for any other output (a rebuilt one, say) is an unrelated number
                same = E_.as_u(VM.deref(E_, args[0])) == E_.as_u(given)
                if E_.choose([same, z3.Not(same)], "minimum computed for the given return itself") == 1:
                    v = E_.fresh("min_ada_of_another_output")
                    E_.pc.append(z3.And(v >= 0, v <= U64))
                    return VEnum("Result", "Ok", [VM.bn(v)])
            i = E_.choose([g_min, z3.Not(g_min)], "min ada")
            return VEnum("Result", "Ok", [VM.bn(minada)]) if i == 0 else VEnum("Result", "Err", [VOpaque("err")])
        E.extra_intrinsics[r"(^|::)min_ada_for_output$"] = ms
        # a minimum computed by a detached calculator (not from the output itself) is some OTHER number
        def detached(E_, c, args):
            good = E_.fresh("detached_min_ada_ok", "bool")
            if E_.choose([good, z3.Not(good)], "detached min ada") == 1:
                return VEnum("Result", "Err", [VOpaque("err")])
            v = E_.fresh("detached_min_ada")
            E_.pc.append(z3.And(v >= 0, v <= U64))
            return VEnum("Result", "Ok", [VM.bn(v)])
        E.extra_intrinsics[r"MinOutputAdaCalculator::calculate_ada$"] = detached
        E.extra_intrinsics[r"MinOutputAdaCalculator::new_empty$"] = lambda E_, c, a: VEnum("Result", "Ok", [VOpaque("calc")])
        E.extra_intrinsics[r"MinOutputAdaCalculator::set_\w+$"] = lambda E_, c, a: UNIT

    # ------------------------------------------------------------------ explicit return -> total
    E = Engine(P)
    ncol = E.sym_int("n_collateral_inputs", "usize")
    total, ret = SymValue(E, "inputs"), SymValue(E, "ret")
    minada = E.sym_int("min_ada", "u64")
    g_total, g_min = z3.Bool("total_value_ok"), z3.Bool("min_ada_ok")
    old_total, old_ret_set, old_total_set = E.sym_int("old_total", "u64"), z3.Bool("old_return_set"), z3.Bool("old_total_set")
    install_common(E, ncol, total, g_total, minada, g_min)
    def mk():
        tb = E.mk_struct("TransactionBuilder",
                         collateral_return=opt(VLazy("old_return", "TransactionOutput")) if E.choose([old_ret_set, z3.Not(old_ret_set)], "old return") == 0 else opt(None),
                         total_collateral=opt(VM.bn(old_total)) if E.choose([old_total_set, z3.Not(old_total_set)], "old total") == 0 else opt(None))
        out = E.mk_struct("TransactionOutput", address=VLazy("ret_addr", "Address"), amount=ret.build(), plutus_data=VLazy("ret_datum", "Option<DataOption>"), script_ref=VLazy("ret_script_ref", "Option<ScriptRef>"))
        E._c19_given_return = out
        return [R(tb, "self"), R(out, "collateral_return")]
    ob = Obligation(ctx, "c19_e2_set_collateral_return_and_total", "collateral inputs' total and the return output: lovelace all u64, one arbitrary asset all u64, other assets abstract; "
                    "min-ADA result arbitrary; previously set fields arbitrary", ["TransactionBuilder::set_collateral_return_and_total", "Value::checked_sub (summary)"], fallback_native="e2n_c19_return_min_ada")
    nok = 0
    for o in E.explore("TransactionBuilder::set_collateral_return_and_total", mk):
        if o.kind != "return":
            ob.vc("no panic (%s %s)" % (o.kind, o.msg), o.pc, z3.BoolVal(False)); continue
        tb = VM.deref(E, o.args[0])
        cr, tc = field(P, tb, "TransactionBuilder", "collateral_return"), field(P, tb, "TransactionBuilder", "total_collateral")
        E.enter(o)
        if o.value.variant == "Ok":
            nok += 1
            if tc.variant != "Some" or cr.variant != "Some":
                ob.fail("Ok but a field is unset"); continue
            t = tc.fields[0].fields[0].t
            info = dict(kind=0)
            ob.vc("Ok => collateral inputs exist and their total was computed", o.pc, z3.And(ncol.t > 0, g_total))
            ob.vc("Ok => lovelace: inputs == return + total", o.pc, total.coin == ret.coin + t, info=info)
            ob.vc("Ok => every asset of the inputs, and nothing else, is in the return (arbitrary asset: q_inputs == q_return)", o.pc, total.q == ret.q, info=info)
            ob.vc("Ok => return output meets its min ADA", o.pc, z3.And(g_min, ret.coin >= minada.t))
            rc, _ = VM.value_parts(E, E.nav(cr.fields[0], [("field", P.struct_fields["TransactionOutput"].index("amount"), "utils::Value")]))
            ob.vc("stored return is the given output", o.pc, rc == ret.coin)
        else:
            # a failed attempt leaves the fields as they were
            same_ret = (cr.variant == "Some" and isinstance(cr.fields[0], VLazy) and cr.fields[0].path == "old_return") or cr.variant == "None"
            if not same_ret:
                ob.fail("Err but collateral_return was modified")
            ob.vc("Err => total_collateral untouched", o.pc, z3.And(z3.BoolVal(tc.variant == "Some") == old_total_set,
                                                                   (tc.fields[0].fields[0].t == old_total.t) if tc.variant == "Some" else z3.BoolVal(True)))
    if nok == 0:
        ob.fail("no Ok path")
    def nat(m, info=None):
        return "e2n_c19_collateral", [[0], le_bytes(mval(m, total.coin), 8), le_bytes(mval(m, total.q), 8), le_bytes(mval(m, ret.coin), 8), le_bytes(mval(m, ret.q), 8), le_bytes(0, 8), [0]]
    ob.finish(E, nat)

    # ------------------------------------------------------------------ explicit total -> return
    E = Engine(P)
    ncol = E.sym_int("n_collateral_inputs", "usize")
    total = SymValue(E, "inputs")
    want = E.sym_int("total_collateral", "u64")
    minada = E.sym_int("min_ada", "u64")
    g_total, g_min = z3.Bool("total_value_ok"), z3.Bool("min_ada_ok")
    old_ret_set = z3.Bool("old_return_set")
    install_common(E, ncol, total, g_total, minada, g_min)
    def mk():
        tb = E.mk_struct("TransactionBuilder",
                         collateral_return=opt(VLazy("old_return", "TransactionOutput")) if E.choose([old_ret_set, z3.Not(old_ret_set)], "old return") == 0 else opt(None),
                         total_collateral=opt(None))
        return [R(tb, "self"), R(VM.bn(want), "total"), R(VLazy("ret_addr", "Address"), "addr")]
    ob = Obligation(ctx, "c19_e2_set_total_collateral_and_return", "collateral inputs' total: lovelace all u64, one arbitrary asset all u64; requested total: all u64; a return set by an earlier call may be present",
                    ["TransactionBuilder::set_total_collateral_and_return", "Value::checked_sub (summary)"], fallback_native="e2n_c19_return_min_ada")
    nok = 0
    for o in E.explore("TransactionBuilder::set_total_collateral_and_return", mk):
        if o.kind != "return":
            ob.vc("no panic (%s %s)" % (o.kind, o.msg), o.pc, z3.BoolVal(False)); continue
        tb = VM.deref(E, o.args[0])
        cr, tc = field(P, tb, "TransactionBuilder", "collateral_return"), field(P, tb, "TransactionBuilder", "total_collateral")
        E.enter(o)
        if o.value.variant == "Ok":
            nok += 1
            if tc.variant != "Some":
                ob.fail("Ok but total_collateral unset"); continue
            ob.vc("Ok => stored total is the requested one and inputs exist", o.pc, z3.And(tc.fields[0].fields[0].t == want.t, ncol.t > 0, g_total))
            if cr.variant == "Some" and isinstance(cr.fields[0], VLazy):
                # the return of an earlier call is still there: then inputs == old return + total cannot be guaranteed
                ob.vc("Ok with an untouched earlier return => impossible (a stale return breaks inputs == return + total)", o.pc, z3.BoolVal(False), info=dict(kind=1))
            elif cr.variant == "Some":
                rc, rma = VM.value_parts(E, E.nav(cr.fields[0], [("field", P.struct_fields["TransactionOutput"].index("amount"), "utils::Value")]))
                rq = rma[0] if rma is not None else z3.IntVal(0)
                ob.vc("Ok => lovelace: inputs == return + total", o.pc, total.coin == rc + want.t)
                ob.vc("Ok => the arbitrary asset is entirely in the return", o.pc, total.q == rq)
                ob.vc("Ok => return meets its min ADA", o.pc, z3.And(g_min, rc >= minada.t))
            else:
                ob.vc("Ok without a return => inputs are pure lovelace equal to the total", o.pc, z3.And(total.coin == want.t, total.q == 0))
        else:
            same_ret = (cr.variant == "Some" and isinstance(cr.fields[0], VLazy)) or cr.variant == "None"
            if not same_ret or tc.variant != "None":
                ob.fail("Err but a field was modified")
    if nok == 0:
        ob.fail("no Ok path")
    def nat2(m, info=None):
        return "e2n_c19_collateral", [[1], le_bytes(mval(m, total.coin), 8), le_bytes(mval(m, total.q), 8), le_bytes(0, 8), le_bytes(0, 8), le_bytes(mval(m, want.t), 8), [1 if z3.is_true(m.eval(old_ret_set, model_completion=True)) else 0]]
    ob.finish(E, nat2)

    # ------------------------------------------------------------------ percentage helper
    E = Engine(P, max_loop=5)
    VM.install(E)
    col = [SymValue(E, "col%d" % j) for j in range(2)]
    fee, pct = E.sym_int("fee", "u64"), E.sym_int("percentage", "u64")
    g_bal, g_fee, g_set = z3.Bool("balancing_ok"), z3.Bool("fee_set"), z3.Bool("set_total_and_return_ok")
    def iter_stub(E_, c, args):
        return VSeq([R(E_.mk_struct("TxBuilderInput", amount=v.build())) for v in col], "iter")
    E.extra_intrinsics[r"TxInputsBuilder::iter$"] = iter_stub
    E.extra_intrinsics[r"TransactionBuilder::add_inputs_from_and_change$"] = stub_result(E, g_bal, lambda: VBool(z3.Bool("change_added")))
    E.extra_intrinsics[r"TransactionBuilder::get_fee_if_set$"] = lambda E_, c, a: opt(VM.bn(fee)) if E_.choose([g_fee, z3.Not(g_fee)], "fee") == 0 else opt(None)
    def stcr(E_, c, args):
        E_.trace.append(("set_total_and_return", VM.deref(E_, args[1]).fields[0].t))
        tb = VM.deref(E_, args[0])
        i = E_.choose([g_set, z3.Not(g_set)], "set")
        if i == 0:
            tb.fields[TB.index("total_collateral")] = opt(VM.deref(E_, args[1]))
            tb.fields[TB.index("collateral_return")] = opt(VLazy("computed_return", "TransactionOutput"))
            return VEnum("Result", "Ok", [UNIT])
        # the real setter may fail after it already stored something? (it does not, see obligation above); model the worst case
        tb.fields[TB.index("total_collateral")] = opt(VM.deref(E_, args[1]))
        return VEnum("Result", "Err", [VOpaque("err")])
    E.extra_intrinsics[r"TransactionBuilder::set_total_collateral_and_return$"] = stcr
    def mk():
        tb = E.mk_struct("TransactionBuilder", collateral=VLazy("collateral", "TxInputsBuilder"), collateral_return=opt(None), total_collateral=opt(None))
        cc = E.mk_struct("ChangeConfig", address=VLazy("change_addr", "Address"))
        return [R(tb, "self"), R(VLazy("utxos", "TransactionUnspentOutputs")), VLazy("strategy", "CoinSelectionStrategyCIP2"), R(cc), R(VM.bn(pct))]
    ob = Obligation(ctx, "c19_e2_percentage_helper", "2 collateral inputs; fee and percentage: all u64; balancing, fee presence and the final setter: arbitrary outcomes",
                    ["TransactionBuilder::add_inputs_from_and_change_with_collateral_return"], fallback_native="e2n_c19_helper_failed")
    nok = 0
    for o in E.explore("TransactionBuilder::add_inputs_from_and_change_with_collateral_return", mk):
        if o.kind != "return":
            ob.vc("no panic (%s %s)" % (o.kind, o.msg), o.pc, z3.BoolVal(False)); continue
        tb = VM.deref(E, o.args[0])
        cr, tc = field(P, tb, "TransactionBuilder", "collateral_return"), field(P, tb, "TransactionBuilder", "total_collateral")
        calls = [t for t in o.trace if t[0] == "set_total_and_return"]
        if o.value.variant == "Ok":
            nok += 1
            if len(calls) != 1:
                ob.fail("Ok without exactly one call of set_total_collateral_and_return"); continue
            req = calls[0][1]
            ob.vc("total collateral handed to the setter >= ceil(fee * percentage / 100)", o.pc, z3.And(req * 100 >= fee.t * pct.t, g_bal, g_fee, g_set))
        else:
            if cr.variant != "None" or tc.variant != "None":
                ob.violation("a failed attempt of the percentage helper leaves collateral_return (%s) or total_collateral (%s) set" % (cr.variant, tc.variant))
    if nok == 0:
        ob.fail("no Ok path")
    ob.finish(E)
