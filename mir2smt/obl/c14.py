"""C14 (E2 part): big-integer narrowing is exact or explicit failure, for every mathematical integer."""
import z3
from engine import *
from prove import Obligation, mval, le_bytes

U64 = (1 << 64) - 1


def obligations(ctx):
    P = ctx.P
    E = Engine(P)
    x = E.sym_big("x")
    def mk():
        return [VRef(Cell(VStruct("BigInt", [VBig(x.t)]), "self"))]
    ob = Obligation(ctx, "c14_e2_bigint_narrowing", "x: every mathematical integer (unbounded)", ["BigInt::as_u64", "BigInt::as_int", "Int::new", "Int::new_negative"])
    seen = set()
    for o in E.explore("BigInt::as_u64", mk):
        if o.kind != "return":
            ob.vc("no panic in as_u64 (%s %s)" % (o.kind, o.msg), o.pc, z3.BoolVal(False)); continue
        v = o.value
        seen.add("u64" + v.variant)
        if v.variant == "Some":
            ob.vc("as_u64 Some(v) => v == x and 0 <= x <= 2^64-1", o.pc, z3.And(v.fields[0].fields[0].t == x.t, x.t >= 0, x.t <= U64), info="u64")
        else:
            ob.vc("as_u64 None => x does not fit u64", o.pc, z3.Or(x.t < 0, x.t > U64), info="u64")
    for o in E.explore("BigInt::as_int", mk):
        if o.kind != "return":
            ob.vc("no panic in as_int (%s %s)" % (o.kind, o.msg), o.pc, z3.BoolVal(False)); continue
        v = o.value
        seen.add("int" + v.variant)
        if v.variant == "Some":
            ob.vc("as_int Some(i) => i == x and x within -2^64..2^64-1", o.pc, z3.And(v.fields[0].fields[0].t == x.t, x.t >= -(U64 + 1), x.t <= U64), info="int")
        else:
            ob.vc("as_int None => |x| does not fit 64 bits", o.pc, z3.Or(x.t < -U64, x.t > U64), info="int")
    if not {"u64Some", "u64None", "intSome", "intNone"} <= seen:
        ob.fail("expected Some and None paths for both conversions, saw %s" % sorted(seen))
    def nat(m, info=None):
        v = mval(m, x.t)
        mag = abs(v)
        return "e2n_bigint_narrowing", [[1 if v < 0 else 0], le_bytes(mag & U64, 8), le_bytes((mag >> 64) & U64, 8), le_bytes((mag >> 128) & U64, 8)]
    ob.finish(E, nat)
    value_compare(ctx)
    value_arithmetic(ctx)
    mint_builder_amounts(ctx)
    int_from_str_range(ctx)


# ---------------------------------------------------------------- Value comparison == component-wise comparison
SHAPES = [None, [], [("p0", [])], [("p0", ["a0"])], [("p0", ["a0", "a1"])], [("p0", ["a0"]), ("p1", ["a0"])], [("p1", ["a1"])]]


def value_compare(ctx):
    """`Value::partial_cmp` (and compare()) against the component-wise order: lovelace and every asset of a small universe
    (2 policies x 2 names), missing = 0.  Bundles have concrete shapes (absent, empty, a policy with no assets, 1-2 assets,
    two policies) and symbolic quantities over all u64 INCLUDING 0; every pair of shapes."""
    import itertools
    P = ctx.P
    ob = Obligation(ctx, "c14_e2_value_partial_cmp", "every pair of %d bundle shapes over 2 policies x 2 asset names; coins and quantities over all u64 (0 included)" % len(SHAPES),
                    ["<Value as PartialOrd>::partial_cmp", "<MultiAsset as PartialOrd>::partial_cmp"])
    agg = Engine(P)
    universe = [(p, a) for p in ("p0", "p1") for a in ("a0", "a1")]
    seen = set()
    for si, sj in itertools.product(range(len(SHAPES)), repeat=2):
        E = Engine(P, max_loop=8)
        coins = [E.sym_int("coin_l", "u64"), E.sym_int("coin_r", "u64")]
        q = {}
        def build(side, shape, E=E, q=q):
            if shape is None:
                ma = VEnum("Option", "None", [])
            else:
                pols = []
                for p, names in shape:
                    assets = []
                    for a in names:
                        v = E.sym_int("q_%s_%s_%s" % (side, p, a), "u64")
                        q[(side, p, a)] = v.t
                        assets.append(VStruct("()", [VLazy(a, "AssetName"), VStruct("BigNum", [VInt(v.t, "u64")])]))
                    pols.append(VStruct("()", [VLazy(p, "ScriptHash"), VStruct("Assets", [VSeq(assets, "map")])]))
                ma = VEnum("Option", "Some", [VStruct("MultiAsset", [VSeq(pols, "map")])])
            return VStruct("Value", [VStruct("BigNum", [VInt(coins[0 if side == "l" else 1].t, "u64")]), ma])
        def mk(E=E, si=si, sj=sj):
            q.clear()
            for a, b in (("p0", "p1"), ("a0", "a1")):
                E.pc.append(E.as_u(VLazy(a, "x")) != E.as_u(VLazy(b, "x")))
            args_ = [VRef(Cell(build("l", SHAPES[si]), "self")), VRef(Cell(build("r", SHAPES[sj]), "other"))]
            for t_ in list(q.values()) + [coins[0].t, coins[1].t]:
                E.pc.append(z3.And(t_ >= 0, t_ <= U64))
            return args_
        for o in E.explore("<Value as PartialOrd>::partial_cmp", mk, max_paths=400):
            if o.kind != "return":
                ob.vc("no panic (%s %s) shapes %d/%d" % (o.kind, o.msg[:80], si, sj), o.pc, z3.BoolVal(False), info=(si, sj)); continue
            comps = [(coins[0].t, coins[1].t)] + [(q.get(("l", p, a), z3.IntVal(0)), q.get(("r", p, a), z3.IntVal(0))) for p, a in universe]
            all_le = z3.And([l <= r for l, r in comps])
            all_ge = z3.And([l >= r for l, r in comps])
            v = o.value
            got = v.fields[0].variant if v.variant == "Some" else "None"
            seen.add(got)
            want = {"Equal": z3.And(all_le, all_ge), "Less": z3.And(all_le, z3.Not(all_ge)), "Greater": z3.And(all_ge, z3.Not(all_le)), "None": z3.And(z3.Not(all_le), z3.Not(all_ge))}[got]
            ob.vc("shapes %s vs %s: result %s agrees with the component-wise order" % (SHAPES[si], SHAPES[sj], got), o.pc, want, info=(si, sj))
        agg.stats["paths"] += E.stats["paths"]; agg.stats["feasibility_queries"] += E.stats["feasibility_queries"]; agg.stats["functions"] |= E.stats["functions"]
    if seen != {"Equal", "Less", "Greater", "None"}:
        ob.fail("expected all four outcomes, saw %s" % sorted(seen))
    ob.cross_every = 12
    def nat(m, info=None):
        si, sj = info
        def qv(side, p, a):
            return mval(m, z3.Int("q_%s_%s_%s" % (side, p, a)))
        vals = [[si], [sj], le_bytes(mval(m, z3.Int("coin_l")), 8), le_bytes(mval(m, z3.Int("coin_r")), 8)]
        for side in ("l", "r"):
            for p, a in universe:
                vals.append(le_bytes(qv(side, p, a), 8))
        return "e2n_value_compare", vals
    ob.finish(agg, nat)


def _bundle_quantities(E, v):
    """{(policy, name): z3 term} of a concrete-shape Value result; None when the structure is not a shaped bundle"""
    v = deref_all(E, v)
    if not isinstance(v, VStruct) or v.name != "Value":
        return None, None
    coin = deref_all(E, v.fields[0])
    coin_t = coin.fields[0].t if isinstance(coin, VStruct) else None
    ma = deref_all(E, v.fields[1])
    out = {}
    if isinstance(ma, VEnum) and ma.variant == "Some":
        m = deref_all(E, ma.fields[0])
        pols = deref_all(E, m.fields[0])
        if not isinstance(pols, VSeq):
            return None, None
        for pe in pols.items:
            pk, pv = deref_all(E, pe.fields[0]), deref_all(E, pe.fields[1])
            assets = deref_all(E, pv.fields[0])
            if not isinstance(assets, VSeq) or not isinstance(pk, VLazy):
                return None, None
            for ae in assets.items:
                ak, av = deref_all(E, ae.fields[0]), deref_all(E, ae.fields[1])
                if not isinstance(ak, VLazy):
                    return None, None
                out[(pk.path, ak.path)] = av.fields[0].t
    return coin_t, out


def deref_all(E, v):
    while isinstance(v, VRef):
        v = E.read_ref(v)
    return v


def value_arithmetic(ctx):
    """Value::checked_add / checked_sub / clamped_sub on shaped bundles, component-wise:
       checked_add : every component is the exact sum, or the call fails (some component exceeds u64)
       checked_sub : every component is the exact difference, or the call fails (some component would go below 0)
       clamped_sub : every component is max(l - r, 0) (saturation is this function's documented contract)
    These are also the summaries the pointwise abstraction of mir2smt/valuemodel.py relies on."""
    import itertools
    P = ctx.P
    universe = [(p, a) for p in ("p0", "p1") for a in ("a0", "a1")]
    U64 = (1 << 64) - 1
    for op in ("checked_add", "checked_sub", "clamped_sub"):
        ob = Obligation(ctx, "c14_e2_value_%s" % op, "every pair of %d bundle shapes over 2 policies x 2 asset names; coins and quantities over all u64 (0 included)" % len(SHAPES), ["Value::%s" % op, "MultiAsset::sub"])
        agg = Engine(P)
        nok = nerr = 0
        for si, sj in itertools.product(range(len(SHAPES)), repeat=2):
            E = Engine(P, max_loop=10)
            coins = [E.sym_int("coin_l", "u64"), E.sym_int("coin_r", "u64")]
            q = {}
            def build(side, shape, E=E, q=q):
                if shape is None:
                    ma = VEnum("Option", "None", [])
                else:
                    pols = []
                    for p, names in shape:
                        assets = []
                        for a in names:
                            v = E.sym_int("q_%s_%s_%s" % (side, p, a), "u64")
                            q[(side, p, a)] = v.t
                            assets.append(VStruct("()", [VLazy(a, "AssetName"), VStruct("BigNum", [VInt(v.t, "u64")])]))
                        pols.append(VStruct("()", [VLazy(p, "ScriptHash"), VStruct("Assets", [VSeq(assets, "map")])]))
                    ma = VEnum("Option", "Some", [VStruct("MultiAsset", [VSeq(pols, "map")])])
                return VStruct("Value", [VStruct("BigNum", [VInt(coins[0 if side == "l" else 1].t, "u64")]), ma])
            def mk(E=E, si=si, sj=sj):
                q.clear()
                for a, b in (("p0", "p1"), ("a0", "a1")):
                    E.pc.append(E.as_u(VLazy(a, "x")) != E.as_u(VLazy(b, "x")))
                args_ = [VRef(Cell(build("l", SHAPES[si]), "self")), VRef(Cell(build("r", SHAPES[sj]), "rhs"))]
                for t_ in list(q.values()) + [coins[0].t, coins[1].t]:
                    E.pc.append(z3.And(t_ >= 0, t_ <= U64))
                return args_
            for o in E.explore("Value::%s" % op, mk, max_paths=2000):
                what = "%s, shapes %s / %s" % (op, SHAPES[si], SHAPES[sj])
                if o.kind != "return":
                    ob.vc("no panic (%s %s) %s" % (o.kind, o.msg[:80], what), o.pc, z3.BoolVal(False), info=(op, si, sj)); continue
                E.enter(o)
                comps = [("coin", coins[0].t, coins[1].t)] + [("%s.%s" % (p, a), q.get(("l", p, a), z3.IntVal(0)), q.get(("r", p, a), z3.IntVal(0))) for p, a in universe]
                res = o.value
                if op != "clamped_sub":
                    if res.variant != "Ok":
                        nerr += 1
                        bad = z3.Or([(l + r > U64) if op == "checked_add" else (l < r) for _, l, r in comps])
                        ob.vc("%s: an error is reported only when some component has no exact result" % what, o.pc, bad, info=(op, si, sj))
                        continue
                    res = res.fields[0]
                nok += 1
                coin_t, got = _bundle_quantities(E, res)
                if got is None:
                    ob.fail("%s: result is not a shaped bundle" % what); continue
                for name, l, r in comps:
                    g = coin_t if name == "coin" else got.get(tuple(name.split(".")), z3.IntVal(0))
                    want = (l + r) if op == "checked_add" else ((l - r) if op == "checked_sub" else z3.If(l >= r, l - r, 0))
                    ob.vc("%s: component %s of the result is %s" % (what, name, {"checked_add": "the exact sum", "checked_sub": "the exact difference", "clamped_sub": "max(l - r, 0)"}[op]), o.pc, g == want, info=(op, si, sj))
                for key in got:
                    if key not in [(p, a) for p, a in universe]:
                        ob.violation("%s: the result holds an asset %s that neither operand has" % (what, key))
            agg.stats["paths"] += E.stats["paths"]; agg.stats["feasibility_queries"] += E.stats["feasibility_queries"]; agg.stats["functions"] |= E.stats["functions"]
        if nok == 0 or (op != "clamped_sub" and nerr == 0):
            ob.fail("%s: %d Ok and %d Err paths" % (op, nok, nerr))
        ob.cross_every = 25
        def nat(m, info=None):
            op_, si, sj = info
            vals = [[{"checked_add": 0, "checked_sub": 1, "clamped_sub": 2}[op_]], [si], [sj], le_bytes(mval(m, z3.Int("coin_l")), 8), le_bytes(mval(m, z3.Int("coin_r")), 8)]
            for side in ("l", "r"):
                for p, a in universe:
                    vals.append(le_bytes(mval(m, z3.Int("q_%s_%s_%s" % (side, p, a))), 8))
            return "e2n_value_arith", vals
        ob.finish(agg, nat)


# ---------------------------------------------------------------- signed amounts accumulated by the mint builder stay inside Int's range
IMIN, IMAX = -(1 << 64), (1 << 64) - 1


def mint_builder_amounts(ctx, parts=("range", "build"), name="c14_e2_mint_builder_amounts_in_range"):
    """'every signed integer obtainable through the public API lies within -2^64..2^64-1': MintBuilder::add_asset / set_asset
    accumulate signed amounts per (policy, asset name).  One step from a state in which the policy already holds the asset with an
    arbitrary in-range amount (and from the empty state), with an arbitrary in-range amount offered: on Ok the stored amount is
    old + offered (add) / offered (set) and lies within the range; MintBuilder::build hands out exactly the stored amounts and
    refuses a zero (the mint field is a multiasset<nonZeroInt64>, C03)."""
    P = ctx.P
    ob = Obligation(ctx, name, "policy absent / present (native or Plutus) holding the asset with any in-range amount; offered amount: every Int of -2^64..2^64-1; add and set",
                    ["MintBuilder::add_asset", "MintBuilder::set_asset", "MintBuilder::update_mint_value", "MintBuilder::build", "MintAssets::insert"], fallback_native="e2n_c14_mint_builder_range")
    agg = Engine(P)
    nok = 0
    for fn in (("add_asset", "set_asset") if "range" in parts else ()):
        for pre in ("absent", "Native", "Plutus"):
            E = Engine(P, max_loop=4)
            E.U = agg.U
            old, off = E.sym_int("old_amount", "i128"), E.sym_int("offered_amount", "i128")
            E.assume(z3.And(old.t >= IMIN, old.t <= IMAX, off.t >= IMIN, off.t <= IMAX))
            E.extra_intrinsics[r"MintBuilder::validate_mint_witness$"] = lambda E_, c, a: VEnum("Result", "Ok", [UNIT])
            E.extra_intrinsics[r"::script_hash$"] = lambda E_, c, a: VLazy("policy", "ScriptHash")
            def mk(E=E, pre=pre, old=old, off=off):
                kind = "Native" if pre != "Plutus" else "Plutus"
                if kind == "Native":
                    w = VStruct("MintWitness", [VEnum("MintWitnessEnum", "NativeScript", [VLazy("nsrc", "NativeScriptSourceEnum")])])
                else:
                    w = VStruct("MintWitness", [VEnum("MintWitnessEnum", "Plutus", [VLazy("psrc", "PlutusScriptSourceEnum"), VLazy("red", "Redeemer")])])
                entries = []
                if pre != "absent":
                    am = VSeq([VStruct("()", [VLazy("name", "AssetName"), VStruct("Int", [VInt(old.t, "i128")])])], "map")
                    sm = VEnum("ScriptMint", "Native", [E.mk_struct("NativeMints", script=VLazy("nsrc", "NativeScriptSourceEnum"), mints=am)]) if pre == "Native" else \
                        VEnum("ScriptMint", "Plutus", [E.mk_struct("PlutusMints", script=VLazy("psrc", "PlutusScriptSourceEnum"), redeemer=VLazy("red", "Redeemer"), mints=am)])
                    entries.append(VStruct("()", [VLazy("policy", "ScriptHash"), sm]))
                mb = E.mk_struct("MintBuilder", mints=VSeq(entries, "map"))
                return [R_(mb, "self"), R_(w, "mint"), R_(VLazy("name", "AssetName"), "asset_name"), R_(VStruct("Int", [VInt(off.t, "i128")]), "amount")]
            try:
                outs = E.explore("MintBuilder::%s" % fn, mk, max_paths=200)
            except Unsupported as e:
                ob.fail("%s from %s: cannot be executed (%s)" % (fn, pre, str(e)[:200])); continue
            for o in outs:
                if o.kind != "return":
                    ob.vc("no panic in %s (%s %s)" % (fn, o.kind, o.msg[:80]), o.pc, z3.BoolVal(False)); continue
                if o.value.variant != "Ok":
                    continue
                nok += 1
                E.enter(o)
                mb = VM_deref(E, o.args[0])
                ents = VM_deref(E, mb.fields[P.struct_fields["MintBuilder"].index("mints")]).items
                if len(ents) != 1:
                    ob.violation("%s from %s: %d policies stored" % (fn, pre, len(ents))); continue
                sm = VM_deref(E, VM_deref(E, ents[0]).fields[1])
                inner = VM_deref(E, sm.fields[0])
                mints = VM_deref(E, inner.fields[P.struct_fields["NativeMints" if sm.variant == "Native" else "PlutusMints"].index("mints")]).items
                if len(mints) != 1:
                    ob.violation("%s from %s: %d assets stored" % (fn, pre, len(mints))); continue
                stored = VM_deref(E, VM_deref(E, mints[0]).fields[1]).fields[0].t
                want = off.t if (fn == "set_asset" or pre == "absent") else old.t + off.t
                ob.vc("%s from %s: the stored amount is the exact result" % (fn, pre), o.pc, stored == want, info=dict(fn=fn, pre=pre))
                ob.vc("%s from %s: the stored amount lies within -2^64..2^64-1" % (fn, pre), o.pc, z3.And(stored >= IMIN, stored <= IMAX), info=dict(fn=fn, pre=pre))
            agg.stats["paths"] += E.stats["paths"]; agg.stats["feasibility_queries"] += E.stats["feasibility_queries"]; agg.stats["functions"] |= E.stats["functions"]
    # build(): hands out the stored amounts, refuses zero
    for kind in (("Native", "Plutus") if "build" in parts else ()):
        E = Engine(P, max_loop=4)
        E.U = agg.U
        amt = E.sym_int("stored_amount", "i128")
        E.assume(z3.And(amt.t >= IMIN, amt.t <= IMAX))
        def mk(E=E, kind=kind, amt=amt):
            am = VSeq([VStruct("()", [VLazy("name", "AssetName"), VStruct("Int", [VInt(amt.t, "i128")])])], "map")
            sm = VEnum("ScriptMint", "Native", [E.mk_struct("NativeMints", script=VLazy("nsrc", "NativeScriptSourceEnum"), mints=am)]) if kind == "Native" else \
                VEnum("ScriptMint", "Plutus", [E.mk_struct("PlutusMints", script=VLazy("psrc", "PlutusScriptSourceEnum"), redeemer=VLazy("red", "Redeemer"), mints=am)])
            return [R_(E.mk_struct("MintBuilder", mints=VSeq([VStruct("()", [VLazy("policy", "ScriptHash"), sm])], "map")), "self")]
        try:
            outs = E.explore("MintBuilder::build", mk, max_paths=100)
        except Unsupported as e:
            ob.fail("build (%s): cannot be executed (%s)" % (kind, str(e)[:200])); continue
        okb = 0
        for o in outs:
            if o.kind != "return":
                ob.vc("no panic in build (%s %s)" % (o.kind, o.msg[:80]), o.pc, z3.BoolVal(False)); continue
            if o.value.variant != "Ok":
                continue
            okb += 1
            ob.vc("build (%s policy) succeeds only with a non-zero amount (mint = multiasset<nonZeroInt64>)" % kind, o.pc, amt.t != 0, info=dict(fn="build", pre=kind))
        if okb == 0:
            ob.fail("build (%s): no Ok path" % kind)
        agg.stats["paths"] += E.stats["paths"]; agg.stats["feasibility_queries"] += E.stats["feasibility_queries"]; agg.stats["functions"] |= E.stats["functions"]
    if "range" in parts and nok < 6:
        ob.fail("expected Ok paths for add / set from three pre-states, saw %d" % nok)
    def nat(m, info=None):
        info = info or {}
        def enc(v):
            return [[1 if v < 0 else 0], le_bytes(abs(v) & U64, 8), [1 if abs(v) > U64 else 0]]
        old_v = mval(m, z3.Int("old_amount")) if info.get("fn") != "build" else 5
        return "e2n_c14_mint_builder_range", [[{"add_asset": 0, "set_asset": 1, "build": 2}.get(info.get("fn"), 0)], [{"absent": 0, "Native": 1, "Plutus": 2}.get(info.get("pre"), 0)]] + \
                                               enc(old_v) + enc(mval(m, z3.Int("offered_amount")))
    ob.finish(agg, nat)


def R_(v, name="tmp"):
    return VRef(Cell(v, name))


def VM_deref(E, v):
    while isinstance(v, VRef):
        v = E.read_ref(v)
    return v


def int_from_str_range(ctx):
    """decimal strings: Int::from_str (also behind every JSON form of an Int) and BigNum::from_str hand out exactly the number
    std's parser read, and only inside the type's range.  `str::parse::<i128 / u64>` is a stub returning an arbitrary number of
    its type or an error (std's parser is trusted to read decimal strings exactly); what is decided is the crate's own range
    check around it."""
    P = ctx.P
    ob = Obligation(ctx, "c14_e2_int_from_str_range", "the parsed number: every i128 (Int) / every u64 (BigNum); parse failures arbitrary", ["Int::from_str", "BigNum::from_str"], fallback_native="e2n_c14_decimal_strings")
    agg = Engine(P)
    for ty, pty, lo, hi in (("Int", "i128", IMIN, IMAX), ("BigNum", "u64", 0, U64)):
        E = Engine(P, max_loop=4, opaque=[r"::to_json$"])
        E.U = agg.U
        x = E.sym_int("parsed_" + pty, pty)
        g = z3.Bool("parse_ok")
        def parse(E_, c, a, x=x, g=g):
            if E_.choose([g, z3.Not(g)], "parse") == 1:
                return VEnum("Result", "Err", [VOpaque("parse_error")])
            return VEnum("Result", "Ok", [VInt(x.t, x.ty)])
        E.extra_intrinsics[r"str::parse::<(i128|u64)>$|<impl str>::parse::<(i128|u64)>$"] = parse
        E.extra_intrinsics[r"(^|::)format$"] = lambda E_, c, a: VOpaque("text")
        try:
            outs = E.explore("%s::from_str" % ty, lambda: [R_(VOpaque("text"), "string")], max_paths=50)
        except Unsupported as e:
            ob.fail("%s::from_str cannot be executed (%s)" % (ty, str(e)[:200])); continue
        nok = 0
        for o in outs:
            if o.kind != "return":
                ob.vc("no panic in %s::from_str (%s %s)" % (ty, o.kind, o.msg[:80]), o.pc, z3.BoolVal(False), info=dict(ty=ty)); continue
            if o.value.variant != "Ok":
                continue
            nok += 1
            v = VM_deref(E, o.value.fields[0]).fields[0].t
            ob.vc("%s::from_str Ok(v) => v is the number parsed and lies within the type's range" % ty, o.pc, z3.And(g, v == x.t, v >= lo, v <= hi), info=dict(ty=ty))
        if nok == 0:
            ob.fail("%s::from_str: no Ok path" % ty)
        agg.stats["paths"] += E.stats["paths"]; agg.stats["feasibility_queries"] += E.stats["feasibility_queries"]; agg.stats["functions"] |= E.stats["functions"]
    def nat(m, info=None):
        v = mval(m, z3.Int("parsed_i128")) if (info or {}).get("ty") == "Int" else mval(m, z3.Int("parsed_u64"))
        return "e2n_c14_decimal_strings", [[1 if v < 0 else 0], le_bytes(abs(v) & U64, 8), le_bytes((abs(v) >> 64) & U64, 8)]
    ob.finish(agg, nat)
