"""C14 (E2 part): big-integer narrowing is exact or explicit failure, for every mathematical integer."""
import z3
from engine import *
from prove import Obligation, mval, le_bytes

U64 = (1 << 64) - 1


def obligations(ctx):
    P = ctx.P
    E = Engine(P)
    x = E.sym_big("x")
    def mk():
        return [VRef(Cell(VStruct("BigInt", [VBig(x.t)]), "self"))]
    ob = Obligation(ctx, "c14_e2_bigint_narrowing", "x: every mathematical integer (unbounded)", ["BigInt::as_u64", "BigInt::as_int", "Int::new", "Int::new_negative"])
    seen = set()
    for o in E.explore("BigInt::as_u64", mk):
        if o.kind != "return":
            ob.vc("no panic in as_u64 (%s %s)" % (o.kind, o.msg), o.pc, z3.BoolVal(False)); continue
        v = o.value
        seen.add("u64" + v.variant)
        if v.variant == "Some":
            ob.vc("as_u64 Some(v) => v == x and 0 <= x <= 2^64-1", o.pc, z3.And(v.fields[0].fields[0].t == x.t, x.t >= 0, x.t <= U64), info="u64")
        else:
            ob.vc("as_u64 None => x does not fit u64", o.pc, z3.Or(x.t < 0, x.t > U64), info="u64")
    for o in E.explore("BigInt::as_int", mk):
        if o.kind != "return":
            ob.vc("no panic in as_int (%s %s)" % (o.kind, o.msg), o.pc, z3.BoolVal(False)); continue
        v = o.value
        seen.add("int" + v.variant)
        if v.variant == "Some":
            ob.vc("as_int Some(i) => i == x and x within -2^64..2^64-1", o.pc, z3.And(v.fields[0].fields[0].t == x.t, x.t >= -(U64 + 1), x.t <= U64), info="int")
        else:
            ob.vc("as_int None => |x| does not fit 64 bits", o.pc, z3.Or(x.t < -U64, x.t > U64), info="int")
    if not {"u64Some", "u64None", "intSome", "intNone"} <= seen:
        ob.fail("expected Some and None paths for both conversions, saw %s" % sorted(seen))
    def nat(m, info=None):
        v = mval(m, x.t)
        mag = abs(v)
        return "e2n_bigint_narrowing", [[1 if v < 0 else 0], le_bytes(mag & U64, 8), le_bytes((mag >> 64) & U64, 8), le_bytes((mag >> 128) & U64, 8)]
    ob.finish(E, nat)
