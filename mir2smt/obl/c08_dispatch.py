"""C08, composition: TransactionBuilder::add_inputs_from as a whole, with the two selection kernels replaced by the contracts
the kernel obligations (c08.py, c08_ri.py) establish for them.

  largest-first kernel : adds a subset S of the still available offered UTxOs; input_total += their amounts,
                         output_total += their fees, available -= S; Ok iff the covered quantity of input_total reaches
                         that of output_total
  random-improve kernel: the same bookkeeping, Ok or Err arbitrary (coverage of the fee is the caller's phase 3)
Everything else is executed from MIR: the initial totals (get_total_input / get_total_output / min_fee: arbitrary coins), the
"add one input to a builder that has none" step, the dispatch on the four strategies, the phase-3 fee top-up loop under every
RNG draw.  Decided on every Ok path: the UTxOs added (by the dispatch itself and by the kernels) are pairwise distinct offered
ones, and
        total_input + sum(added amounts)  >=  total_output + min_fee + sum(fee of every added input)
i.e. the bookkeeping that decides "covered" includes the fee of EVERY input that was added (fee_for_input is by definition
the increase of the minimum fee the input causes).  Lovelace only: the multi-asset strategies are run with 0, 1 and 2 requested assets: one kernel pass per requested asset (its
verdict on the asset arbitrary — the per-asset kernels are C08's function-level claim) and one for lovelace, all sharing the
list of still available UTxOs and the running totals."""
import itertools
import z3
from engine import *
from prove import Obligation, mval, le_bytes
import valuemodel as VM

U64 = (1 << 64) - 1


def R(v, name="tmp"):
    return VRef(Cell(v, name))


def obligations(ctx):
    P = ctx.P
    ob = Obligation(ctx, "c08_e2_add_inputs_from_counts_every_fee", "0..2 offered UTxOs (lovelace amounts all u64 below 2^62), builder with / without inputs, totals and fees arbitrary, four strategies, every RNG draw, every kernel outcome allowed by its contract",
                    ["TransactionBuilder::add_inputs_from"], fallback_native=["e2n_c08_first_input_fee", "e2n_c08_largest_first", "e2n_c08_random_improve"])
    agg = Engine(P)
    STRATS = ["LargestFirst", "RandomImprove", "LargestFirstMultiAsset", "RandomImproveMultiAsset"]
    nok = 0
    for strat, n, nreq in [(st, n_, 0) for st in STRATS for n_ in (0, 1, 2)] + [(st, 2, k_) for st in STRATS[2:] for k_ in (1, 2)]:
        if True:
            # nreq: number of native assets the outputs request (multi-asset strategies run one kernel pass per requested asset and
            # one for lovelace, all sharing the list of still available UTxOs and the running totals)
            E = Engine(P, max_loop=n + nreq + 3)
            VM.install(E)
            qs = [E.sym_int("q%d" % i, "u64") for i in range(n)]
            fees = [E.sym_int("fee%d" % i, "u64") for i in range(n)]
            tin, tout, fee0 = E.sym_int("total_input", "u64"), E.sym_int("total_output", "u64"), E.sym_int("min_fee", "u64")
            has_inputs = z3.Bool("builder_has_inputs")
            for v in qs + fees + [tin, tout, fee0]:
                E.assume(v.t < (1 << 62))

            def val(t):
                return VStruct("Value", [VM.bn(VInt(t, "u64")), VEnum("Option", "None", [])])

            def idx_of(E_, u):
                u = VM.deref(E_, u)
                names = P.struct_fields["TransactionUnspentOutput"]
                iv = VM.deref(E_, u.fields[names.index("input")]) if isinstance(u, VStruct) else u
                return int(iv.path[len("txin"):]) if isinstance(iv, VLazy) and iv.path.startswith("txin") else None

            def total_input(E_, c, a):
                # the inputs already in the builder (or a positive mint) may carry native assets the outputs do not ask for
                tok = E_.fresh("input_carries_tokens", "bool")
                if E_.choose([z3.Not(tok), tok], "tokens among the inputs already there") == 0:
                    return VM.ok(val(tin.t))
                q_ = E_.fresh("input_token_q"); E_.pc.append(z3.And(q_ >= 1, q_ <= U64))
                return VM.ok(VM.mk_value(tin.t, (q_, z3.BoolVal(False), z3.Const("input_token_rest", E_.U))))
            E.extra_intrinsics[r"TransactionBuilder::get_total_input$"] = total_input
            def total_output(E_, c, a, nreq=nreq):
                if nreq == 0:
                    return VM.ok(val(tout.t))
                q_ = E_.fresh("requested_q"); E_.pc.append(z3.And(q_ >= 0, q_ <= U64))
                return VM.ok(VM.mk_value(tout.t, (q_, z3.BoolVal(nreq > 1), z3.Const("requested_rest", E_.U))))
            E.extra_intrinsics[r"TransactionBuilder::get_total_output$"] = total_output
            def req_iter(E_, c, a, nreq=nreq):
                m_ = VM.deref(E_, a[0])
                if not (isinstance(m_, VStruct) and m_.name == "#AssetMap"):
                    return NotImplemented
                assets = VStruct("Assets", [VSeq([VStruct("()", [VLazy("asset_name%d" % k, "AssetName"), VM.bn(E_.fresh("req%d" % k))]) for k in range(nreq)], "map")])
                return VSeq([VStruct("()", [R(VLazy("policy0", "ScriptHash")), R(assets)])], "iter")
            E.extra_intrinsics[r"BTreeMap::<.*ScriptHash, .*Assets>::iter$"] = req_iter
            E.extra_intrinsics[r"TransactionBuilder::min_fee$"] = lambda E_, c, a: VM.ok(VM.bn(fee0))
            E.extra_intrinsics[r"TxInputsBuilder::has_inputs$"] = lambda E_, c, a: VBool(has_inputs)

            def fee_for_input(E_, c, args):
                iv = VM.deref(E_, args[2])
                j = int(iv.path[len("txin"):])
                E_.trace.append(("fee", j))
                return VM.ok(VM.bn(VInt(fees[j].t, "u64")))
            E.extra_intrinsics[r"TransactionBuilder::fee_for_input$"] = fee_for_input

            def add_utxo(E_, c, args):
                E_.trace.append(("add", idx_of(E_, args[1])))
                return VM.ok(UNIT)
            E.extra_intrinsics[r"TxInputsBuilder::add_regular_utxo$"] = add_utxo

            def gen_range(E_, c, args):
                rg = args[1]
                k, l0 = E_.concretize(rg.fields[1].t - rg.fields[0].t), E_.concretize(rg.fields[0].t)
                if k is None or l0 is None:
                    raise Unsupported("symbolic range for the RNG")
                if k <= 0:
                    raise PathAbort("panic", "gen_range on an empty range")
                r = z3.FreshConst(z3.IntSort(), "draw")
                return VInt(l0 + E_.choose([r == j for j in range(k)], "rng draw", trust=True), "usize")
            E.extra_intrinsics[r"(^|::)gen_range::<"] = gen_range
            E.extra_intrinsics[r"(^|::)thread_rng$"] = lambda E_, c, a: VOpaque("rng")

            def kernel(kind):
                def f(E_, c, args):
                    avail_in = VM.deref(E_, args[1])
                    avail = VM.deref(E_, args[2])
                    it_ref, ot_ref = args[3], args[4]
                    cur = [E_.concretize(VM.deref(E_, x).t) for x in avail.items]
                    subsets = [s for r_ in range(len(cur) + 1) for s in itertools.combinations(cur, r_)]
                    pick = z3.FreshConst(z3.IntSort(), "kernel_adds")
                    S = subsets[E_.choose([pick == i for i in range(len(subsets))], "subset added by the %s kernel" % kind, trust=True)]
                    itv, _ = VM.value_parts(E_, VM.deref(E_, it_ref)); otv, _ = VM.value_parts(E_, VM.deref(E_, ot_ref))
                    for pos in S:
                        j = idx_of(E_, avail_in.items[pos])
                        E_.trace.append(("add", j)); E_.trace.append(("fee", j))
                        itv = itv + qs[j].t; otv = otv + fees[j].t
                    avail.items[:] = [x for x in avail.items if E_.concretize(VM.deref(E_, x).t) not in S]
                    _, it_ma = VM.value_parts(E_, VM.deref(E_, it_ref)); _, ot_ma = VM.value_parts(E_, VM.deref(E_, ot_ref))
                    E_.write_at(it_ref.cell, it_ref.path, VM.mk_value(itv, it_ma) if it_ma is not None else val(itv))
                    E_.write_at(ot_ref.cell, ot_ref.path, VM.mk_value(otv, ot_ma) if ot_ma is not None else val(otv))
                    npass = sum(1 for t in E_.trace if t[0] == "pass")
                    E_.trace.append(("pass", kind))
                    asset_pass = npass < nreq
                    if asset_pass:
                        b = E_.fresh("asset_pass_ok", "bool")         # coverage of the requested asset: arbitrary here (the kernels' own obligations decide it)
                        good = E_.choose([b, z3.Not(b)], "asset pass verdict") == 0
                    elif kind == "largest-first":
                        good = E_.choose([itv >= otv, itv < otv], "covered") == 0
                    else:
                        b = E_.fresh("random_improve_ok", "bool")
                        good = E_.choose([b, z3.Not(b)], "kernel verdict") == 0
                    return VM.ok(UNIT) if good else VEnum("Result", "Err", [VOpaque("err:insufficient")])
                return f
            E.extra_intrinsics[r"TransactionBuilder::cip2_largest_first_by(::<.*>)?$"] = kernel("largest-first")
            E.extra_intrinsics[r"TransactionBuilder::cip2_random_improve_by(::<.*>)?$"] = kernel("random-improve")

            def mk(n=n, E=E, strat=strat):
                utxos = []
                for i in range(n):
                    out = E.mk_struct("TransactionOutput", address=VLazy("addr%d" % i, "Address"), amount=val(qs[i].t))
                    utxos.append(E.mk_struct("TransactionUnspentOutput", input=VLazy("txin%d" % i, "TransactionInput"), output=out))
                tb = E.mk_struct("TransactionBuilder", inputs=VLazy("inputs", "TxInputsBuilder"), outputs=VStruct("TransactionOutputs", [VSeq([], "vec")]))
                return [R(tb, "self"), R(VStruct("TransactionUnspentOutputs", [VSeq(utxos, "vec")]), "inputs"), VEnum("CoinSelectionStrategyCIP2", strat, [])]
            try:
                outs = list(E.explore("TransactionBuilder::add_inputs_from", mk, max_paths=4000))
            except Unsupported as e:
                ob.fail("%s with %d offered, %d assets requested: cannot be executed (%s)" % (strat, n, nreq, str(e)[:200])); continue
            for o in outs:
                if o.kind != "return" or o.value.variant != "Ok":
                    continue            # C08 speaks about reported successes
                nok += 1
                E.enter(o)
                added = [t[1] for t in o.trace if t[0] == "add"]
                feed = [t[1] for t in o.trace if t[0] == "fee"]
                what = "%s, %d offered, %d assets requested, added %s" % (strat, n, nreq, added)
                npasses = sum(1 for t in o.trace if t[0] == "pass")
                if strat.endswith("MultiAsset") and npasses != nreq + 1:
                    ob.violation("%s: %d kernel passes for %d requested assets + lovelace" % (what, npasses, nreq)); continue
                if None in added or len(set(added)) != len(added):
                    ob.violation("%s: the UTxOs added are not pairwise distinct offered ones" % what); continue
                need = tout.t + fee0.t + z3.Sum([fees[j].t for j in added] + [z3.IntVal(0)])
                have = tin.t + z3.Sum([qs[j].t for j in added] + [z3.IntVal(0)])
                ob.vc("%s: inputs cover outputs + minimum fee including the fee of every added input" % what, o.pc, have >= need,
                      info=dict(strat=STRATS.index(strat), n=n, added=added, feed=feed))
            agg.stats["paths"] += E.stats["paths"]; agg.stats["feasibility_queries"] += E.stats["feasibility_queries"]; agg.stats["functions"] |= E.stats["functions"]
    if nok < 20:
        ob.fail("only %d successful paths explored" % nok)
    ob.cross_every = 10
    ob.finish(agg)
