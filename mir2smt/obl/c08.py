"""C08 (largest-first clause, function level): TransactionBuilder::cip2_largest_first_by on an abstract offered set.

The real MIR of the selection loop (retain / sort / reverse iteration / swap_remove bookkeeping) is executed for 0..3
offered UTxOs whose quantities are symbolic (every ordering and every tie pattern is a solver-explored branch), arbitrary
running totals, an arbitrary per-input fee and arbitrary outcomes of the collaborators.  `by` is the quantity being
covered: lovelace, or an arbitrary native asset (a UTxO is relevant iff it holds a positive amount of it).

Decided on every path:
  * the UTxOs added are pairwise distinct members of the offered indices and all relevant; nothing else is touched;
  * they are added in non-increasing order of the quantity, and no skipped relevant UTxO is larger than an added one;
  * selection stops as soon as the quantity is covered (before each addition the running input total was below the target,
    which includes the fee of every input added so far);
  * Ok iff covered at the end; "insufficient" only after ALL relevant UTxOs were added and the target is still not met;
  * the running totals handed back are the initial ones plus exactly what was added; available_indices loses exactly the
    selected indices.
Not decided here (see DESIGN section 3): the random-improve strategies and the end-to-end claim that the builder's
actual inputs cover outputs plus the real minimum fee."""
import itertools
import z3
from engine import *
from prove import Obligation
import valuemodel as VM

U64 = (1 << 64) - 1


def R(v, name="tmp"):
    return VRef(Cell(v, name))


def obligations(ctx):
    P = ctx.P
    nmax = 3 if ctx.tier == "quick" else 4
    for mode in ("lovelace", "asset"):
        ob = Obligation(ctx, "c08_e2_largest_first_by_%s" % mode, "0..%d offered UTxOs, quantities / running totals / per-input fees over all u64, every ordering and tie pattern; collaborators arbitrary" % nmax,
                        ["TransactionBuilder::cip2_largest_first_by"], fallback_native="e2n_c08_largest_first")
        agg = Engine(P)
        for n in range(nmax + 1):
            E = Engine(P, max_loop=n + 3)
            VM.install(E)
            qs = [E.sym_int("q%d" % i, "u64") for i in range(n)]
            coins = [E.sym_int("coin%d" % i, "u64") for i in range(n)]
            it0, ot0 = E.sym_int("input_total", "u64"), E.sym_int("output_total", "u64")
            itc, otc = E.sym_int("input_total_coin", "u64"), E.sym_int("output_total_coin", "u64")
            fees = [E.sym_int("fee%d" % i, "u64") for i in range(n)]

            def mkval(coin, q, present_always):
                # lovelace mode: the quantity is the coin; asset mode: the quantity is the tracked asset (present iff positive)
                if mode == "lovelace":
                    return VM.mk_value(coin.t, (q.t, z3.BoolVal(False), None)) if False else VStruct("Value", [VM.bn(VInt(q.t, "u64")), VEnum("Option", "None", [])])
                return VM.mk_value(coin.t, (q.t, z3.BoolVal(False), None))

            def by(E_, c, args):
                tup = VM.deref(E_, args[1])
                v = VM.deref(E_, tup.fields[0]) if isinstance(tup, VStruct) and tup.name == "()" else tup
                coin, ma = VM.value_parts(E_, v)
                if mode == "lovelace":
                    return VEnum("Option", "Some", [VM.bn(VInt(coin, "u64"))])
                if ma is None:
                    return VEnum("Option", "None", [])
                q = ma[0]
                return VEnum("Option", "Some", [VM.bn(VInt(q, "u64"))]) if E_.choose([q > 0, q <= 0], "asset present") == 0 else VEnum("Option", "None", [])
            E.extra_intrinsics[r"^<F as Fn<\(&(utils::)?Value,\)>>::call$"] = by

            def fee_for_input(E_, c, args):
                u = VM.deref(E_, args[2])
                j = int(u.path[len("txin"):]) if isinstance(u, VLazy) and u.path.startswith("txin") else None
                if j is None:
                    raise Unsupported("fee_for_input on %r" % (u,))
                g = z3.Bool("fee_ok%d" % j)
                E_.trace.append(("fee", j))
                return VM.ok(VM.bn(VInt(fees[j].t, "u64"))) if E_.choose([g, z3.Not(g)], "fee_for_input") == 0 else VM.err("fee_for_input")
            E.extra_intrinsics[r"TransactionBuilder::fee_for_input$"] = fee_for_input

            def add_utxo(E_, c, args):
                u = VM.deref(E_, args[1])
                j = int(u.path[len("utxo"):]) if isinstance(u, VLazy) and u.path.startswith("utxo") else None
                if j is None:
                    # the utxo struct was materialised: recover the index from its input field
                    names = P.struct_fields["TransactionUnspentOutput"]
                    iv = u.fields[names.index("input")] if isinstance(u, VStruct) else None
                    j = int(iv.path[len("txin"):]) if isinstance(iv, VLazy) and iv.path.startswith("txin") else None
                if j is None:
                    raise Unsupported("add_regular_utxo on %r" % (u,))
                g = z3.Bool("add_ok%d" % j)
                if E_.choose([g, z3.Not(g)], "add_regular_utxo") == 1:
                    return VM.err("add_regular_utxo")
                E_.trace.append(("add", j))
                return VM.ok(UNIT)
            E.extra_intrinsics[r"TxInputsBuilder::add_regular_utxo$"] = add_utxo

            def mk(n=n, E=E):
                utxos = []
                for i in range(n):
                    out = E.mk_struct("TransactionOutput", address=VLazy("addr%d" % i, "Address"), amount=mkval(coins[i], qs[i], False))
                    utxos.append(R(E.mk_struct("TransactionUnspentOutput", input=VLazy("txin%d" % i, "TransactionInput"), output=out), "utxo%d" % i))
                tb = E.mk_struct("TransactionBuilder", inputs=VLazy("inputs", "TxInputsBuilder"))
                itv = mkval(itc, it0, True)
                otv = mkval(otc, ot0, True)
                if mode == "asset":
                    E.pc.append(ot0.t > 0)          # documented precondition: the asset is among the outputs
                return [R(tb, "self"), R(VSeq(utxos, "vec"), "available_inputs"), R(VSeq([VInt(i, "usize") for i in range(n)], "vec"), "available_indices"),
                        R(itv, "input_total"), R(otv, "output_total"), VStruct("{by}", [])]
            seen_all, seen_early, seen_insufficient = False, False, False
            for o in E.explore("TransactionBuilder::cip2_largest_first_by", mk, max_paths=3000):
                if o.kind != "return":
                    ob.vc("no panic (%s %s) with %d offered" % (o.kind, o.msg[:80], n), o.pc, z3.BoolVal(False)); continue
                E.enter(o)
                sel = [t[1] for t in o.trace if t[0] == "add"]
                tried = [t[1] for t in o.trace if t[0] == "fee"]
                what = "%s, %d offered, selected %s" % (mode, n, sel)
                if len(set(sel)) != len(sel) or any(j not in range(n) for j in sel):
                    ob.violation("%s: selected indices are not distinct offered indices" % what); continue
                rel = [(qs[j].t > 0) if mode == "asset" else z3.BoolVal(True) for j in range(n)]
                for j in sel:
                    ob.vc("%s: a selected UTxO is relevant" % what, o.pc, rel[j])
                for a, b in zip(sel, sel[1:]):
                    ob.vc("%s: added in non-increasing order of the quantity" % what, o.pc, qs[a].t >= qs[b].t)
                # running totals
                it, ot = it0.t, ot0.t
                cin, cout = itc.t, otc.t             # asset mode: the lovelace components ride along and may overflow on their own
                stops = []
                over = []
                for j in sel:
                    stops.append(it < ot)
                    it = it + qs[j].t
                    if mode == "lovelace":
                        ot = ot + fees[j].t
                    else:
                        cin, cout = cin + coins[j].t, cout + fees[j].t
                    over += [it > U64, ot > U64, cin > U64, cout > U64]
                for cnd in stops:
                    ob.vc("%s: nothing is added once the quantity is covered" % what, o.pc, cnd)
                collab_err = len(tried) > len(sel)        # fee_for_input / add_regular_utxo / an overflow refused the next one
                if o.value.variant == "Ok":
                    seen_all |= len(sel) == n
                    seen_early |= len(sel) < n
                elif not collab_err:
                    seen_insufficient = True
                if o.value.variant == "Ok":
                    ob.vc("%s: Ok => the running input total covers the target (incl. the fees of the added inputs)" % what, o.pc, it >= ot)
                    for k in range(n):
                        if k not in sel and sel:
                            ob.vc("%s: no skipped relevant UTxO is larger than an added one" % what, o.pc, z3.Implies(rel[k], qs[k].t <= qs[sel[-1]].t))
                    # totals handed back, remaining indices
                    c_it, p_it = VM.value_parts(E, VM.deref(E, o.args[3]))
                    c_ot, p_ot = VM.value_parts(E, VM.deref(E, o.args[4]))
                    got_it = c_it if mode == "lovelace" else (p_it[0] if p_it else z3.IntVal(0))
                    got_ot = c_ot if mode == "lovelace" else (p_ot[0] if p_ot else z3.IntVal(0))
                    ob.vc("%s: input total handed back = initial + added quantities" % what, o.pc, got_it == it)
                    ob.vc("%s: output total handed back = initial + fees of the added inputs" % what, o.pc, got_ot == ot)
                    left = VM.deref(E, o.args[2])
                    rest = sorted(E.concretize(x.t) for x in left.items)
                    if rest != sorted(set(range(n)) - set(sel)):
                        ob.violation("%s: available_indices afterwards %s, expected %s" % (what, rest, sorted(set(range(n)) - set(sel))))
                elif not collab_err:
                    # an Err the loop produced itself: insufficiency (or overflow of a running total)
                    overflow = z3.Or(over) if over else z3.BoolVal(False)
                    ob.vc("%s: insufficiency is reported only after every relevant UTxO was added and the target is still not met" % what, o.pc,
                          z3.Or(overflow, z3.And(it < ot, z3.And([z3.Or(z3.Not(rel[k]), z3.BoolVal(k in sel)) for k in range(n)]) if n else z3.BoolVal(True))))
            if not seen_all or (n >= 1 and not (seen_early and seen_insufficient)):
                ob.fail("%s with %d offered: expected paths missing (all selected %s, early stop %s, insufficiency %s)" % (mode, n, seen_all, seen_early, seen_insufficient))
            agg.stats["paths"] += E.stats["paths"]; agg.stats["feasibility_queries"] += E.stats["feasibility_queries"]; agg.stats["functions"] |= E.stats["functions"]
        ob.cross_every = 6
        ob.finish(agg, lambda m, info=None: ("e2n_c08_largest_first", []))
