"""C10: redeemer pointers identify the item they were attached to — E2 obligations at sub-builder level.

Each sub-builder stores its items in a container whose ITERATION ORDER is the order the body is emitted in:
  mint (BTreeMap keyed by policy id: sorted), inputs (BTreeMap keyed by outpoint: sorted), certificates (insertion order =
  certificate sequence), votes (BTreeMap keyed by voter), proposals (BTreeMap).
The containers are abstract sequences in that order; the obligation is that every Plutus item gets the index of ITS OWN
position among ALL items of that purpose (script or not), with the right tag, and non-script items get none.
Withdrawals are different: the builder keeps them in insertion order (LinkedHashMap) while the ledger indexes reward
redeemers by the reward account's rank in its sorted withdrawals map; the obligation there is index == rank under the
ledger's key order (network id, script credentials before key credentials, credential hash) for EVERY insertion order.
"""
import itertools
import z3
from engine import *
from prove import Obligation
import valuemodel as VM


def R(v, name="tmp"):
    return VRef(Cell(v, name))

def opt(x):
    return VEnum("Option", "Some", [x]) if x is not None else VEnum("Option", "None", [])


def install_clone_recorders(E):
    def cw(E_, c, args):
        w = VM.deref(E_, args[0])
        E_.trace.append(("witness_clone", w.path if isinstance(w, VLazy) else repr(w), VM.deref(E_, args[1]).fields[0].t, VM.deref(E_, args[2])))
        return VLazy("cloned_" + (w.path if isinstance(w, VLazy) else "w"), "PlutusWitness")
    def cr(E_, c, args):
        r = VM.deref(E_, args[0])
        E_.trace.append(("redeemer_clone", r.path if isinstance(r, VLazy) else repr(r), VM.deref(E_, args[1]).fields[0].t, VM.deref(E_, args[2])))
        return VLazy("cloned_" + (r.path if isinstance(r, VLazy) else "r"), "Redeemer")
    E.extra_intrinsics[r"PlutusWitness::clone_with_redeemer_index_and_tag$"] = cw
    E.extra_intrinsics[r"Redeemer::clone_with_index_and_tag$"] = cr
    E.extra_intrinsics[r"PlutusWitnesses::new$"] = lambda E_, c, a: VSeq([], "vec")
    E.extra_intrinsics[r"PlutusWitnesses::add$"] = lambda E_, c, a: (E_.read_ref(a[0]).items.append(VM.deref(E_, a[1])), UNIT)[1]
    E.extra_intrinsics[r"PlutusWitness::new_with_ref_without_datum$"] = lambda E_, c, a: VLazy("pw", "PlutusWitness")


def tag_name(t):
    # RedeemerTag(RedeemerTagKind::X)
    return t.fields[0].variant if isinstance(t, VStruct) and t.fields and isinstance(t.fields[0], VEnum) else repr(t)


def check_positions(ob, o, kinds, kind_prefix, expect_tag, what, rec="witness_clone"):
    """kinds: list of 'P' (plutus) / other. Items are lazies named <kind_prefix><j>."""
    clones = [t for t in o.trace if t[0] == rec]
    want = [j for j, k in enumerate(kinds) if k == "P"]
    if len(clones) != len(want):
        ob.violation("%s %s: %d redeemers for %d Plutus items" % (what, "".join(kinds), len(clones), len(want)))
        return
    for t in clones:
        name = t[1]
        j = int(name[len(kind_prefix):].split(".")[0]) if name.startswith(kind_prefix) else None
        if j is None or kinds[j] != "P":
            ob.violation("%s %s: redeemer attached to a non-Plutus item (%s)" % (what, "".join(kinds), name)); continue
        ob.vc("%s %s: redeemer of item %d points at position %d" % (what, "".join(kinds), j, j), o.pc, t[2] == j)
        if tag_name(t[3]) != expect_tag:
            ob.violation("%s: tag %s, expected %s" % (what, tag_name(t[3]), expect_tag))
    idx = [t[2] for t in clones]
    if len(idx) > 1:
        ob.vc("%s %s: no two script uses share a pointer" % (what, "".join(kinds)), o.pc, z3.Distinct(*idx))


def obligations(ctx):
    P = ctx.P
    maxn = 3 if ctx.tier == "quick" else 4
    patterns = [p for n in range(1, maxn + 1) for p in itertools.product("PN", repeat=n)]

    # ------------------------------------------------------------------ mint
    ob = Obligation(ctx, "c10_e2_mint_redeemer_index", "1-%d policies in sorted-map order, every Plutus/native pattern" % maxn,
                    ["MintBuilder::get_plutus_witnesses", "MintBuilder::get_redeemers"])
    agg = Engine(P)
    for pat in patterns:
        for fn, rec in (("MintBuilder::get_plutus_witnesses", "redeemer_clone"), ("MintBuilder::get_redeemers", "redeemer_clone")):
            E = Engine(P, max_loop=len(pat) + 3)
            install_clone_recorders(E)
            def mk(pat=pat, E=E):
                items = []
                for j, k in enumerate(pat):
                    if k == "P":
                        sm = VEnum("ScriptMint", "Plutus", [E.mk_struct("PlutusMints", script=VLazy("script%d" % j, "PlutusScriptSourceEnum"), redeemer=VLazy("item%d" % j, "Redeemer"), mints=VLazy("m%d" % j, "BTreeMap<AssetName, Int>"))])
                    else:
                        sm = VEnum("ScriptMint", "Native", [VLazy("native%d" % j, "NativeMints")])
                    items.append(VStruct("()", [VLazy("policy%d" % j, "ScriptHash"), sm]))
                return [R(E.mk_struct("MintBuilder", mints=VSeq(items, "map")), "self")]
            for o in E.explore(fn, mk):
                if o.kind != "return":
                    ob.vc("no panic in %s (%s %s)" % (fn, o.kind, o.msg), o.pc, z3.BoolVal(False)); continue
                if fn.endswith("get_redeemers") and o.value.variant != "Ok":
                    ob.vc("get_redeemers errs", o.pc, z3.BoolVal(False)); continue
                check_positions(ob, o, list(pat), "item", "Mint", fn.split("::")[-1], rec)
            agg.stats["paths"] += E.stats["paths"]; agg.stats["feasibility_queries"] += E.stats["feasibility_queries"]; agg.stats["functions"] |= E.stats["functions"]
    ob.finish(agg, lambda m, info=None: ("e2n_c10_pointers", []))

    # ------------------------------------------------------------------ certificates, withdrawals, votes: index = position in the emitted order
    cases = [
        ("certs", "CertificatesBuilder", "certs", "Cert", lambda E, j, w: VStruct("()", [VLazy("cert%d" % j, "Certificate"), w])),
        ("votes", "VotingBuilder", "votes", "Vote", lambda E, j, w: VStruct("()", [VLazy("voter%d" % j, "Voter"), E.mk_struct("VoterVotes", script_witness=w, votes=VLazy("vv%d" % j, "BTreeMap<GovernanceActionId, VotingProcedure>"))])),
        ("proposals", "VotingProposalBuilder", "proposals", "VotingProposal", lambda E, j, w: VStruct("()", [VLazy("proposal%d" % j, "VotingProposal"), w])),
    ]
    for name, struct, fld, tag, mkitem in cases:
        ob = Obligation(ctx, "c10_e2_%s_redeemer_index" % name, "1-%d items in emitted order, every Plutus / native-script / key pattern" % maxn, ["%s::get_plutus_witnesses" % struct])
        agg = Engine(P)
        for pat in [p for n in range(1, maxn + 1) for p in itertools.product("PNK", repeat=n)]:
            E = Engine(P, max_loop=len(pat) + 3)
            install_clone_recorders(E)
            def mk(pat=pat, E=E):
                items = []
                for j, k in enumerate(pat):
                    w = opt(VEnum("ScriptWitnessType", "PlutusScriptWitness", [VLazy("item%d" % j, "PlutusWitness")])) if k == "P" else \
                        (opt(VEnum("ScriptWitnessType", "NativeScriptWitness", [VLazy("ns%d" % j, "NativeScriptSourceEnum")])) if k == "N" else opt(None))
                    items.append(mkitem(E, j, w))
                return [R(E.mk_struct(struct, **{fld: VSeq(items, "map")}), "self")]
            for o in E.explore("%s::get_plutus_witnesses" % struct, mk):
                if o.kind != "return":
                    ob.vc("no panic (%s %s)" % (o.kind, o.msg), o.pc, z3.BoolVal(False)); continue
                check_positions(ob, o, list(pat), "item", tag, name)
            agg.stats["paths"] += E.stats["paths"]; agg.stats["feasibility_queries"] += E.stats["feasibility_queries"]; agg.stats["functions"] |= E.stats["functions"]
        ob.finish(agg, lambda m, info=None: ("e2n_c10_pointers", []))

    # ------------------------------------------------------------------ the body emits certificates / proposals in the order the indices count
    ob = Obligation(ctx, "c10_e2_emitted_order_is_indexing_order", "1-%d certificates / proposals; build() hands the items to the set-typed collection in the container's iteration order (the order get_plutus_witnesses counts)" % maxn,
                    ["CertificatesBuilder::build", "VotingProposalBuilder::build"])
    agg = Engine(P)
    for struct, fld, ety, coll in (("CertificatesBuilder", "certs", "Certificate", "Certificates"), ("VotingProposalBuilder", "proposals", "VotingProposal", "VotingProposals")):
        for n in range(1, maxn + 1):
            E = Engine(P, max_loop=n + 3)
            def fv(E_, c, a):
                v = VM.deref(E_, a[0])
                E_.trace.append(("emitted", [VM.deref(E_, x).path if isinstance(VM.deref(E_, x), VLazy) else repr(VM.deref(E_, x)) for x in v.items]))
                return VLazy("collection", coll)
            E.extra_intrinsics[r"%s::from_vec$" % coll] = fv
            def mk(E=E, n=n, struct=struct, fld=fld, ety=ety):
                return [R(E.mk_struct(struct, **{fld: VSeq([VStruct("()", [VLazy("item%d" % j, ety), VLazy("wit%d" % j, "Option<ScriptWitnessType>")]) for j in range(n)], "map")}), "self")]
            try:
                outs = E.explore("%s::build" % struct, mk, max_paths=50)
            except Unsupported as e:
                ob.fail("%s::build cannot be executed (%s)" % (struct, str(e)[:160])); continue
            for o in outs:
                if o.kind != "return":
                    ob.vc("no panic in %s::build (%s %s)" % (struct, o.kind, o.msg[:60]), o.pc, z3.BoolVal(False)); continue
                em = [t[1] for t in o.trace if t[0] == "emitted"]
                if len(em) != 1 or em[0] != ["item%d" % j for j in range(n)]:
                    ob.violation("%s::build hands on %s, the redeemer indices count the order %s" % (struct, em, ["item%d" % j for j in range(n)]))
            agg.stats["paths"] += E.stats["paths"]; agg.stats["functions"] |= E.stats["functions"]
    ob.finish(agg, lambda m, info=None: ("e2n_c10_pointers", []))

    # ------------------------------------------------------------------ spending inputs: index = position in the sorted input set
    ob = Obligation(ctx, "c10_e2_spend_redeemer_index", "1-%d inputs in sorted-set order, every Plutus / native-script / key pattern, at most one key input with a stale Plutus witness entry; script inputs registered under one or two script hashes" % maxn,
                    ["TxInputsBuilder::get_plutus_input_scripts"])
    agg = Engine(P)
    # S = an input that is key-locked NOW (no script hash stored with it) while a Plutus witness registered for it earlier is
    # still in required_witnesses.scripts: reachable by adding the same outpoint first as a script input and then again as a
    # key input (the input entry is overwritten, the witness entry is not). It must get no redeemer.
    for pat in [p for n in range(1, maxn + 1) for p in itertools.product("PNKS", repeat=n) if p.count("S") <= 1]:
        E = Engine(P, max_loop=len(pat) + 4)
        install_clone_recorders(E)
        E.extra_intrinsics[r"PlutusWitnesses::len$"] = lambda E_, c, a: VInt(len(VM.deref(E_, a[0]).items), "usize")
        def mk(pat=pat, E=E):
            inputs, by_hash = [], {}
            for j, k in enumerate(pat):
                tbi = E.mk_struct("TxBuilderInput", input=VLazy("txin%d" % j, "TransactionInput"), amount=VLazy("amt%d" % j, "utils::Value"))
                inputs.append(VStruct("()", [VLazy("txin%d" % j, "TransactionInput"), VStruct("()", [tbi, opt(VLazy("sh%d" % (j % 2), "ScriptHash")) if k in "PN" else opt(None)])]))
                if k != "K":
                    w = opt(VEnum("ScriptWitnessType", "PlutusScriptWitness", [VLazy(("item%d" if k == "P" else "stale%d") % j, "PlutusWitness")])) if k in "PS" else \
                        opt(VEnum("ScriptWitnessType", "NativeScriptWitness", [VLazy("ns%d" % j, "NativeScriptSourceEnum")]))
                    by_hash.setdefault(j % 2, []).append(VStruct("()", [VLazy("txin%d" % j, "TransactionInput"), w]))
            scripts = VSeq([VStruct("()", [VLazy("sh%d" % h, "ScriptHash"), VSeq(v, "map")]) for h, v in sorted(by_hash.items(), reverse=True)], "map")
            rw = E.mk_struct("InputsRequiredWitness", scripts=scripts)
            return [R(E.mk_struct("TxInputsBuilder", inputs=VSeq(inputs, "map"), required_witnesses=rw), "self")]
        for o in E.explore("TxInputsBuilder::get_plutus_input_scripts", mk):
            if o.kind != "return":
                ob.vc("no panic (%s %s)" % (o.kind, o.msg), o.pc, z3.BoolVal(False)); continue
            check_positions(ob, o, list(pat), "item", "Spend", "inputs")
        agg.stats["paths"] += E.stats["paths"]; agg.stats["feasibility_queries"] += E.stats["feasibility_queries"]; agg.stats["functions"] |= E.stats["functions"]
    ob.finish(agg, lambda m, info=None: ("e2n_c10_pointers", []))


    # ------------------------------------------------------------------ withdrawals: index = rank of the reward account in ledger key order
    ob = Obligation(ctx, "c10_e2_withdrawals_redeemer_index", "1-%d withdrawals in arbitrary insertion order (every strict total order of the accounts is a solver-explored branch), every Plutus / native-script / key pattern" % maxn,
                    ["WithdrawalsBuilder::get_plutus_witnesses"])
    agg = Engine(P)
    U = agg.U
    lt = z3.Function("ledger_lt", U, U, z3.BoolSort())
    for pat in [p for n in range(1, maxn + 1) for p in itertools.product("PNK", repeat=n)]:
        E = Engine(P, max_loop=len(pat) * len(pat) + 4)
        E.U = U
        install_clone_recorders(E)
        E.extra_intrinsics[r"(^|::)ledger_order_less$"] = lambda E_, c, a: VBool(lt(E_.as_u(VM.deref(E_, a[0])), E_.as_u(VM.deref(E_, a[1]))))
        cell = {}
        def mk(pat=pat, E=E, cell=cell):
            items, us = [], []
            for j, k in enumerate(pat):
                w = opt(VEnum("ScriptWitnessType", "PlutusScriptWitness", [VLazy("item%d" % j, "PlutusWitness")])) if k == "P" else \
                    (opt(VEnum("ScriptWitnessType", "NativeScriptWitness", [VLazy("ns%d" % j, "NativeScriptSourceEnum")])) if k == "N" else opt(None))
                acct = VLazy("acct%d" % j, "RewardAddress")
                us.append(E.as_u(acct))
                items.append(VStruct("()", [acct, VStruct("()", [VLazy("coin%d" % j, "BigNum"), w])]))
            # map keys are pairwise distinct accounts; ledger_lt is a strict total order on them
            n = len(us)
            for a in range(n):
                E.pc.append(z3.Not(lt(us[a], us[a])))
                for b in range(n):
                    if a < b:
                        E.pc.append(us[a] != us[b])
                        E.pc.append(z3.Xor(lt(us[a], us[b]), lt(us[b], us[a])))
                    for c_ in range(n):
                        if len({a, b, c_}) == 3:
                            E.pc.append(z3.Implies(z3.And(lt(us[a], us[b]), lt(us[b], us[c_])), lt(us[a], us[c_])))
            cell["us"] = us
            return [R(E.mk_struct("WithdrawalsBuilder", withdrawals=VSeq(items, "map")), "self")]
        for o in E.explore("WithdrawalsBuilder::get_plutus_witnesses", mk, max_paths=400):
            if o.kind != "return":
                ob.vc("no panic (%s %s)" % (o.kind, o.msg), o.pc, z3.BoolVal(False)); continue
            us = cell["us"]
            clones = [t for t in o.trace if t[0] == "witness_clone"]
            want = [j for j, k in enumerate(pat) if k == "P"]
            if len(clones) != len(want):
                ob.violation("withdrawals %s: %d redeemers for %d Plutus items" % ("".join(pat), len(clones), len(want))); continue
            for t in clones:
                j = int(t[1][len("item"):].split(".")[0]) if t[1].startswith("item") else None
                if j is None or pat[j] != "P":
                    ob.violation("withdrawals %s: redeemer attached to a non-Plutus item (%s)" % ("".join(pat), t[1])); continue
                rank = z3.Sum([z3.If(lt(us[i], us[j]), 1, 0) for i in range(len(us))]) if len(us) > 1 else z3.IntVal(0)
                ob.vc("withdrawals %s: redeemer of account %d carries the account's rank in ledger order" % ("".join(pat), j), o.pc, t[2] == rank)
                if tag_name(t[3]) != "Reward":
                    ob.violation("withdrawals: tag %s, expected Reward" % tag_name(t[3]))
            if len(clones) > 1:
                ob.vc("withdrawals %s: no two script uses share a pointer" % "".join(pat), o.pc, z3.Distinct(*[t[2] for t in clones]))
        agg.stats["paths"] += E.stats["paths"]; agg.stats["feasibility_queries"] += E.stats["feasibility_queries"]; agg.stats["functions"] |= E.stats["functions"]
    ob.finish(agg, lambda m, info=None: ("e2n_c10_pointers", []))

    # ------------------------------------------------------------------ withdrawals: the emitted map is in the same (ledger) order, so index == position in the body
    ob = Obligation(ctx, "c10_e2_withdrawals_emitted_in_ledger_order", "1-%d withdrawals in arbitrary insertion order" % maxn, ["WithdrawalsBuilder::build"])
    agg = Engine(P)
    for n in range(1, maxn + 1):
        E = Engine(P, max_loop=n * n + 6)
        E.U = U
        E.extra_intrinsics[r"(^|::)ledger_order_less$"] = lambda E_, c, a: VBool(lt(E_.as_u(VM.deref(E_, a[0])), E_.as_u(VM.deref(E_, a[1]))))
        cell = {}
        def mk(n=n, E=E, cell=cell):
            items, us = [], []
            for j in range(n):
                acct = VLazy("acct%d" % j, "RewardAddress")
                us.append(E.as_u(acct))
                items.append(VStruct("()", [acct, VStruct("()", [VLazy("coin%d" % j, "BigNum"), opt(None)])]))
            for a in range(n):
                E.pc.append(z3.Not(lt(us[a], us[a])))
                for b in range(n):
                    if a < b:
                        E.pc.append(us[a] != us[b])
                        E.pc.append(z3.Xor(lt(us[a], us[b]), lt(us[b], us[a])))
                    for c_ in range(n):
                        if len({a, b, c_}) == 3:
                            E.pc.append(z3.Implies(z3.And(lt(us[a], us[b]), lt(us[b], us[c_])), lt(us[a], us[c_])))
            cell["us"] = us
            return [R(E.mk_struct("WithdrawalsBuilder", withdrawals=VSeq(items, "map")), "self")]
        npaths = 0
        for o in E.explore("WithdrawalsBuilder::build", mk, max_paths=400):
            if o.kind != "return":
                ob.vc("no panic (%s %s)" % (o.kind, o.msg), o.pc, z3.BoolVal(False)); continue
            npaths += 1
            E.enter(o)
            seq = o.value.fields[0] if isinstance(o.value, (VStruct, VEnum)) and o.value.fields else None
            seq = VM.deref(E, seq) if seq is not None else None
            if not isinstance(seq, VSeq) or len(seq.items) != n:
                ob.violation("build(): %d withdrawals emitted for %d added" % (len(seq.items) if isinstance(seq, VSeq) else -1, n)); continue
            names = []
            for it in seq.items:
                k_, v_ = it.fields[0], it.fields[1]
                names.append((k_.path if isinstance(k_, VLazy) else repr(k_), v_.path if isinstance(v_, VLazy) else repr(v_)))
            if sorted(names) != sorted(("acct%d" % j, "coin%d" % j) for j in range(n)):
                ob.violation("build(): emitted entries %s are not the added (account, coin) pairs" % names); continue
            us = cell["us"]
            order = [int(a[len("acct"):]) for a, _ in names]
            if n > 1:
                ob.vc("build(): %d withdrawals emitted in ledger key order (%s)" % (n, order), o.pc, z3.And([lt(us[order[i]], us[order[i + 1]]) for i in range(n - 1)]))
        if npaths < [1, 1, 2, 6, 24][n]:
            ob.fail("build() with %d withdrawals: only %d orderings explored" % (n, npaths))
        agg.stats["paths"] += E.stats["paths"]; agg.stats["feasibility_queries"] += E.stats["feasibility_queries"]; agg.stats["functions"] |= E.stats["functions"]
    ob.finish(agg, lambda m, info=None: ("e2n_c10_pointers", []))

    # ------------------------------------------------------------------ the order itself: network id, script before key, credential hash
    ob = Obligation(ctx, "c10_e2_reward_account_ledger_order", "two arbitrary reward accounts (network ids over all u8, both credential kinds, arbitrary hashes)", ["withdrawals_builder::ledger_order_less"])
    E = Engine(P)
    blt = z3.Function("bytes_lt", E.U, E.U, z3.BoolSort())
    hashof = z3.Function("raw_bytes_of", E.U, E.U)
    E.extra_intrinsics[r"Credential::to_raw_bytes$"] = lambda E_, c, a: VOpaque("raw", [], hashof(E_.as_u(VM.deref(E_, a[0]))))
    E.extra_intrinsics[r"^<std::vec::Vec<u8> as (std::cmp::)?PartialOrd>::lt$"] = lambda E_, c, a: VBool(blt(E_.as_u(VM.deref(E_, a[0])), E_.as_u(VM.deref(E_, a[1]))))
    n_paths = 0
    for o in E.explore("ledger_order_less", lambda: [R(VLazy("a", "RewardAddress"), "a"), R(VLazy("b", "RewardAddress"), "b")], max_paths=64):
        if o.kind != "return":
            ob.vc("no panic (%s %s)" % (o.kind, o.msg), o.pc, z3.BoolVal(False)); continue
        n_paths += 1
        E.enter(o)
        names = P.struct_fields["RewardAddress"]
        fi_net, fi_cred = names.index("network"), names.index("payment")
        script_idx = P.enum_variants["CredType"].index("Script")
        def parts(x):
            # lazily initialised arguments: fields are named after their access path (engine.materialize / force_enum)
            net = z3.Int("%s.%d" % (x, fi_net))
            is_script = z3.Int("%s.%d.0#d" % (x, fi_cred)) == script_idx
            return net, is_script, hashof(E.as_u(VLazy("%s.%d" % (x, fi_cred), "Credential")))
        pa, pb = parts("a"), parts("b")
        spec = z3.If(pa[0] != pb[0], pa[0] < pb[0], z3.If(pa[1] != pb[1], pa[1], blt(pa[2], pb[2])))
        ob.vc("ledger order: network id, then script before key, then hash (path %d)" % n_paths, o.pc, o.value.t == spec)
    if n_paths < 5:
        ob.fail("only %d comparator paths explored (expected: network differs, 4 credential-kind combinations)" % n_paths)
    ob.finish(E)
