"""C11 (E2 part): Byron address attributes survive their CBOR form for EVERY attribute combination.

The attribute map of a Byron address (derivation payload present / absent, protocol magic present with any u32 value /
absent) is written by the real serializer — the magic as CBOR nested in a byte string — and read back by the real
deserializer over the token model: the decoded attributes equal the original ones field by field, in particular a magic
that is present stays present with the same value (network discrimination and the address bytes depend on it)."""
import re
import z3
from engine import *
from prove import Obligation
import cbormodel as CM
import valuemodel as VM


def R(v, name="tmp"):
    return VRef(Cell(v, name))


def obligations(ctx):
    P = ctx.P
    ob = Obligation(ctx, "c11_e2_byron_attributes_roundtrip", "derivation payload present / absent (arbitrary bytes), protocol magic absent or any u32", ["<Attributes as Serialize>::serialize", "<Attributes as Deserialize>::deserialize"],
                    fallback_native="e2n_c11_byron_attributes")
    agg = Engine(P)
    U = agg.U
    names = P.struct_fields["Attributes"]
    n = 0
    for has_dp in (False, True):
        for has_magic in (False, True):
            E = Engine(P, max_loop=6)
            CM.install(E, target="Attributes")
            E.U = U
            magic = E.sym_int("magic", "u32")
            def mk(E=E, has_dp=has_dp, has_magic=has_magic):
                E.pc.append(z3.And(magic.t >= 0, magic.t < (1 << 32)))
                kw = {"derivation_path": VEnum("Option", "Some", [VOpaque("payload", [], z3.Const("derivation_payload", U))]) if has_dp else VEnum("Option", "None", []),
                      "protocol_magic": VEnum("Option", "Some", [VInt(magic.t, "u32")]) if has_magic else VEnum("Option", "None", [])}
                return [R(E.mk_struct("Attributes", **kw), "self"), R(CM.VSer(), "ser")]
            for o in E.explore("<Attributes as cbor_event::se::Serialize>::serialize", mk, max_paths=20):
                what = "attributes with%s derivation payload, %s" % ("" if has_dp else "out", "magic present" if has_magic else "no magic")
                if o.kind != "return" or o.value.variant != "Ok":
                    ob.vc("%s: serializer returns Ok (%s %s)" % (what, o.kind, o.msg[:80]), o.pc, z3.BoolVal(False)); continue
                E.enter(o)
                toks = list(VM.deref(E, o.args[1]).tokens)
                if CM.item_end(toks, 0) != len(toks):
                    ob.violation("%s: emitted tokens are not one well-formed item" % what); continue
                D = Engine(P, max_loop=6)
                CM.install(D, target="Attributes")
                D.U = U
                D.base = list(o.pc)
                D.nested_cbor = dict(E.__dict__.get("nested_cbor", {}))
                douts = D.explore("<Attributes as cbor_event::de::Deserialize>::deserialize", lambda toks=toks: [R(CM.VDe(list(toks)), "reader")], max_paths=20)
                good = [d for d in douts if d.kind == "return" and d.value.variant == "Ok"]
                bad = [d for d in douts if not (d.kind == "return" and d.value.variant == "Ok")]
                for d in bad:
                    ob.vc("%s: the library's own encoding decodes (%s %s)" % (what, d.kind, d.msg[:60]), d.pc, z3.BoolVal(False))
                for d in good:
                    n += 1
                    D.enter(d)
                    v = d.value.fields[0]
                    dp, pm = VM.deref(D, v.fields[names.index("derivation_path")]), VM.deref(D, v.fields[names.index("protocol_magic")])
                    if (dp.variant == "Some") != has_dp:
                        ob.violation("%s: derivation payload present after decoding: %s" % (what, dp.variant == "Some"))
                    elif has_dp:
                        ob.vc("%s: the derivation payload is unchanged" % what, d.pc, D.as_u(dp.fields[0]) == z3.Const("derivation_payload", U))
                    if has_magic:
                        ob.vc("%s: the protocol magic is still present after decoding" % what, d.pc, z3.BoolVal(pm.variant == "Some"))
                        if pm.variant == "Some":
                            ob.vc("%s: the protocol magic is unchanged" % what, d.pc, pm.fields[0].t == magic.t)
                    elif pm.variant == "Some":
                        ob.violation("%s: decoding invents a protocol magic" % what)
                agg.stats["paths"] += D.stats["paths"]; agg.stats["functions"] |= D.stats["functions"]
            agg.stats["paths"] += E.stats["paths"]; agg.stats["feasibility_queries"] += E.stats["feasibility_queries"]; agg.stats["functions"] |= E.stats["functions"]
    if n < 4:
        ob.fail("only %d of 4 attribute combinations round-tripped" % n)
    def nat(m, info=None):
        magic = int(m.eval(z3.Int("magic"), model_completion=True).as_long()) if m is not None else 1097911063     # structural violations carry no model: testnet magic
        return "e2n_c11_byron_attributes", [[b for b in magic.to_bytes(4, "little")]]
    ob.finish(agg, nat)
    varnat_decode(ctx)


def varnat_decode(ctx):
    """'the strict stand-alone parsers reject ... unterminated variable-length pointer fields': variable_nat_decode executed from MIR
    on every byte string of 0..3 bytes (quick; thorough: ..4): it answers None exactly when no byte with a clear high bit ends the
    number, and otherwise the number its 7-bit groups spell (big-endian) with the count of bytes it read."""
    P = ctx.P
    ob = Obligation(ctx, "c11_e2_variable_nat_decode", "every byte string of 0..%d bytes" % (4 if ctx.tier == "thorough" else 3), ["variable_nat_decode"], fallback_native="e2n_c11_varnat")
    agg = Engine(P)
    cands = [d for d in P.fns if re.search(r"(^|::)variable_nat_decode$", d)]
    if not cands:
        ob.fail("variable_nat_decode not found in the MIR"); ob.finish(agg); return
    nret = 0
    for n in range(0, (5 if ctx.tier == "thorough" else 4)):
        E = Engine(P, max_loop=n + 2)
        E.U = agg.U
        bs = [E.sym_int("byte%d" % i, "u8") for i in range(n)]
        def mk(E=E, bs=bs):
            for b in bs:
                E.pc.append(z3.And(b.t >= 0, b.t <= 255))
            return [R(VSeq([VInt(b.t, "u8") for b in bs], "vec"), "bytes")]
        try:
            outs = E.explore(cands[0], mk, max_paths=500)
        except Unsupported as e:
            ob.fail("%d bytes: cannot be executed (%s)" % (n, str(e)[:200])); continue
        for o in outs:
            if o.kind != "return":
                ob.vc("%d bytes: no panic (%s %s)" % (n, o.kind, o.msg[:60]), o.pc, z3.BoolVal(False), info=dict(n=n)); continue
            nret += 1
            # specification: first index k whose byte has a clear high bit terminates the number
            term = [z3.And([bs[j].t >= 128 for j in range(k)] + [bs[k].t < 128]) for k in range(n)]
            none_spec = z3.Not(z3.Or(term)) if term else z3.BoolVal(True)
            v = o.value
            if v.variant == "None":
                ob.vc("%d bytes: None is answered only for an unterminated number" % n, o.pc, none_spec, info=dict(n=n))
            else:
                val, cnt = VM.deref(E, v.fields[0]).fields[0].t, VM.deref(E, v.fields[0]).fields[1].t
                cases = []
                for k in range(n):
                    num = z3.IntVal(0)
                    for j in range(k + 1):
                        num = num * 128 + (bs[j].t % 128)
                    cases.append(z3.And(term[k], cnt == k + 1, val == num))
                ob.vc("%d bytes: Some((value, read)) is the number spelled by the 7-bit groups up to the first terminating byte" % n, o.pc, z3.Or(cases) if cases else z3.BoolVal(False), info=dict(n=n))
        agg.stats["paths"] += E.stats["paths"]; agg.stats["feasibility_queries"] += E.stats["feasibility_queries"]; agg.stats["functions"] |= E.stats["functions"]
    if nret == 0:
        ob.fail("no returning path")
    def nat(m, info=None):
        n = (info or {}).get("n", 0)
        bs_ = [m.eval(z3.Int("byte%d" % i), model_completion=True).as_long() if m is not None else 0x83 for i in range(n)]
        return "e2n_c11_varnat", [[len(bs_)]] + [[b] for b in bs_]
    ob.finish(agg, nat)
