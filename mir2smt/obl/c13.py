"""C13 (send-all batches) — what E2 reaches: the arithmetic size model of batch_tools::cbor_calculator never under-estimates a CBOR
head, and the proposal-extension step that tops a transaction up with pure-ADA UTxOs only returns a proposal whose LAST measured
size respects max_tx_size.  The grouping logic as a whole (every UTxO spent exactly once, balance per transaction) is hash-container
code over whole transactions and is outside the engine's reach."""
import z3
from engine import *
from prove import Obligation, mval, le_bytes
import valuemodel as VM

U64 = (1 << 64) - 1


def R(v, name="tmp"):
    return VRef(Cell(v, name))

def opt(x):
    return VEnum("Option", "Some", [x]) if x is not None else VEnum("Option", "None", [])

def head(c):
    return z3.If(c < 24, 1, z3.If(c < 256, 2, z3.If(c < 65536, 3, z3.If(c < (1 << 32), 5, 9))))


def obligations(ctx):
    P = ctx.P
    # ------------------------------------------------------------------ size model kernels
    E = Engine(P)
    n = E.sym_int("n", "u64")
    ob = Obligation(ctx, "c13_e2_cbor_head_size_model", "count / coin / tag: all u64", ["CborCalculator::get_struct_size", "get_coin_size", "get_tag_size", "get_wrapped_struct_size", "get_value_struct_size", "get_bare_tx_size"],
                    fallback_native="e2n_c13_send_all")
    for fn, exp in (("CborCalculator::get_struct_size", head(n.t)), ("CborCalculator::get_tag_size", head(n.t)), ("CborCalculator::get_wrapped_struct_size", 3 + head(n.t))):
        for o in E.explore(fn, lambda: [n]):
            if o.kind != "return":
                ob.vc("no panic in %s" % fn, o.pc, z3.BoolVal(False)); continue
            ob.vc("%s(n) is the length of the CBOR head of n%s" % (fn, " plus the 3-byte tag 258" if "wrapped" in fn else ""), o.pc, o.value.t == exp)
    for o in E.explore("CborCalculator::get_coin_size", lambda: [R(VM.bn(n))]):
        if o.kind == "return":
            ob.vc("get_coin_size(c) is the length of the CBOR head of c", o.pc, o.value.t == head(n.t))
        else:
            ob.vc("no panic in get_coin_size", o.pc, z3.BoolVal(False))
    for b, exp in ((True, 0), (False, 1)):
        for o in E.explore("CborCalculator::get_value_struct_size", lambda: [VBool(b)]):
            if o.kind == "return":
                ob.vc("value struct overhead is %d for ada_only=%s" % (exp, b), o.pc, o.value.t == exp)
    for b, exp in ((True, 2), (False, 3)):
        for o in E.explore("CborCalculator::get_bare_tx_size", lambda: [VBool(b)]):
            if o.kind == "return":
                ob.vc("bare tx size: array(4) head + bool (+ null when no auxiliary data)", o.pc, o.value.t == exp)
    ob.finish(E)

    # ------------------------------------------------------------------ fixed points: estimate_output_cost / estimate_fee
    E = Engine(P, max_loop=6)
    used, size, cpb = E.sym_int("used_coins", "u64"), E.sym_int("output_size", "usize"), E.sym_int("coins_per_byte", "u64")
    E.assume(size.t >= 10); E.assume(size.t < (1 << 32))
    def mk():
        dc = E.call("DataCost::new_coins_per_byte", [R(VM.bn(cpb))])
        return [R(VM.bn(used)), size, R(dc)]
    ob = Obligation(ctx, "c13_e2_estimate_output_cost", "used coins, coins_per_byte: all u64; output size 10..2^32", ["CborCalculator::estimate_output_cost", "MinOutputAdaCalculator::calc_size_cost"])
    nok = 0
    for o in E.explore("CborCalculator::estimate_output_cost", mk):
        if o.kind != "return":
            # the subtraction `output_size - coin_size(used)` cannot underflow for size >= 10
            ob.vc("no panic (%s %s)" % (o.kind, o.msg), o.pc, z3.BoolVal(False)); continue
        if o.value.variant != "Ok":
            continue
        nok += 1
        cost, sz = o.value.fields[0].fields[0].fields[0].t, o.value.fields[0].fields[1].t
        ob.vc("returned cost is the min-ADA price of the returned size", o.pc, cost == cpb.t * (sz + 160))
        base = size.t - head(used.t)
        ob.vc("returned size accounts for the coin field of the output once it carries max(cost, used)", o.pc,
              sz >= base + head(z3.If(cost >= used.t, cost, used.t)))
    if nok == 0:
        ob.fail("no Ok path")
    ob.fallback_native = "e2n_c13_send_all"
    ob.finish(E)

    # ------------------------------------------------------------------ pure-ADA top-up respects the size limit on its LAST measurement
    E = Engine(P, max_loop=6)
    maxtx = E.sym_int("max_tx_size", "u32")
    sizes = [E.sym_int("measured_size_%d" % i, "usize") for i in range(3)]
    needs = [E.sym_int("need_ada_%d" % i, "u64") for i in range(4)]
    g = {n: z3.Bool(n) for n in ("has_next_ada_utxo", "outputs_empty", "used_utxos_empty", "by_amount_ok")}
    counters = {"size": 0, "need": 0}
    def smat(E_, c, args):
        i = E_.__dict__.setdefault("_c13_size", 0)
        E_._c13_size = i + 1
        E_.trace.append(("measure", sizes[i].t, E_.as_u(args[1])))
        return VEnum("Result", "Ok", [sizes[i]])
    def need(E_, c, args):
        i = E_.__dict__.setdefault("_c13_need", 0)
        E_._c13_need = i + 1
        return VEnum("Result", "Ok", [VM.bn(needs[i])])
    E.extra_intrinsics[r"AssetCategorizer::set_min_ada_for_tx$"] = smat
    E.extra_intrinsics[r"TxProposal::get_need_ada$"] = need
    E.extra_intrinsics[r"AssetCategorizer::get_next_pure_ada_utxo$"] = lambda E_, c, a: opt(R(VStruct("()", [VStruct("UtxoIndex", [VInt(0, "usize")]), VM.bn(E_.sym_int("utxo_coin", "u64"))]))) if E_.choose([g["has_next_ada_utxo"], z3.Not(g["has_next_ada_utxo"])], "next") == 0 else opt(None)
    E.extra_intrinsics[r"AssetCategorizer::get_next_pure_ada_utxo_by_amount$"] = lambda E_, c, a: VEnum("Result", "Ok", [VSeq([VStruct("()", [VStruct("UtxoIndex", [VInt(1, "usize")]), VM.bn(E_.sym_int("utxo_coin2", "u64"))])], "vec")]) if E_.choose([g["by_amount_ok"], z3.Not(g["by_amount_ok"])], "by amount") == 0 else VEnum("Result", "Err", [VOpaque("err")])
    E.extra_intrinsics[r"TxProposal::get_outputs$"] = lambda E_, c, a: R(VLazy("outputs", "std::vec::Vec<TxOutputProposal>"))
    def prop_mut(E_, c, a):
        p_ = VM.deref(E_, a[0])
        if isinstance(p_, VLazy):
            p_.version += 1
        if c.endswith("add_utxo"):
            u = VM.deref(E_, a[1])
            ad = VM.deref(E_, a[3])
            E_.trace.append(("add_utxo", E_.concretize(u.fields[0].t) if isinstance(u, VStruct) else repr(u), ad.path if isinstance(ad, VLazy) else repr(ad)))
            return VEnum("Result", "Ok", [UNIT])
        ad = VM.deref(E_, a[1])
        E_.trace.append(("new_output", ad.path if isinstance(ad, VLazy) else repr(ad)))
        return UNIT
    E.extra_intrinsics[r"TxProposal::(add_new_output|add_utxo)$"] = prop_mut
    E.extra_intrinsics[r"HashSet::<.*>::new$"] = lambda E_, c, a: VSeq([], "set")
    E.extra_intrinsics[r"HashSet::<.*>::insert$"] = lambda E_, c, a: (E_.read_ref(a[0]).items.append(a[1]), VBool(True))[1]
    E.extra_intrinsics[r"HashSet::<.*>::is_empty$"] = lambda E_, c, a: VBool(g["used_utxos_empty"]) if isinstance(VM.deref(E_, a[0]), VLazy) else VBool(len(VM.deref(E_, a[0]).items) == 0)
    E.extra_intrinsics[r"Vec::<.*TxOutputProposal>::is_empty$|<impl \[.*TxOutputProposal\]>::is_empty$"] = lambda E_, c, a: VBool(g["outputs_empty"])
    E.extra_intrinsics[r"TxProposalChanges::new$"] = lambda E_, c, a: (E_.trace.append(("changes", E_.as_u(a[0]))), E_.mk_struct("TxProposalChanges", tx_proposal=a[0]))[1]
    def addr_index(E_, c, a):
        if not isinstance(VM.deref(E_, a[0]), VLazy):
            return NotImplemented
        k = E_.concretize(VM.deref(E_, a[1]).t)
        return R(VLazy("address_of_utxo_%s" % k, "Address"))
    E.extra_intrinsics[r"Index<usize>>::index$"] = addr_index
    E.extra_intrinsics[r"as FromIterator<.*>>::from_iter|Iterator>::collect"] = lambda E_, c, a: VSeq(list(VM.deref(E_, a[0]).items), "vec") if isinstance(VM.deref(E_, a[0]), VSeq) else NotImplemented
    def mk():
        E._c13_size, E._c13_need = 0, 0
        cfg = E.mk_struct("TransactionBuilderConfig", max_tx_size=maxtx)
        me = E.mk_struct("AssetCategorizer", config=cfg, address=VLazy("target", "Address"), addresses=VLazy("addresses", "std::vec::Vec<Address>"))
        return [R(me, "self"), R(VLazy("proposal", "TxProposal"), "tx_proposal")]
    ob = Obligation(ctx, "c13_e2_ada_top_up_respects_max_tx_size", "every measured size: all usize; max_tx_size: all u32; ADA needs: all u64; availability of further UTxOs arbitrary", ["AssetCategorizer::try_append_pure_ada_utxo"],
                    fallback_native="e2n_c13_send_all")
    ob2 = Obligation(ctx, "c13_e2_pure_ada_extension_reports_what_it_adds", "as c13_e2_ada_top_up_respects_max_tx_size: first UTxO taken or not, further UTxOs by amount", ["AssetCategorizer::try_append_pure_ada_utxo"],
                     fallback_native="e2n_c13_spend_all")
    nsome, npure = 0, 0
    for o in E.explore("AssetCategorizer::try_append_pure_ada_utxo", mk):
        if o.kind != "return":
            continue
        v = o.value
        if v.variant == "Ok" and v.fields[0].variant == "Some":
            nsome += 1
            ms = [t for t in o.trace if t[0] == "measure"]
            if not ms:
                ob.violation("a proposal is returned without measuring its size"); continue
            ob.vc("a returned proposal's LAST measured size is within max_tx_size", o.pc, ms[-1][1] <= maxtx.t)
            # spend-once bookkeeping: the UTxOs reported as taken (they leave the free list) are exactly those added to the proposal
            ch = VM.deref(E, v.fields[0].fields[0])
            taken = VM.deref(E, ch.fields[P.struct_fields["TxProposalChanges"].index("ada_utxos")])
            added = sorted(t[1] for t in o.trace if t[0] == "add_utxo")
            if not isinstance(taken, VSeq):
                ob2.fail("ada_utxos of the returned changes is not a concrete list: %r" % (taken,))
            else:
                rep = sorted(E.concretize(VM.deref(E, x).fields[0].t) for x in taken.items)
                npure += 1
                if rep != added:
                    ob2.violation("pure-ADA extension: UTxOs %s are added to the proposal, UTxOs %s are reported as taken (and leave the free list)" % (added, rep))
                # pay only the target address: an output opened by the step is addressed to the target
                for t in o.trace:
                    if t[0] == "new_output" and t[1] != "target":
                        ob2.violation("pure-ADA extension: a new output is opened for %s instead of the target address" % t[1])
                # one signature per distinct owning key: every UTxO enters the witness count under ITS OWNER's address
                for t in o.trace:
                    if t[0] == "add_utxo" and t[2] != "address_of_utxo_%s" % t[1]:
                        ob2.violation("pure-ADA extension: UTxO %s is counted for the witnesses under %s instead of its owner's address" % (t[1], t[2]))
    if nsome == 0:
        ob.fail("no path returns a proposal")
    ob.finish(E)
    if npure == 0:
        ob2.fail("no path returns a proposal")
    ob2.finish(Engine(P))
    utxo_stat_totals(ctx)
    witness_size_tracking(ctx)
    build_loop(ctx)
    create_tx_inputs(ctx)
    extension_bookkeeping(ctx)


def utxo_stat_totals(ctx):
    """UtxosStat::new — the per-asset totals the size calculator works with are the SUMS over all UTxOs holding the asset (they
    decide the CBOR width reserved for each quantity in the max_value_size fit check), the per-policy asset counts and the
    policy count are those of the index, the ADA total is passed through; an overflowing sum is an error."""
    import itertools
    P = ctx.P
    ob = Obligation(ctx, "c13_e2_utxo_stat_totals", "1-2 assets held by 1-3 UTxOs each, amounts over all u64; 1-2 policies with 1-2 assets", ["UtxosStat::new"], fallback_native="e2n_c13_send_all")
    agg = Engine(P)
    U64 = (1 << 64) - 1
    for holders in ([1], [2], [3], [2, 1], [1, 3]):
        E = Engine(P, max_loop=max(holders) + len(holders) + 3)
        amt = {}
        def mk(E=E, holders=holders, amt=amt):
            amt.clear()
            amounts = []
            for i, h in enumerate(holders):
                ent = []
                for u in range(h):
                    v = E.sym_int("amount_%d_%d" % (i, u), "u64")
                    E.pc.append(z3.And(v.t >= 0, v.t <= U64))
                    amt[(i, u)] = v.t
                    ent.append(VStruct("()", [VStruct("UtxoIndex", [VInt(10 * i + u, "usize")]), VStruct("BigNum", [VInt(v.t, "u64")])]))
                amounts.append(VSeq(ent, "map"))
            pol = VSeq([VStruct("()", [VStruct("PolicyIndex", [VInt(0, "usize")]), VSeq([VStruct("AssetIndex", [VInt(i, "usize")]) for i in range(len(holders))], "set")])], "map")
            tot = E.sym_int("total_ada", "u64")
            return [R(VStruct("BigNum", [VInt(tot.t, "u64")]), "total_ada"), R(pol, "policy_to_asset"), R(VSeq(amounts, "vec"), "amounts")]
        nok = 0
        for o in E.explore("UtxosStat::new", mk, max_paths=200):
            what = "assets held by %s UTxOs" % holders
            if o.kind != "return":
                ob.vc("%s: no panic (%s %s)" % (what, o.kind, o.msg[:80]), o.pc, z3.BoolVal(False)); continue
            sums = [z3.Sum([amt[(i, u)] for u in range(h)]) for i, h in enumerate(holders)]
            if o.value.variant != "Ok":
                ob.vc("%s: an error only when a total exceeds u64" % what, o.pc, z3.Or([s_ > U64 for s_ in sums])); continue
            nok += 1
            E.enter(o)
            st = o.value.fields[0]
            names = P.struct_fields["UtxosStat"]
            cia = VM.deref(E, st.fields[names.index("coins_in_assets")])
            got = {}
            for it in cia.items:
                k = VM.deref(E, it.fields[0]); v = VM.deref(E, it.fields[1])
                got[E.concretize(k.fields[0].t)] = v.fields[0].t
            if sorted(got) != list(range(len(holders))):
                ob.violation("%s: totals recorded for assets %s" % (what, sorted(got))); continue
            for i in range(len(holders)):
                ob.vc("%s: the total of asset %d is the sum over its %d holders" % (what, i, holders[i]), o.pc, got[i] == sums[i])
            aip = VM.deref(E, st.fields[names.index("assets_in_policy")])
            if len(aip.items) != 1 or E.concretize(VM.deref(E, aip.items[0].fields[1]).t) != len(holders):
                ob.violation("%s: assets_in_policy is %r" % (what, aip.items))
            ob.vc("%s: policy count and ADA total are passed through" % what, o.pc, z3.And(VM.deref(E, st.fields[names.index("total_policies")]).t == 1,
                                                                                             VM.deref(E, st.fields[names.index("ada_coins")]).fields[0].t == z3.Int("total_ada")))
        if nok == 0:
            ob.fail("no Ok path for %s" % holders)
        agg.stats["paths"] += E.stats["paths"]; agg.stats["feasibility_queries"] += E.stats["feasibility_queries"]; agg.stats["functions"] |= E.stats["functions"]
    ob.finish(agg, lambda m, info=None: ("e2n_c13_send_all", []))


# ---------------------------------------------------------------- the running witness-set size is the size of the witness set
def witness_size_tracking(ctx):
    """One inductive step of WitnessesCalculator: from an arbitrary state whose tracked size is the CBOR size of a witness set
    with n key witnesses (n: all of 0..2^50) and an arbitrary bootstrap part,
        total == [a field in use] W(fields) + [n > 0](3 + head(n) + 101 n) + bootstrap part,
    add_vkey re-establishes it for n + 1 (the array header grows exactly when head(n + 1) > head(n): n = 23, 255, ...).
    W = the map header and keys, an uninterpreted function of which fields are in use; 101 = size of one mock key witness
    (its conformance is C06/C18's sized transaction); the wrapped-set header is executed (3 + head, see the kernel obligation)."""
    P = ctx.P
    ob = Obligation(ctx, "c13_e2_witness_size_tracks_key_count", "n key witnesses already counted: all of 0..2^50; bootstrap part arbitrary; fields in use: consistent with the counts",
                    ["WitnessesCalculator::add_vkey", "CborCalculator::get_wrapped_struct_size", "CborCalculator::get_fake_vkey_size"], fallback_native="e2n_c13_send_all")
    E = Engine(P)
    n = E.sym_int("n", "u64")
    B = E.sym_int("bootstrap_part", "usize")
    has_boot = z3.Bool("bootstraps_in_use")
    E.assume(n.t < (1 << 50)); E.assume(B.t < (1 << 40)); E.assume(z3.Implies(z3.Not(has_boot), B.t == 0))
    W = z3.Function("witness_set_header", z3.BoolSort(), z3.BoolSort(), z3.IntSort())
    for v_ in (True, False):
        for b_ in (True, False):
            E.assume(z3.And(W(z3.BoolVal(v_), z3.BoolVal(b_)) >= 1, W(z3.BoolVal(v_), z3.BoolVal(b_)) <= 20))
    E.assume(E.as_u(VEnum("WitnessSetNames", "Vkeys", [])) != E.as_u(VEnum("WitnessSetNames", "Bootstraps", [])))      # distinct unit variants
    def wsize(E_, c, args):
        s = VM.deref(E_, args[0])
        names = {x.variant for x in (VM.deref(E_, i) for i in s.items)}
        w = W(z3.BoolVal("Vkeys" in names), z3.BoolVal("Bootstraps" in names))
        E_.pc.append(z3.And(w >= 1, w <= 20))
        return VInt(w, "usize")
    E.extra_intrinsics[r"CborCalculator::get_witnesses_set_struct_size$"] = wsize
    def expected(k, v, b):
        return z3.If(z3.Or(v, b), W(v, b), 0) + z3.If(k > 0, 3 + head(k) + 101 * k, 0) + B.t      # no field in use: nothing counted yet
    def mk():
        some = E.choose([n.t > 0, n.t == 0], "keys counted")
        boot = E.choose([has_boot, z3.Not(has_boot)], "bootstraps in use")
        fields = ([VEnum("WitnessSetNames", "Vkeys", [])] if some == 0 else []) + ([VEnum("WitnessSetNames", "Bootstraps", [])] if boot == 0 else [])
        st = E.mk_struct("WitnessesCalculator", vkeys_count=n, boostrap_count=VLazy("boot_count", "u64"), used_fields=VSeq(fields, "hset"),
                         total_size=VInt(expected(n.t, z3.BoolVal(some == 0), z3.BoolVal(boot == 0)), "usize"))
        return [R(st, "self")]
    names = P.struct_fields["WitnessesCalculator"]
    nret = 0
    for o in E.explore("WitnessesCalculator::add_vkey", mk, max_paths=600):
        if o.kind != "return":
            ob.vc("no panic in add_vkey (%s %s)" % (o.kind, o.msg[:60]), o.pc, z3.BoolVal(False)); continue
        nret += 1
        E.enter(o)
        st = VM.deref(E, o.args[0])
        cnt = VM.deref(E, st.fields[names.index("vkeys_count")]).t
        tot = VM.deref(E, st.fields[names.index("total_size")]).t
        fl = {x.variant for x in (VM.deref(E, i) for i in VM.deref(E, st.fields[names.index("used_fields")]).items)}
        ob.vc("the count goes up by one and the key-witness field is in use", o.pc, z3.And(cnt == n.t + 1, z3.BoolVal("Vkeys" in fl)))
        ob.vc("tracked size == header + 3 + head(n+1) + 101 (n+1) + bootstrap part", o.pc, tot == expected(n.t + 1, z3.BoolVal(True), z3.BoolVal("Bootstraps" in fl)), info=dict())
    if nret < 2:
        ob.fail("expected paths with and without keys counted before, saw %d" % nret)
    ob.finish(E)


def build_loop(ctx):
    """'The transactions together spend every supplied UTxO': TxBatchBuilder::build is executed from MIR with the grouping state
    abstract.  The free-UTxO state changes only inside try_append_next_utxos (the one &mut self callee): has_assets / has_ada are
    uninterpreted predicates of a state version that advances at every such call.  Decided: build returns Ok only when the loop
    was left through its condition — neither asset-carrying nor pure-ADA UTxOs remain in the FINAL state —, every proposal that
    was closed is turned into exactly one transaction, in order, and nothing else is put into the batch."""
    P = ctx.P
    ob = Obligation(ctx, "c13_e2_build_returns_only_when_nothing_is_left", "0..3 proposals x 0..2 extensions each; every outcome of the extension step, of the min-ADA / last-ADA steps and of create_tx arbitrary; "
                    "remaining-UTxO predicates arbitrary functions of the grouping state", ["TxBatchBuilder::build"], fallback_native="e2n_c13_spend_all")
    E = Engine(P, max_loop=3)
    ha = z3.Function("has_assets_at", z3.IntSort(), z3.BoolSort())
    hd = z3.Function("has_ada_at", z3.IntSort(), z3.BoolSort())
    def ver(E_):
        return sum(1 for t in E_.trace if t[0] == "append")
    def has(fn):
        def f(E_, c, a):
            v = fn(z3.IntVal(ver(E_)))
            return VBool(z3.BoolVal(True)) if E_.choose([v, z3.Not(v)], "remaining") == 0 else VBool(z3.BoolVal(False))
        return f
    E.extra_intrinsics[r"AssetCategorizer::has_assets$"] = has(ha)
    E.extra_intrinsics[r"AssetCategorizer::has_ada$"] = has(hd)
    def append(E_, c, a):
        k = ver(E_)
        E_.trace.append(("append", k))
        r = E_.fresh("append_outcome")
        i = E_.choose([r == 0, r == 1, r == 2], "try_append_next_utxos")
        if i == 2:
            return VEnum("Result", "Err", [VOpaque("err:append")])
        if i == 1:
            return VEnum("Result", "Ok", [VEnum("Option", "None", [])])
        return VEnum("Result", "Ok", [VEnum("Option", "Some", [VLazy("proposal_v%d" % (k + 1), "TxProposal")])])
    E.extra_intrinsics[r"AssetCategorizer::try_append_next_utxos$"] = append
    def new_prop(E_, c, a):
        n = sum(1 for t in E_.trace if t[0] == "new")
        E_.trace.append(("new", n))
        return VLazy("empty_proposal_%d" % n, "TxProposal")
    E.extra_intrinsics[r"TxProposal::new$"] = new_prop
    def is_empty(E_, c, a):
        p = VM.deref(E_, a[0])
        if isinstance(p, VLazy) and p.path.startswith("empty_proposal"):
            return VBool(z3.BoolVal(True))
        e = E_.fresh("extended_proposal_is_empty", "bool")      # an extension step may (wrongly) hand back an empty proposal: arbitrary
        return VBool(z3.BoolVal(True)) if E_.choose([e, z3.Not(e)], "is_empty") == 0 else VBool(z3.BoolVal(False))
    E.extra_intrinsics[r"TxProposal::is_empty$"] = is_empty
    def step(tag):
        def f(E_, c, a):
            g = E_.fresh(tag + "_ok", "bool")
            if E_.choose([g, z3.Not(g)], tag) == 1:
                return VEnum("Result", "Err", [VOpaque("err:" + tag)])
            E_.trace.append((tag, VM.deref(E_, a[1] if tag == "set_min_ada" else a[0]).path))
            return VEnum("Result", "Ok", [UNIT if tag != "set_min_ada" else VInt(z3.IntVal(0), "usize")])
        return f
    E.extra_intrinsics[r"TxProposal::add_last_ada_to_last_output$"] = step("last_ada")
    E.extra_intrinsics[r"AssetCategorizer::set_min_ada_for_tx$"] = step("set_min_ada")
    def create(E_, c, a):
        p = VM.deref(E_, a[0])
        g = E_.fresh("create_ok", "bool")
        if E_.choose([g, z3.Not(g)], "create_tx") == 1:
            return VEnum("Result", "Err", [VOpaque("err:create")])
        E_.trace.append(("create", p.path if isinstance(p, VLazy) else repr(p)))
        return VEnum("Result", "Ok", [VLazy("tx_of_" + (p.path if isinstance(p, VLazy) else "?"), "Transaction")])
    E.extra_intrinsics[r"TxProposal::create_tx$"] = create
    def mk():
        me = E.mk_struct("TxBatchBuilder", asset_groups=VLazy("groups", "AssetCategorizer"), tx_proposals=VSeq([], "vec"))
        return [R(me, "self"), R(VLazy("utxos", "TransactionUnspentOutputs"), "utxos")]
    nok, sizes = 0, set()
    for o in E.explore("TxBatchBuilder::build", mk, max_paths=20000):
        if o.kind == "bound":
            continue
        if o.kind != "return":
            ob.vc("no panic in build (%s %s)" % (o.kind, o.msg[:80]), o.pc, z3.BoolVal(False)); continue
        if o.value.variant != "Ok":
            continue
        nok += 1
        E.enter(o)
        final = z3.IntVal(sum(1 for t in o.trace if t[0] == "append"))
        ob.vc("Ok => no asset-carrying and no pure-ADA UTxO remains in the final grouping state", o.pc, z3.And(z3.Not(ha(final)), z3.Not(hd(final))))
        closed = [t[1] for t in o.trace if t[0] == "set_min_ada"]
        created = [t[1] for t in o.trace if t[0] == "create"]
        sizes.add(len(created))
        if closed != created:
            ob.violation("proposals closed %s, transactions created from %s" % (closed, created))
        batch = VM.deref(E, o.value.fields[0])
        txs = VM.deref(E, batch.fields[P.struct_fields["TransactionBatch"].index("transactions")])
        got = [VM.deref(E, x).path if isinstance(VM.deref(E, x), VLazy) else repr(x) for x in txs.items]
        if got != ["tx_of_" + c for c in created]:
            ob.violation("the batch holds %s, created were %s" % (got, created))
        # every proposal that was closed is the LAST extension of its round (or the round's empty start)
        last = [t[1] for t in o.trace if t[0] == "last_ada"]
        if last != closed:
            ob.violation("leftover ADA added to %s, proposals closed %s" % (last, closed))
    if nok == 0 or not ({0, 1, 2} <= sizes):
        ob.fail("expected Ok outcomes with 0, 1 and 2 transactions, saw %s" % sorted(sizes))
    ob.finish(E)


def create_tx_inputs(ctx):
    """TxProposal::create_tx: the transaction's inputs are the supplied UTxOs at exactly the indices the proposal recorded as
    used — each once, nothing else —, its outputs are the proposal's outputs in order, its fee the proposal's fee."""
    P = ctx.P
    ob = Obligation(ctx, "c13_e2_create_tx_spends_the_recorded_utxos", "0..3 recorded UTxO indices (arbitrary, pairwise distinct), 0..2 output proposals; output construction arbitrary (may fail)",
                    ["TxProposal::create_tx"], fallback_native="e2n_c13_spend_all")
    agg = Engine(P)
    for nused in (0, 1, 2, 3):
        for nout in (0, 1, 2):
            E = Engine(P, max_loop=5)
            E.U = agg.U
            idx = [E.sym_int("used_index%d" % j, "usize") for j in range(nused)]
            for a in range(nused):
                for b in range(a):
                    E.assume(idx[a].t != idx[b].t)
            U = E.U
            utxo_input = z3.Function("input_of_supplied_utxo", z3.IntSort(), U)
            def index(E_, c, a):
                i = VM.deref(E_, a[1])
                base = VM.deref(E_, a[0])
                if isinstance(i, VInt) and isinstance(base, VLazy) and base.path.startswith("utxos"):
                    E_.trace.append(("index", i.t))
                    return R(E_.mk_struct("TransactionUnspentOutput", input=VOpaque("input_at", [], utxo_input(i.t)), output=VLazy("some_output", "TransactionOutput")))
                return NotImplemented
            E.extra_intrinsics[r"Index<usize>>::index$"] = index
            def co(E_, c, a):
                g = E_.fresh("create_output_ok", "bool")
                if E_.choose([g, z3.Not(g)], "create_output") == 1:
                    return VEnum("Result", "Err", [VOpaque("err")])
                p = VM.deref(E_, a[0])
                E_.trace.append(("out", p.path if isinstance(p, VLazy) else repr(p)))
                return VEnum("Result", "Ok", [VLazy("output_of_" + (p.path if isinstance(p, VLazy) else "?"), "TransactionOutput")])
            E.extra_intrinsics[r"TxOutputProposal::create_output$"] = co
            def from_vec(E_, c, a):
                v = VM.deref(E_, a[0])
                E_.trace.append(("inputs", [E_.as_u(VM.deref(E_, x)) for x in v.items]))
                return VLazy("tx_inputs", "TransactionInputs")
            E.extra_intrinsics[r"TransactionInputs::from_vec$"] = from_vec
            def body_new(E_, c, a):
                outs = VM.deref(E_, a[1])
                items = VM.deref(E_, outs.fields[0]).items if isinstance(outs, VStruct) else None
                E_.trace.append(("body", VM.deref(E_, a[0]), [VM.deref(E_, x).path if isinstance(VM.deref(E_, x), VLazy) else repr(x) for x in items] if items is not None else None, VM.deref(E_, a[2])))
                return VLazy("body", "TransactionBody")
            E.extra_intrinsics[r"TransactionBody::new$"] = body_new
            E.extra_intrinsics[r"WitnessesCalculator::create_mock_witnesses_set$"] = lambda E_, c, a: VLazy("mock_ws", "TransactionWitnessSet")
            E.extra_intrinsics[r"Transaction::new$"] = lambda E_, c, a: (E_.trace.append(("tx", VM.deref(E_, a[0]))), VLazy("tx", "Transaction"))[1]
            def mk(E=E, idx=idx, nout=nout):
                used = VSeq([E.mk_struct("UtxoIndex") if False else VStruct("UtxoIndex", [VInt(i.t, "usize")]) for i in idx], "set")
                me = E.mk_struct("TxProposal", used_utoxs=used, tx_output_proposals=VSeq([VLazy("outprop%d" % j, "TxOutputProposal") for j in range(nout)], "vec"), fee=VM.bn(E.sym_int("fee", "u64")))
                return [R(me, "self"), R(VLazy("groups", "AssetCategorizer")), R(VLazy("utxos", "TransactionUnspentOutputs"))]
            nok = 0
            for o in E.explore("TxProposal::create_tx", mk, max_paths=2000):
                if o.kind != "return":
                    ob.vc("no panic (%s %s)" % (o.kind, o.msg[:80]), o.pc, z3.BoolVal(False)); continue
                if o.value.variant != "Ok":
                    continue
                nok += 1
                E.enter(o)
                ins = [t[1] for t in o.trace if t[0] == "inputs"]
                bodies = [t for t in o.trace if t[0] == "body"]
                if len(ins) != 1 or len(bodies) != 1:
                    ob.fail("inputs / body not built exactly once"); continue
                got = ins[0]
                if len(got) != nused:
                    ob.violation("%d UTxOs recorded as used, the transaction has %d inputs" % (nused, len(got))); continue
                want = [utxo_input(i.t) for i in idx]
                # as multisets: every recorded index contributes its input exactly once
                perm_ok = z3.Or([z3.And([g == w for g, w in zip(got, p)]) for p in __import__("itertools").permutations(want)]) if nused else z3.BoolVal(True)
                ob.vc("%d recorded UTxOs: the inputs are exactly the supplied inputs at the recorded indices" % nused, o.pc, perm_ok)
                _, bi, bo, bf = bodies[0]
                if not (isinstance(bi, VLazy) and bi.path == "tx_inputs"):
                    ob.violation("the body does not carry the inputs built from the recorded UTxOs")
                if bo != ["output_of_outprop%d" % j for j in range(nout)]:
                    ob.violation("the body's outputs %s are not the proposal's outputs in order" % bo)
                ob.vc("the body's fee is the proposal's fee", o.pc, bf.fields[0].t == z3.Int("fee"))
            if nok == 0:
                ob.fail("no Ok path (%d used, %d outputs)" % (nused, nout))
            agg.stats["paths"] += E.stats["paths"]; agg.stats["feasibility_queries"] += E.stats["feasibility_queries"]; agg.stats["functions"] |= E.stats["functions"]
    ob.cross_every = 4
    ob.finish(agg)


def extension_bookkeeping(ctx):
    """'...exactly once': an extension step reports the UTxOs it added to the proposal (asset_utxo / ada_utxos); try_append_next_utxos
    must take exactly those out of the free structures, and the two removal helpers must really remove the UTxO (and only it)."""
    P = ctx.P
    ob = Obligation(ctx, "c13_e2_taken_utxos_leave_the_free_lists", "extension step reporting 0..2 asset-carrying and 0..2 pure-ADA UTxOs as taken; free pure-ADA list of 1..3 entries; "
                    "free asset maps over 2 UTxOs x 2 assets", ["AssetCategorizer::try_append_next_utxos", "AssetCategorizer::remove_pure_ada_utxo", "AssetCategorizer::remove_assets_utxo"],
                    fallback_native="e2n_c13_spend_all")
    agg = Engine(P)
    def ui(k):
        return VStruct("UtxoIndex", [VInt(z3.IntVal(k), "usize")])
    def ai(k):
        return VStruct("AssetIndex", [VInt(z3.IntVal(k), "usize")])
    # ---- try_append_next_utxos removes what the step reports
    n1 = 0
    for na in (0, 1, 2):
        for nd in (0, 1, 2):
            E = Engine(P, max_loop=6)
            E.U = agg.U
            ha, hd = z3.Bool("has_assets"), z3.Bool("has_ada")
            E.extra_intrinsics[r"AssetCategorizer::has_assets$"] = lambda E_, c, a, ha=ha: VBool(z3.BoolVal(True)) if E_.choose([ha, z3.Not(ha)], "has assets") == 0 else VBool(z3.BoolVal(False))
            E.extra_intrinsics[r"AssetCategorizer::has_ada$"] = lambda E_, c, a, hd=hd: VBool(z3.BoolVal(True)) if E_.choose([hd, z3.Not(hd)], "has ada") == 0 else VBool(z3.BoolVal(False))
            def step(E_, c, a, na=na, nd=nd):
                r = E_.fresh("step_outcome")
                i = E_.choose([r == 0, r == 1, r == 2], "extension step")
                if i == 2:
                    return VEnum("Result", "Err", [VOpaque("err")])
                if i == 1:
                    return VEnum("Result", "Ok", [opt(None)])
                E_.trace.append(("step", c.split("::")[-1]))
                ch = E_.mk_struct("TxProposalChanges", tx_proposal=VLazy("extended", "TxProposal"), makes_new_outputs=VBool(z3.Bool("mno")),
                                  asset_utxo=VSeq([ui(10 + k) for k in range(na)], "vec"), ada_utxos=VSeq([ui(20 + k) for k in range(nd)], "vec"))
                return VEnum("Result", "Ok", [opt(ch)])
            E.extra_intrinsics[r"AssetCategorizer::try_append_next_asset_utxos$"] = step
            E.extra_intrinsics[r"AssetCategorizer::try_append_pure_ada_utxo$"] = step
            def rem(kind):
                def f(E_, c, a):
                    u = VM.deref(E_, a[1])
                    E_.trace.append((kind, E_.concretize(u.fields[0].t)))
                    return UNIT
                return f
            E.extra_intrinsics[r"AssetCategorizer::remove_assets_utxo$"] = rem("rm_asset")
            E.extra_intrinsics[r"AssetCategorizer::remove_pure_ada_utxo$"] = rem("rm_ada")
            for o in E.explore("AssetCategorizer::try_append_next_utxos", lambda: [R(VLazy("groups", "AssetCategorizer"), "self"), R(VLazy("proposal", "TxProposal"), "tx_proposal")], max_paths=200):
                if o.kind != "return":
                    ob.vc("no panic in try_append_next_utxos (%s %s)" % (o.kind, o.msg[:60]), o.pc, z3.BoolVal(False)); continue
                v = o.value
                took = any(t[0] == "step" for t in o.trace)
                ra, rd = sorted(t[1] for t in o.trace if t[0] == "rm_asset"), sorted(t[1] for t in o.trace if t[0] == "rm_ada")
                if v.variant == "Ok" and v.fields[0].variant == "Some":
                    n1 += 1
                    pr = VM.deref(E, v.fields[0].fields[0])
                    if not (isinstance(pr, VLazy) and pr.path == "extended"):
                        ob.violation("the proposal handed back is not the one the extension step built")
                    if ra != [10 + k for k in range(na)] or rd != [20 + k for k in range(nd)]:
                        ob.violation("the step reports asset UTxOs %s and pure-ADA UTxOs %s as taken; removed from the free structures: %s / %s" % ([10 + k for k in range(na)], [20 + k for k in range(nd)], ra, rd))
                elif took or ra or rd:
                    if took and v.variant == "Ok":
                        ob.violation("an extension was built (UTxOs added to a proposal) but no proposal is handed back")
                    elif ra or rd:
                        ob.violation("UTxOs %s / %s are removed from the free structures although no extended proposal is handed back" % (ra, rd))
            agg.stats["paths"] += E.stats["paths"]; agg.stats["feasibility_queries"] += E.stats["feasibility_queries"]; agg.stats["functions"] |= E.stats["functions"]
    if n1 == 0:
        ob.fail("try_append_next_utxos: no path hands back a proposal")
    # ---- remove_pure_ada_utxo: the entry of that UTxO disappears, the others stay in order
    n2 = 0
    for n in (1, 2, 3):
        for k in list(range(n)) + [7]:
            E = Engine(P, max_loop=n + 3)
            E.U = agg.U
            def mk(E=E, n=n, k=k):
                lst = VSeq([VStruct("()", [ui(j), VM.bn(E.sym_int("coin%d" % j, "u64"))]) for j in range(n)], "vec")
                return [R(E.mk_struct("AssetCategorizer", free_ada_utxos=lst), "self"), R(ui(k), "utxo")]
            try:
                outs = E.explore("AssetCategorizer::remove_pure_ada_utxo", mk, max_paths=100)
            except Unsupported as e:
                ob.fail("remove_pure_ada_utxo cannot be executed (%s)" % str(e)[:160]); break
            for o in outs:
                if o.kind != "return":
                    ob.vc("no panic in remove_pure_ada_utxo (%s %s)" % (o.kind, o.msg[:60]), o.pc, z3.BoolVal(False)); continue
                n2 += 1
                me = VM.deref(E, o.args[0])
                left = [E.concretize(VM.deref(E, VM.deref(E, x).fields[0]).fields[0].t) for x in VM.deref(E, me.fields[P.struct_fields["AssetCategorizer"].index("free_ada_utxos")]).items]
                if left != [j for j in range(n) if j != k]:
                    ob.violation("free pure-ADA list %s, removing UTxO %d leaves %s" % (list(range(n)), k, left))
            agg.stats["paths"] += E.stats["paths"]; agg.stats["functions"] |= E.stats["functions"]
    # ---- remove_assets_utxo: the UTxO leaves both maps; an asset without free UTxOs leaves the asset map (has_assets looks at it)
    n3 = 0
    holds = {0: [0, 1], 1: [1]}          # UTxO -> assets
    for k in (0, 1, 5):
        E = Engine(P, max_loop=6)
        E.U = agg.U
        def mk(E=E, k=k):
            u2a = VSeq([VStruct("()", [ui(u), VSeq([ai(a) for a in assets], "set")]) for u, assets in holds.items()], "hmap")
            a2u = VSeq([VStruct("()", [ai(a), VSeq([ui(u) for u, assets in holds.items() if a in assets], "set")]) for a in (0, 1)], "hmap")
            return [R(E.mk_struct("AssetCategorizer", free_utxo_to_assets=u2a, free_asset_to_utxos=a2u), "self"), R(ui(k), "utxo")]
        try:
            outs = E.explore("AssetCategorizer::remove_assets_utxo", mk, max_paths=200)
        except Unsupported as e:
            ob.fail("remove_assets_utxo cannot be executed (%s)" % str(e)[:200]); break
        for o in outs:
            if o.kind != "return":
                ob.vc("no panic in remove_assets_utxo (%s %s)" % (o.kind, o.msg[:60]), o.pc, z3.BoolVal(False)); continue
            n3 += 1
            me = VM.deref(E, o.args[0])
            F = P.struct_fields["AssetCategorizer"]
            idx = lambda v: E.concretize(VM.deref(E, v).fields[0].t)
            u2a = {idx(VM.deref(E, it).fields[0]): sorted(idx(x) for x in VM.deref(E, VM.deref(E, it).fields[1]).items) for it in VM.deref(E, me.fields[F.index("free_utxo_to_assets")]).items}
            a2u = {idx(VM.deref(E, it).fields[0]): sorted(idx(x) for x in VM.deref(E, VM.deref(E, it).fields[1]).items) for it in VM.deref(E, me.fields[F.index("free_asset_to_utxos")]).items}
            want_u2a = {u: a for u, a in holds.items() if u != k}
            want_a2u = {}
            for u, assets in want_u2a.items():
                for a in assets:
                    want_a2u.setdefault(a, []).append(u)
            if u2a != want_u2a or a2u != {a: sorted(v) for a, v in want_a2u.items()}:
                ob.violation("removing UTxO %d from %s leaves utxo->assets %s and asset->utxos %s (expected %s / %s)" % (k, holds, u2a, a2u, want_u2a, want_a2u))
        agg.stats["paths"] += E.stats["paths"]; agg.stats["functions"] |= E.stats["functions"]
    if n2 == 0 or n3 == 0:
        ob.fail("removal helpers: %d / %d paths executed" % (n2, n3))
    ob.finish(agg)
