"""C08 (random-improve, function level): TransactionBuilder::cip2_random_improve_by under EVERY sequence of RNG draws.

rng.gen_range(0..k) is a stub whose result is enumerated by solver-checked forks (every value 0..k-1): the random
schedule is a symbolic variable.  Offered UTxOs / outputs: 1..3 / 1..2 with symbolic lovelace quantities.  Decided per path:
  * the UTxOs added to the builder are pairwise distinct offered indices;
  * available_indices handed back = the offered indices minus exactly the ones added (so a later top-up can never pick
    a UTxO that is already an input, nor lose one that was swapped out);
  * input_total / output_total handed back = initial + the added quantities / + the fees of the added inputs;
  * on Ok every output examined was covered when it was examined."""
import itertools
import z3
from engine import *
from prove import Obligation
import valuemodel as VM

U64 = (1 << 64) - 1


def R(v, name="tmp"):
    return VRef(Cell(v, name))


def obligations(ctx):
    P = ctx.P
    nmax = 3
    ob = Obligation(ctx, "c08_e2_random_improve_bookkeeping", "1..%d offered UTxOs, 1..2 outputs, lovelace quantities symbolic (bounded below 2^62 so that the 2x / 3x targets do not overflow), every RNG schedule, improvement phase on" % nmax,
                    ["TransactionBuilder::cip2_random_improve_by"], fallback_native="e2n_c08_random_improve")
    agg = Engine(P)
    for n in range(1, nmax + 1):
        for nout in (1, 2):
            if n == 3 and nout == 2 and ctx.tier == "quick":
                continue
            E = Engine(P, max_loop=2 * n + 4)
            VM.install(E)
            qs = [E.sym_int("q%d" % i, "u64") for i in range(n)]
            outs = [E.sym_int("out%d" % i, "u64") for i in range(nout)]
            it0, ot0 = E.sym_int("input_total", "u64"), E.sym_int("output_total", "u64")
            fees = [E.sym_int("fee%d" % i, "u64") for i in range(n)]
            for v in qs + outs + [it0, ot0] + fees:
                E.assume(v.t < (1 << 62))

            def val(q):
                return VStruct("Value", [VM.bn(VInt(q.t, "u64")), VEnum("Option", "None", [])])

            def by(E_, c, args):
                tup = VM.deref(E_, args[1])
                v = VM.deref(E_, tup.fields[0]) if isinstance(tup, VStruct) and tup.name == "()" else tup
                coin, ma = VM.value_parts(E_, v)
                return VEnum("Option", "Some", [VM.bn(VInt(coin, "u64"))])
            E.extra_intrinsics[r"^<F as Fn<\(&(utils::)?Value,\)>>::call$"] = by

            def gen_range(E_, c, args):
                rg = args[1]
                lo, hi = rg.fields[0].t, rg.fields[1].t
                k = E_.concretize(hi - lo)
                l0 = E_.concretize(lo)
                if k is None or l0 is None:
                    raise Unsupported("symbolic range for the RNG")
                if k <= 0:
                    raise PathAbort("panic", "gen_range on an empty range")
                r = z3.FreshConst(z3.IntSort(), "draw")
                i = E_.choose([r == j for j in range(k)], "rng draw", trust=True)
                E_.trace.append(("draw", i, k))
                return VInt(l0 + i, "usize")
            E.extra_intrinsics[r"(^|::)gen_range::<"] = gen_range

            def fee_for_input(E_, c, args):
                u = VM.deref(E_, args[2])
                j = int(u.path[len("txin"):])
                return VM.ok(VM.bn(VInt(fees[j].t, "u64")))
            E.extra_intrinsics[r"TransactionBuilder::fee_for_input$"] = fee_for_input

            def add_utxo(E_, c, args):
                u = VM.deref(E_, args[1])
                names = P.struct_fields["TransactionUnspentOutput"]
                iv = u.fields[names.index("input")] if isinstance(u, VStruct) else None
                j = int(iv.path[len("txin"):]) if isinstance(iv, VLazy) and iv.path.startswith("txin") else (int(u.path[len("utxo"):]) if isinstance(u, VLazy) else None)
                E_.trace.append(("add", j))
                return VM.ok(UNIT)
            E.extra_intrinsics[r"TxInputsBuilder::add_regular_utxo$"] = add_utxo
            E.extra_intrinsics[r"^(std|core)::mem::swap::<usize>$"] = lambda E_, c, a: (E_.trace.append(("swap",)), NotImplemented)[1]

            def mk(n=n, nout=nout, E=E):
                utxos = []
                for i in range(n):
                    out = E.mk_struct("TransactionOutput", address=VLazy("addr%d" % i, "Address"), amount=val(qs[i]))
                    utxos.append(R(E.mk_struct("TransactionUnspentOutput", input=VLazy("txin%d" % i, "TransactionInput"), output=out), "utxo%d" % i))
                outputs = VStruct("TransactionOutputs", [VSeq([E.mk_struct("TransactionOutput", address=VLazy("oaddr%d" % i, "Address"), amount=val(outs[i])) for i in range(nout)], "vec")])
                tb = E.mk_struct("TransactionBuilder", inputs=VLazy("inputs", "TxInputsBuilder"), outputs=outputs)
                return [R(tb, "self"), R(VSeq(utxos, "vec"), "available_inputs"), R(VSeq([VInt(i, "usize") for i in range(n)], "set"), "available_indices"),
                        R(val(it0), "input_total"), R(val(ot0), "output_total"), VStruct("{by}", []), R(VLazy("rng", "ThreadRng"), "rng"), VBool(True)]
            npaths, swaps = 0, 0
            for o in E.explore("TransactionBuilder::cip2_random_improve_by", mk, max_paths=6000):
                if o.kind != "return":
                    ob.vc("no panic (%s %s) with %d offered / %d outputs" % (o.kind, o.msg[:80], n, nout), o.pc, z3.BoolVal(False)); continue
                npaths += 1
                E.enter(o)
                sel = [t[1] for t in o.trace if t[0] == "add"]
                what = "%d offered, %d outputs, draws %s, added %s" % (n, nout, [t[1] for t in o.trace if t[0] == "draw"], sel)
                if o.value.variant != "Ok":
                    continue
                swaps += any(t[0] == "swap" for t in o.trace)
                if None in sel or len(set(sel)) != len(sel) or any(j not in range(n) for j in sel):
                    ob.violation("%s: the UTxOs added are not pairwise distinct offered ones" % what); continue
                left = VM.deref(E, o.args[2])
                rest = sorted(E.concretize(x.t) for x in left.items)
                if rest != sorted(set(range(n)) - set(sel)):
                    ob.violation("%s: available_indices handed back %s, but the offered indices not added are %s" % (what, rest, sorted(set(range(n)) - set(sel))))
                c_it, _ = VM.value_parts(E, VM.deref(E, o.args[3]))
                c_ot, _ = VM.value_parts(E, VM.deref(E, o.args[4]))
                ob.vc("%s: input total handed back = initial + added quantities" % what, o.pc, c_it == it0.t + z3.Sum([qs[j].t for j in sel] + [z3.IntVal(0)]))
                ob.vc("%s: output total handed back = initial + fees of the added inputs" % what, o.pc, c_ot == ot0.t + z3.Sum([fees[j].t for j in sel] + [z3.IntVal(0)]))
            if npaths < n or (n >= 2 and swaps == 0):
                ob.fail("%d offered / %d outputs: only %d paths, %d of them with an improvement swap" % (n, nout, npaths, swaps))
            agg.stats["paths"] += E.stats["paths"]; agg.stats["feasibility_queries"] += E.stats["feasibility_queries"]; agg.stats["functions"] |= E.stats["functions"]
    ob.cross_every = 10
    ob.finish(agg, lambda m, info=None: ("e2n_c08_random_improve", []))
