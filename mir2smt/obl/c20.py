"""C20: deposit and refund helpers agree with the ledger table and with the builder (E2).

The three implementations (stand-alone helpers in utils.rs, the builder's sub-builder getters, the ledger table written
here) are executed over the same abstract sequence of certificates / withdrawals / proposals.  Certificates are built
through the crate's own public constructors (executed from MIR), credentials and hashes are lazy symbolic objects.
"""
import itertools
import z3
from engine import *
from prove import Obligation, mval, le_bytes

U64 = (1 << 64) - 1


def bn(t):
    return VStruct("BigNum", [t if isinstance(t, VInt) else VInt(t, "u64")])


def R(v, name="tmp"):
    return VRef(Cell(v, name))


# shape id -> (description, builder(E, tag, coin VInt) -> Certificate value, deposit(coin, key, pool), refund(coin, key, pool))
def shapes():
    L = lambda E, tag, ty: VLazy(tag, ty)
    def cert(E, ctor, inner):
        return E.call("Certificate::" + ctor, [R(inner)])
    S = []
    def add(desc, has_coin, mk, dep, ref):
        S.append(dict(desc=desc, has_coin=has_coin, mk=mk, dep=dep, ref=ref))
    cred = lambda E, t: R(VLazy(t + "_cred", "Credential"))
    kh = lambda E, t: R(VLazy(t + "_kh", "Ed25519KeyHash"))
    drep = lambda E, t: R(VLazy(t + "_drep", "DRep"))
    Z = lambda c, k, p: 0
    add("StakeRegistration (parameter deposit)", False, lambda E, t, c: cert(E, "new_stake_registration", E.call("StakeRegistration::new", [cred(E, t)])), lambda c, k, p: k, Z)
    add("StakeRegistration (explicit deposit)", True, lambda E, t, c: cert(E, "new_stake_registration", E.call("StakeRegistration::new_with_explicit_deposit", [cred(E, t), R(bn(c))])), lambda c, k, p: c, Z)
    add("StakeDeregistration (parameter refund)", False, lambda E, t, c: cert(E, "new_stake_deregistration", E.call("StakeDeregistration::new", [cred(E, t)])), Z, lambda c, k, p: k)
    add("StakeDeregistration (explicit refund)", True, lambda E, t, c: cert(E, "new_stake_deregistration", E.call("StakeDeregistration::new_with_explicit_refund", [cred(E, t), R(bn(c))])), Z, lambda c, k, p: c)
    add("StakeDelegation", False, lambda E, t, c: cert(E, "new_stake_delegation", E.call("StakeDelegation::new", [cred(E, t), kh(E, t)])), Z, Z)
    add("PoolRegistration", False, lambda E, t, c: cert(E, "new_pool_registration", E.call("PoolRegistration::new", [R(VLazy(t + "_pp", "PoolParams"))])), lambda c, k, p: p, Z)
    add("PoolRetirement", False, lambda E, t, c: cert(E, "new_pool_retirement", E.call("PoolRetirement::new", [kh(E, t), VInt(z3.Int(t + "_epoch"), "u32")])), Z, Z)
    add("GenesisKeyDelegation", False, lambda E, t, c: cert(E, "new_genesis_key_delegation", VLazy(t + "_gkd", "GenesisKeyDelegation")), Z, Z)
    add("MoveInstantaneousRewardsCert", False, lambda E, t, c: cert(E, "new_move_instantaneous_rewards_cert", VLazy(t + "_mir", "MoveInstantaneousRewardsCert")), Z, Z)
    add("CommitteeHotAuth", False, lambda E, t, c: cert(E, "new_committee_hot_auth", E.call("CommitteeHotAuth::new", [cred(E, t), cred(E, t + "b")])), Z, Z)
    add("CommitteeColdResign", False, lambda E, t, c: cert(E, "new_committee_cold_resign", E.call("CommitteeColdResign::new", [cred(E, t)])), Z, Z)
    add("DRepDeregistration", True, lambda E, t, c: cert(E, "new_drep_deregistration", E.call("DRepDeregistration::new", [cred(E, t), R(bn(c))])), Z, lambda c, k, p: c)
    add("DRepRegistration", True, lambda E, t, c: cert(E, "new_drep_registration", E.call("DRepRegistration::new", [cred(E, t), R(bn(c))])), lambda c, k, p: c, Z)
    add("DRepUpdate", False, lambda E, t, c: cert(E, "new_drep_update", E.call("DRepUpdate::new", [cred(E, t)])), Z, Z)
    add("StakeAndVoteDelegation", False, lambda E, t, c: cert(E, "new_stake_and_vote_delegation", E.call("StakeAndVoteDelegation::new", [cred(E, t), kh(E, t), drep(E, t)])), Z, Z)
    add("StakeRegistrationAndDelegation", True, lambda E, t, c: cert(E, "new_stake_registration_and_delegation", E.call("StakeRegistrationAndDelegation::new", [cred(E, t), kh(E, t), R(bn(c))])), lambda c, k, p: c, Z)
    add("StakeVoteRegistrationAndDelegation", True, lambda E, t, c: cert(E, "new_stake_vote_registration_and_delegation", E.call("StakeVoteRegistrationAndDelegation::new", [cred(E, t), kh(E, t), drep(E, t), R(bn(c))])), lambda c, k, p: c, Z)
    add("VoteDelegation", False, lambda E, t, c: cert(E, "new_vote_delegation", E.call("VoteDelegation::new", [cred(E, t), drep(E, t)])), Z, Z)
    add("VoteRegistrationAndDelegation", True, lambda E, t, c: cert(E, "new_vote_registration_and_delegation", E.call("VoteRegistrationAndDelegation::new", [cred(E, t), drep(E, t), R(bn(c))])), lambda c, k, p: c, Z)
    return S


def res_coin(o, is_value=False):
    """(kind, coin term) from Result<BigNum,_> or Result<Value,_>"""
    if o.kind != "return":
        return o.kind, None
    v = o.value
    if v.variant != "Ok":
        return "Err", None
    x = v.fields[0]
    if is_value:
        x = x.fields[0]          # Value.coin (field 0 by declaration; checked below through struct_fields)
    return "Ok", x.fields[0].t


def check_sum(ob, what, outs, exact, is_value=False, info=None):
    seen = set()
    for o in outs:
        k, v = res_coin(o, is_value)
        seen.add(k)
        if k == "Ok":
            ob.vc(what + ": Ok value equals the ledger figure", o.pc, z3.And(v == exact, exact <= U64), info=info)
            if is_value:
                ma = o.value.fields[0].fields[1]
                if not (isinstance(ma, VEnum) and ma.variant == "None"):
                    ob.fail(what + ": refund/withdrawal value carries assets")
        elif k == "Err":
            ob.vc(what + ": Err only if the exact sum exceeds u64", o.pc, exact > U64, info=info)
        else:
            ob.vc(what + ": no panic (%s %s)" % (o.kind, o.msg), o.pc, z3.BoolVal(False))
    return seen


def obligations(ctx):
    P = ctx.P
    SH = shapes()
    assert P.struct_fields["Value"][:2] == ["coin", "multiasset"]
    contributing = [i for i, s in enumerate(SH) if s["has_coin"] or "Pool" in s["desc"] or "parameter" in s["desc"]]
    seqs = [[i] for i in range(len(SH))]
    seqs += [list(p) for p in itertools.product(contributing, repeat=2)] if ctx.tier == "thorough" else \
        [list(p) for p in itertools.product([0, 1, 3, 5, 6, 11, 12, 15], repeat=2)]
    if ctx.tier == "thorough":
        seqs += [list(p) for p in itertools.product([1, 3, 5, 6, 11, 12], repeat=3)]
    else:
        seqs += [[1, 3, 5], [12, 11, 6], [0, 2, 15]]

    groups = [
        ("c20_e2_helper_deposit_vs_ledger", "internal_get_deposit / get_deposit(body) over certificate sequences"),
        ("c20_e2_helper_implicit_input_vs_ledger", "internal_get_implicit_input / get_implicit_input(body)"),
        ("c20_e2_builder_deposit_refund_vs_ledger", "CertificatesBuilder::get_certificates_deposit/refund, TransactionBuilder::get_deposit/get_implicit_input"),
    ]
    obs = {g[0]: Obligation(ctx, g[0], "certificate sequences of length 1 (all 19 kinds, with and without explicit coin), 2 and 3; "
                            "0-2 withdrawals; 0-1 proposal; every coin and both deposit parameters: all u64; %d sequences" % len(seqs), [g[1]]) for g in groups}
    engines = []
    last_cex_builder = {}

    for si, seq in enumerate(seqs):
        nwd = si % 3            # 0, 1 or 2 withdrawals
        nprop = si % 2
        E = Engine(P, max_loop=6)
        engines.append(E)
        key, pool = E.sym_int("key_deposit", "u64"), E.sym_int("pool_deposit", "u64")
        coins = [E.sym_int("coin%d" % j, "u64") for j in range(len(seq))]
        wds = [E.sym_int("wd%d" % j, "u64") for j in range(nwd)]
        props = [E.sym_int("prop%d" % j, "u64") for j in range(nprop)]
        dep_c = sum([SH[i]["dep"](coins[j].t, key.t, pool.t) for j, i in enumerate(seq)], z3.IntVal(0))
        ref_c = sum([SH[i]["ref"](coins[j].t, key.t, pool.t) for j, i in enumerate(seq)], z3.IntVal(0))
        wd_sum = sum([w.t for w in wds], z3.IntVal(0))
        prop_sum = sum([p.t for p in props], z3.IntVal(0))
        desc = " + ".join(SH[i]["desc"] for i in seq) + " | %d wd | %d prop" % (nwd, nprop)
        info = dict(seq=seq, coins=coins, wds=wds, props=props, key=key, pool=pool)

        def certs_list(E=E, seq=seq, coins=coins):
            return [SH[i]["mk"](E, "c%d" % j, coins[j]) for j, i in enumerate(seq)]

        def mk_certificates():
            return E.mk_struct("Certificates", certs=VSeq([VStruct("Rc", [c]) for c in certs_list()], "vec"))

        def mk_withdrawals():
            return VStruct("Withdrawals", [VSeq([VStruct("()", [VLazy("wdaddr%d" % j, "RewardAddress"), bn(w)]) for j, w in enumerate(wds)], "map")])

        def mk_proposals_vec():
            return [E.mk_struct("VotingProposal", deposit=bn(p)) for p in props]

        # ---- helper: deposit over certificates only (the crate-visible kernel)
        ob = obs["c20_e2_helper_deposit_vs_ledger"]
        outs = E.explore("internal_get_deposit", lambda: [R(VEnum("Option", "Some", [mk_certificates()])), R(bn(pool)), R(bn(key))])
        check_sum(ob, "internal_get_deposit [%s]" % desc, outs, dep_c, info=info)
        # ---- public helper on a body: must include proposal deposits
        def mk_body():
            vp = VEnum("Option", "Some", [E.mk_struct("VotingProposals", proposals=VSeq([VStruct("Rc", [x]) for x in mk_proposals_vec()], "vec"))]) if nprop else VEnum("Option", "None", [])
            return E.mk_struct("TransactionBody", certs=VEnum("Option", "Some", [mk_certificates()]),
                               withdrawals=VEnum("Option", "Some", [mk_withdrawals()]) if nwd else VEnum("Option", "None", []),
                               voting_proposals=vp)
        outs = E.explore("utils::get_deposit", lambda: [R(mk_body()), R(bn(pool)), R(bn(key))])
        check_sum(ob, "get_deposit(body) [%s]" % desc, outs, dep_c + prop_sum, info=info)

        # ---- helper: implicit input
        ob = obs["c20_e2_helper_implicit_input_vs_ledger"]
        outs = E.explore("utils::get_implicit_input", lambda: [R(mk_body()), R(bn(pool)), R(bn(key))])
        check_sum(ob, "get_implicit_input(body) [%s]" % desc, outs, ref_c + wd_sum, is_value=True, info=info)

        # ---- builder side
        ob = obs["c20_e2_builder_deposit_refund_vs_ledger"]
        def mk_cb():
            return E.mk_struct("CertificatesBuilder", certs=VSeq([VStruct("()", [c, VLazy("wit%d" % j, "std::option::Option<ScriptWitnessType>")]) for j, c in enumerate(certs_list())], "map"))
        outs = E.explore("CertificatesBuilder::get_certificates_deposit", lambda: [R(mk_cb()), R(bn(pool)), R(bn(key))])
        check_sum(ob, "get_certificates_deposit [%s]" % desc, outs, dep_c, info=info)
        outs = E.explore("CertificatesBuilder::get_certificates_refund", lambda: [R(mk_cb()), R(bn(pool)), R(bn(key))])
        check_sum(ob, "get_certificates_refund [%s]" % desc, outs, ref_c, is_value=True, info=info)
        def mk_tb():
            cfg = E.mk_struct("TransactionBuilderConfig", pool_deposit=bn(pool), key_deposit=bn(key))
            wb = E.mk_struct("WithdrawalsBuilder", withdrawals=VSeq([VStruct("()", [VLazy("wdaddr%d" % j, "RewardAddress"), VStruct("()", [bn(w), VLazy("wwit%d" % j, "std::option::Option<ScriptWitnessType>")])]) for j, w in enumerate(wds)], "map"))
            vb = E.mk_struct("VotingProposalBuilder", proposals=VSeq([VStruct("()", [x, VLazy("pwit%d" % j, "std::option::Option<ScriptWitnessType>")]) for j, x in enumerate(mk_proposals_vec())], "map"))
            return E.mk_struct("TransactionBuilder", config=cfg, certs=VEnum("Option", "Some", [mk_cb()]),
                               withdrawals=VEnum("Option", "Some", [wb]) if nwd else VEnum("Option", "None", []),
                               voting_proposals=VEnum("Option", "Some", [vb]) if nprop else VEnum("Option", "None", []))
        outs = E.explore("TransactionBuilder::get_deposit", lambda: [R(mk_tb())])
        check_sum(ob, "TransactionBuilder::get_deposit [%s]" % desc, outs, dep_c + prop_sum, info=info)
        outs = E.explore("TransactionBuilder::get_implicit_input", lambda: [R(mk_tb())])
        check_sum(ob, "TransactionBuilder::get_implicit_input [%s]" % desc, outs, ref_c + wd_sum, is_value=True, info=info)

    # merge engine statistics for the evidence
    agg = Engine(P)
    for E in engines:
        agg.stats["paths"] += E.stats["paths"]
        agg.stats["feasibility_queries"] += E.stats["feasibility_queries"]
        agg.stats["functions"] |= E.stats["functions"]
    def to_native(m, info):
        vals = [le_bytes(mval(m, info["key"].t), 8), le_bytes(mval(m, info["pool"].t), 8), [len(info["seq"])]]
        for j, i in enumerate(info["seq"]):
            vals += [[i], le_bytes(mval(m, info["coins"][j].t), 8)]
        vals.append([len(info["wds"])])
        vals += [le_bytes(mval(m, w.t), 8) for w in info["wds"]]
        vals.append([len(info["props"])])
        vals += [le_bytes(mval(m, p.t), 8) for p in info["props"]]
        return "e2n_c20_tables", vals
    for name, ob in obs.items():
        ob.finish(agg, to_native)
