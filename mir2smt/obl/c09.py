"""C09 / C16 (builder part): the script-data hash is computed from exactly what the emitted witness set carries.

calc_script_data_hash and get_witness_set are executed from MIR over the same abstract builder state (each of the seven
script sources contributes one arbitrary Plutus witness when present; 0-2 extra witness datums).  PlutusWitnesses::collect
and hash_script_data are uninterpreted; what is decided is the DATA FLOW:
  * both functions collect the same sequence of Plutus witnesses (all seven sources, same order),
  * the datum list hashed = collected datums ++ every extra datum = the list handed to the witness set, through the
    de-duplicating setter,
  * redeemers hashed = redeemers emitted; cost models retained = exactly those of the languages in use.
The byte format of the preimage (hash_script_data, language_views_encoding, to_set_bytes) is an E1 obligation."""
import z3
from engine import *
from prove import Obligation
import valuemodel as VM

SRC = ["inputs", "collateral", "mint", "certs", "withdrawals", "votes", "proposals"]
OPTIONAL = {"mint": ("mint", "MintBuilder"), "certs": ("certs", "CertificatesBuilder"), "withdrawals": ("withdrawals", "WithdrawalsBuilder"),
            "votes": ("voting_procedures", "VotingBuilder"), "proposals": ("voting_proposals", "VotingProposalBuilder")}


def R(v, name="tmp"):
    return VRef(Cell(v, name))

def opt(x):
    return VEnum("Option", "Some", [x]) if x is not None else VEnum("Option", "None", [])


def names_of(E, seq):
    out = []
    for x in seq.items:
        x = VM.deref(E, x)
        out.append(x.path if isinstance(x, VLazy) else repr(x))
    return out


def setup(E, present, has_in, has_col, collected_datums, nextra):
    def pw(name):
        return VStruct("PlutusWitnesses", [VSeq([VLazy("pw_" + name, "PlutusWitness")], "vec")])
    def inputs_stub(E_, c, args):
        a = VM.deref(E_, args[0])
        which = "collateral" if isinstance(a, VLazy) and a.path == "collateral" else "inputs"
        flag = has_col if which == "collateral" else has_in
        return opt(pw(which)) if E_.choose([flag, z3.Not(flag)], which + " has plutus") == 0 else opt(None)
    E.extra_intrinsics[r"TxInputsBuilder::get_plutus_input_scripts$"] = inputs_stub
    for s, (fld, ty) in OPTIONAL.items():
        E.extra_intrinsics[r"%s::get_plutus_witnesses$" % ty] = (lambda s: lambda E_, c, a: pw(s))(s)
    def langs_stub(E_, c, args):
        a = VM.deref(E_, args[0])
        nm = a.path if isinstance(a, VLazy) else "?"
        return VSeq([VLazy("lang_" + nm, "Language")], "set")
    E.extra_intrinsics[r"::get_used_plutus_lang_versions$"] = langs_stub
    E.extra_intrinsics[r"BTreeSet::<.*Language>::new$"] = lambda E_, c, a: VSeq([], "set")
    def set_append(E_, c, args):
        d, o = E_.read_ref(args[0]), E_.read_ref(args[1])
        d.items += o.items
        o.items = []
        return UNIT
    E.extra_intrinsics[r"BTreeSet::<.*Language>::append$"] = set_append
    def vec_append(E_, c, args):
        d, o = E_.read_ref(args[0]), E_.read_ref(args[1])
        d.items += o.items
        o.items = []
        return UNIT
    E.extra_intrinsics[r"Vec::<.*PlutusWitness>::append$"] = vec_append
    E.extra_intrinsics[r"PlutusWitnesses::new$"] = lambda E_, c, a: VStruct("PlutusWitnesses", [VSeq([], "vec")])
    def collect(E_, c, args):
        w = VM.deref(E_, args[0])
        seq = w.fields[0]
        E_.trace.append(("collect", names_of(E_, seq)))
        d = opt(E_.mk_struct("PlutusList", elems=VSeq([VOpaque("collected_datums")], "vec"))) if seq.items and E_.choose([collected_datums, z3.Not(collected_datums)], "collected datums") == 0 else opt(None)
        return VStruct("()", [VLazy("collected_scripts", "PlutusScripts"), d, VLazy("collected_redeemers", "Redeemers")])
    E.extra_intrinsics[r"PlutusWitnesses::collect$"] = collect
    E.extra_intrinsics[r"Costmdls::new$"] = lambda E_, c, a: VSeq([], "map")
    E.extra_intrinsics[r"Costmdls::get$"] = lambda E_, c, a: opt(VLazy("cost_" + VM.deref(E_, a[1]).path, "CostModel"))
    def cm_insert(E_, c, args):
        E_.read_ref(args[0]).items.append(VStruct("()", [VM.deref(E_, args[1]), VM.deref(E_, args[2])]))
        return opt(None)
    E.extra_intrinsics[r"Costmdls::insert$"] = cm_insert
    E.extra_intrinsics[r"Costmdls::len$"] = lambda E_, c, a: VInt(len(VM.deref(E_, a[0]).items), "usize")
    def hsd(E_, c, args):
        d = args[2]
        E_.trace.append(("hash", VM.deref(E_, args[0]), [x.fields[0].path for x in VM.deref(E_, args[1]).items],
                         names_of(E_, d.fields[0].fields[E_.P.struct_fields["PlutusList"].index("elems")]) if d.variant == "Some" else None))
        return VLazy("script_data_hash", "ScriptDataHash")
    E.extra_intrinsics[r"(^|::)hash_script_data$"] = hsd
    # witness-set side
    for nm in ("set_native_scripts", "set_plutus_scripts", "set_redeemers"):
        E.extra_intrinsics[r"TransactionWitnessSet::%s$" % nm] = (lambda nm: lambda E_, c, a: (E_.trace.append((nm, VM.deref(E_, a[1]))), UNIT)[1])(nm)
    def spd(E_, c, args):
        l = VM.deref(E_, args[1])
        E_.trace.append(("set_plutus_data", names_of(E_, l.fields[E_.P.struct_fields["PlutusList"].index("elems")])))
        return UNIT
    E.extra_intrinsics[r"TransactionWitnessSet::set_plutus_data$"] = spd
    E.extra_intrinsics[r"TransactionBuilder::get_combined_native_scripts$"] = lambda E_, c, a: opt(None)

    def mk_builder():
        def o(s):
            fld, ty = OPTIONAL[s]
            return opt(VLazy(s, ty)) if E.choose([present[s], z3.Not(present[s])], s) == 0 else opt(None)
        extra = opt(E.mk_struct("PlutusList", elems=VSeq([VLazy("extra_datum%d" % j, "PlutusData") for j in range(nextra)], "vec"))) if nextra >= 0 else opt(None)
        kw = dict(inputs=VLazy("inputs", "TxInputsBuilder"), collateral=VLazy("collateral", "TxInputsBuilder"), extra_datums=extra, script_data_hash=opt(None))
        for s in OPTIONAL:
            kw[OPTIONAL[s][0]] = o(s)
        return E.mk_struct("TransactionBuilder", **kw)
    return mk_builder


def expected_sources(pc_model_flags):
    return pc_model_flags


def obligations(ctx):
    P = ctx.P
    for nextra in ((-1, 0, 1, 2) if ctx.tier == "thorough" else (-1, 1, 2)):
        E = Engine(P, max_loop=12)
        present = {s: z3.Bool("has_" + s) for s in OPTIONAL}
        has_in, has_col, cd = z3.Bool("inputs_have_plutus"), z3.Bool("collateral_has_plutus"), z3.Bool("collected_datums_present")
        mkb = setup(E, present, has_in, has_col, cd, nextra)
        ob = Obligation(ctx, "c09_e2_hash_matches_emitted_witness_set_%s_extra_datums" % ("no" if nextra < 0 else str(nextra)),
                        "each of the seven script sources present/absent with one arbitrary Plutus witness; %s extra witness datums" % ("no list of" if nextra < 0 else nextra),
                        ["TransactionBuilder::calc_script_data_hash", "TransactionBuilder::get_witness_set", "TransactionBuilder::get_combined_plutus_scripts"],
                        fallback_native="e2n_c09_battery")
        # --- calc_script_data_hash
        calc = {}
        for o in E.explore("TransactionBuilder::calc_script_data_hash", lambda: [R(mkb(), "self"), R(VLazy("cost_models", "Costmdls"))]):
            if o.kind != "return":
                ob.vc("no panic in calc_script_data_hash (%s %s)" % (o.kind, o.msg), o.pc, z3.BoolVal(False)); continue
            if o.value.variant != "Ok":
                ob.vc("calc_script_data_hash errs although every cost model is available", o.pc, z3.BoolVal(False)); continue
            col = [t for t in o.trace if t[0] == "collect"]
            hs = [t for t in o.trace if t[0] == "hash"]
            if len(col) != 1:
                ob.fail("collect called %d times" % len(col)); continue
            srcs = [n[3:] for n in col[0][1]]
            flags = z3.And([(has_in if s == "inputs" else has_col if s == "collateral" else present[s]) if s in srcs else
                            z3.Not(has_in if s == "inputs" else has_col if s == "collateral" else present[s]) for s in SRC])
            ob.vc("hash side collects the witnesses of exactly the sources present (%s)" % ",".join(srcs), o.pc, flags)
            if srcs != [s for s in SRC if s in srcs]:
                ob.fail("sources collected in a different order: %s" % srcs)
            key = tuple(srcs)
            if hs:
                if len(hs) != 1:
                    ob.fail("hash computed %d times" % len(hs)); continue
                _, reds, langs, datums = hs[0]
                if not (isinstance(reds, VLazy) and reds.path == "collected_redeemers"):
                    ob.violation("hashed redeemers are not the collected redeemers")
                want_langs = ["lang_" + (OPTIONAL[s][0] if False else s) for s in srcs]
                if sorted(langs) != sorted("lang_" + s for s in srcs):
                    ob.violation("cost models retained for %s, languages in use come from %s" % (langs, srcs))
                calc.setdefault(key, []).append((o, datums))
            else:
                calc.setdefault(key, []).append((o, "nohash"))
        # --- get_witness_set
        for o in E.explore("TransactionBuilder::get_witness_set", lambda: [R(mkb(), "self")]):
            if o.kind != "return":
                ob.vc("no panic in get_witness_set (%s %s)" % (o.kind, o.msg), o.pc, z3.BoolVal(False)); continue
            col = [t for t in o.trace if t[0] == "collect"]
            srcs = [n[3:] for n in col[0][1]] if col else []
            flags = z3.And([(has_in if s == "inputs" else has_col if s == "collateral" else present[s]) if s in srcs else
                            z3.Not(has_in if s == "inputs" else has_col if s == "collateral" else present[s]) for s in SRC])
            ob.vc("witness-set side collects the witnesses of exactly the sources present (%s)" % ",".join(srcs), o.pc, flags)
            spd = [t for t in o.trace if t[0] == "set_plutus_data"]
            wit = o.value
            pd_field = wit.fields[P.struct_fields["TransactionWitnessSet"].index("plutus_data")] if isinstance(wit, VStruct) else None
            if isinstance(pd_field, VEnum) and pd_field.variant == "Some":
                ob.violation("witness-set datums written without the de-duplicating setter")
            emitted = spd[0][1] if spd else None
            if len(spd) > 1:
                ob.fail("set_plutus_data called %d times" % len(spd))
            if col:
                sr = [t for t in o.trace if t[0] == "set_redeemers"]
                if len(sr) != 1 or not (isinstance(sr[0][1], VLazy) and sr[0][1].path == "collected_redeemers"):
                    ob.violation("emitted redeemers are not the collected redeemers")
            # compare with every hash-side path under the same source pattern and the same collected-datum presence
            for (oc, hashed) in calc.get(tuple(srcs), []):
                both = list(o.pc) + [c for c in oc.pc if not any(c.eq(d) for d in o.pc)]
                s = z3.Solver(); s.add(*both)
                if s.check() != z3.sat:
                    continue            # different symbolic case (e.g. collected datums present vs absent)
                if hashed == "nohash":
                    if emitted:
                        ob.violation("datums %s are emitted but no script data hash is computed" % emitted)
                    continue
                if (hashed or None) != (emitted or None) and not (hashed == [] and emitted is None):
                    ob.violation("sources %s: hashed datum list %s differs from the emitted one %s" % (srcs, hashed, emitted))
        ob.finish(E)
    dedup_notions(ctx)
    preimage_layout(ctx)
    aux_data_hash(ctx)
    language_views(ctx)
    used_languages(ctx)


def dedup_notions(ctx):
    """The script-data hash covers the datum list as `to_set_bytes` de-duplicates it (PlutusList::deduplicated_view), the
    witness set emits it as `set_plutus_data` de-duplicates it (PlutusList::deduplicated_clone).  PlutusData has a derived
    Ord (structure, then preserved original bytes) and a hand-written PartialEq / Hash (structure only): the two
    de-duplications must keep the same elements for EVERY list — in particular for two datums with equal structure and
    different original bytes.  Lists of 2-3 datums; every coincidence pattern of structures and of original bytes."""
    import itertools
    P = ctx.P
    ob = Obligation(ctx, "c09_e2_hash_and_emission_deduplicate_alike", "lists of 2-3 datums; structure and original-bytes identities coincide or differ independently (solver-explored)",
                    ["PlutusList::deduplicated_view", "PlutusList::deduplicated_clone", "<PlutusData as Ord>::cmp", "<PlutusData as PartialEq>::eq"], fallback_native="e2n_c09_battery")
    agg = Engine(P)
    U = agg.U
    names = P.struct_fields["PlutusData"]
    for n in (2, 3):
        runs = {}
        for fn in ("PlutusList::deduplicated_view", "PlutusList::deduplicated_clone"):
            E = Engine(P, max_loop=n + 3)
            E.U = U
            def mk(E=E, n=n):
                elems = []
                for j in range(n):
                    kw = {names[0]: VLazy("structure%d" % j, "PlutusDataEnum"), names[1]: VEnum("Option", "Some", [VLazy("bytes%d" % j, "std::vec::Vec<u8>")])}
                    elems.append(E.mk_struct("PlutusData", **kw))
                return [R(E.mk_struct("PlutusList", elems=VSeq(elems, "vec")), "self")]
            outs = []
            for o in E.explore(fn, mk, max_paths=600):
                if o.kind != "return":
                    ob.vc("no panic in %s (%s %s)" % (fn, o.kind, o.msg[:80]), o.pc, z3.BoolVal(False)); continue
                E.enter(o)
                v = VM.deref(E, o.value)
                seq = v if isinstance(v, VSeq) else VM.deref(E, v.fields[P.struct_fields["PlutusList"].index("elems")])
                kept = []
                for x in seq.items:
                    x = VM.deref(E, x)
                    st = VM.deref(E, x.fields[0])
                    kept.append(int(st.path[len("structure"):]) if isinstance(st, VLazy) and st.path.startswith("structure") else None)
                outs.append((kept, list(o.pc)))
            runs[fn] = outs
            agg.stats["paths"] += E.stats["paths"]; agg.stats["feasibility_queries"] += E.stats["feasibility_queries"]; agg.stats["functions"] |= E.stats["functions"]
        a, b = runs["PlutusList::deduplicated_view"], runs["PlutusList::deduplicated_clone"]
        if not a or not b:
            ob.fail("no returning path for %d datums" % n); continue
        for (ka, pa), (kb, pb) in itertools.product(a, b):
            if ka != kb:
                # two executions that keep different elements must not be possible for the same list
                ob.vc("%d datums: the hash side keeps elements %s, the emission side %s — for the same list" % (n, ka, kb), pa + pb, z3.BoolVal(False))
    ob.cross_every = 8
    ob.finish(agg, lambda m, info=None: ("e2n_c09_battery", []))


def preimage_layout(ctx):
    """hash_script_data hashes [ redeemers | datums | language views ], with the ledger's special case for datums without
    redeemers [ A0 | datums | A0 ]: the buffer handed to blake2b256 is exactly that sequence (component encodings opaque)."""
    P = ctx.P
    ob = Obligation(ctx, "c09_e2_script_data_preimage_layout", "redeemer count 0 / positive, datums present / absent; component encodings uninterpreted", ["hash_script_data"], fallback_native="e2n_c09_battery")
    E = Engine(P, max_loop=4)
    nred = E.sym_int("redeemer_count", "usize")
    U = E.U
    enc = lambda nm: (lambda E_, c, a: VOpaque(nm, [], z3.Function(nm, U, U)(E_.as_u(VM.deref(E_, a[0])))))
    E.extra_intrinsics[r"Redeemers::len$"] = lambda E_, c, a: VInt(nred.t, "usize")
    E.extra_intrinsics[r"Redeemers::to_bytes$"] = enc("redeemers_bytes")
    E.extra_intrinsics[r"PlutusList::to_set_bytes$"] = enc("datums_set_bytes")
    E.extra_intrinsics[r"Costmdls::language_views_encoding$"] = enc("language_views")
    def blake(E_, c, a):
        buf = VM.deref(E_, a[0])
        E_.trace.append(("hashed", list(buf.items) if isinstance(buf, VSeq) else None))
        return VOpaque("digest", [], z3.Const("digest", U))
    E.extra_intrinsics[r"(^|::)blake2b256$"] = blake
    E.extra_intrinsics[r"ScriptDataHash as From<\[u8; 32\]>>::from$"] = lambda E_, c, a: VLazy("script_data_hash", "ScriptDataHash")
    seen = set()
    for has_d in (False, True):
        def mk(has_d=has_d):
            E.pc.append(nred.t >= 0)
            d = VEnum("Option", "Some", [VLazy("datums", "PlutusList")]) if has_d else VEnum("Option", "None", [])
            return [R(VLazy("redeemers", "Redeemers"), "redeemers"), R(VLazy("cost_models", "Costmdls"), "cost_models"), d]
        for o in E.explore("hash_script_data", mk, max_paths=20):
            if o.kind != "return":
                ob.vc("no panic (%s %s)" % (o.kind, o.msg[:80]), o.pc, z3.BoolVal(False)); continue
            E.enter(o)
            h = [t for t in o.trace if t[0] == "hashed"]
            if len(h) != 1 or h[0][1] is None:
                ob.fail("blake2b256 is not applied exactly once to the assembled buffer"); continue
            parts = []
            for it in h[0][1]:
                it = VM.deref(E, it)
                if isinstance(it, VInt):
                    parts.append(("byte", E.concretize(it.t)))
                elif isinstance(it, VStruct) and it.name == "#chunk":
                    parts.append(("chunk", it.fields[0].tag))
                else:
                    parts.append(("?", repr(it)))
            sol = z3.Solver(); sol.add(*o.pc)
            zero = sol.check(nred.t == 0) == z3.sat and sol.check(nred.t != 0) != z3.sat
            if zero and has_d:
                want = [("byte", 0xA0), ("chunk", "datums_set_bytes"), ("byte", 0xA0)]
            else:
                want = [("chunk", "redeemers_bytes")] + ([("chunk", "datums_set_bytes")] if has_d else []) + [("chunk", "language_views")]
            seen.add((zero, has_d))
            if parts != want:
                ob.violation("redeemer count %s, datums %s: the hashed buffer is %s, the ledger's script data format is %s" % ("0" if zero else "> 0", "present" if has_d else "absent", parts, want))
    if len(seen) < 4:
        ob.fail("only the cases %s were reached" % sorted(seen))
    ob.finish(E)


def aux_data_hash(ctx):
    """First clause of C09: the auxiliary-data hash in the body is the hash of the auxiliary data attached to the
    transaction as serialized.  build_and_size / build / build_tx_unsafe are executed from MIR on a builder whose
    auxiliary data is an arbitrary value (or absent); hash_auxiliary_data itself is executed from its MIR down to
    blake2b256 over AuxiliaryData::to_bytes (both uninterpreted).  Decided: body.auxiliary_data_hash ==
    blake2b256(to_bytes(the builder's auxiliary data)) exactly when auxiliary data is present, absent otherwise;
    the released Transaction attaches that same auxiliary data; the body handed to the size estimation is the body
    returned."""
    P = ctx.P
    ob = Obligation(ctx, "c09_e2_aux_data_hash_is_hash_of_attached_data", "auxiliary data absent / an arbitrary value; every other builder field arbitrary (lazy); sub-builder build() results, size estimation uninterpreted",
                    ["TransactionBuilder::build_and_size", "TransactionBuilder::build", "TransactionBuilder::build_tx_unsafe", "hash_auxiliary_data"], fallback_native="e2n_c09_aux_battery")
    E = Engine(P, max_loop=4, uninterpreted=[r"TransactionBuilder::get_witness_set$", r"TxInputsBuilder::inputs$", r"TxInputsBuilder::inputs_option$", r"CertificatesBuilder::build$",
                                             r"WithdrawalsBuilder::build$", r"MintBuilder::build$", r"VotingBuilder::build$", r"VotingProposalBuilder::build$",
                                             r"TransactionBuilder::get_reference_inputs$", r"::to_option$", r"TransactionBuilder::get_fee_if_set$"])
    U = E.U
    has_aux = z3.Bool("has_auxiliary_data")
    g_size = z3.Bool("size_estimation_ok")
    def to_bytes(E_, c, a):
        v = VM.deref(E_, a[0])
        return VOpaque("aux_bytes", [], z3.Function("aux_to_bytes", U, U)(E_.as_u(v)))
    E.extra_intrinsics[r"AuxiliaryData::to_bytes$"] = to_bytes
    def blake(E_, c, a):
        buf = VM.deref(E_, a[0])
        return VOpaque("digest", [], z3.Function("blake2b256", U, U)(E_.as_u(buf)))
    E.extra_intrinsics[r"(^|::)blake2b256$"] = blake
    E.extra_intrinsics[r"AuxiliaryDataHash as From<\[u8; 32\]>>::from$"] = lambda E_, c, a: VOpaque("auxhash", [], z3.Function("hash_from_digest", U, U)(E_.as_u(VM.deref(E_, a[0]))))
    def fake(E_, c, a):
        E_.trace.append(("sized_body", a[1]))
        if E_.choose([g_size, z3.Not(g_size)], "fake_full_tx") == 1:
            return VEnum("Result", "Err", [VOpaque("err")])
        return VEnum("Result", "Ok", [E_.mk_struct("Transaction", body=a[1], witness_set=VLazy("fake_ws", "TransactionWitnessSet"), is_valid=VBool(z3.BoolVal(True)),
                                                   auxiliary_data=VM.deref(E_, a[0]).fields[P.struct_fields["TransactionBuilder"].index("auxiliary_data")])])
    E.extra_intrinsics[r"(^|::)fake_full_tx$"] = fake
    E.extra_intrinsics[r"Transaction::to_bytes$"] = lambda E_, c, a: VSeq([], "vec")
    size = E.sym_int("full_size", "usize")
    E.extra_intrinsics[r"Vec::<u8>::len$"] = lambda E_, c, a: VInt(size.t, "usize")

    def mk():
        aux = opt(VLazy("aux", "AuxiliaryData")) if E.choose([has_aux, z3.Not(has_aux)], "aux present") == 0 else opt(None)
        tb = E.mk_struct("TransactionBuilder", auxiliary_data=aux)
        return [R(tb, "self")]
    want_hash = z3.Function("hash_from_digest", U, U)(z3.Function("blake2b256", U, U)(z3.Function("aux_to_bytes", U, U)(z3.Const("lazy_aux@0", U))))
    BF = P.struct_fields["TransactionBody"]
    nok = 0
    for entry in ("TransactionBuilder::build", "TransactionBuilder::build_tx_unsafe"):
        for o in E.explore(entry, mk):
            if o.kind != "return":
                ob.vc("no panic in %s (%s %s)" % (entry, o.kind, o.msg[:80]), o.pc, z3.BoolVal(False)); continue
            if o.value.variant != "Ok":
                continue
            nok += 1
            E.enter(o)
            sol = z3.Solver(); sol.add(*o.pc)
            present = sol.check(has_aux) == z3.sat
            if present and sol.check(z3.Not(has_aux)) == z3.sat:
                ob.fail("path does not decide the presence of auxiliary data"); continue
            tx = o.value.fields[0]
            if entry.endswith("build_tx_unsafe"):
                TF = P.struct_fields["Transaction"]
                body = VM.deref(E, tx.fields[TF.index("body")])
                att = VM.deref(E, tx.fields[TF.index("auxiliary_data")])
                if present:
                    if not (isinstance(att, VEnum) and att.variant == "Some"):
                        ob.violation("auxiliary data present in the builder but the released transaction attaches none"); continue
                    ob.vc("released transaction attaches the builder's auxiliary data", o.pc, E.as_u(att.fields[0]) == z3.Const("lazy_aux@0", U))
                elif not (isinstance(att, VEnum) and att.variant == "None"):
                    ob.violation("no auxiliary data in the builder but the released transaction attaches some"); continue
            else:
                body = VM.deref(E, tx)
            if not isinstance(body, VStruct):
                ob.fail("body is not a struct value: %r" % (body,)); continue
            h = VM.deref(E, body.fields[BF.index("auxiliary_data_hash")])
            if present:
                if not (isinstance(h, VEnum) and h.variant == "Some"):
                    ob.violation("%s: auxiliary data present but the body carries no auxiliary-data hash" % entry); continue
                ob.vc("%s: body.auxiliary_data_hash == blake2b256(to_bytes(attached auxiliary data))" % entry, o.pc, E.as_u(h.fields[0]) == want_hash)
            elif not (isinstance(h, VEnum) and h.variant == "None"):
                ob.violation("%s: no auxiliary data but the body carries an auxiliary-data hash" % entry)
            sb = [t for t in o.trace if t[0] == "sized_body"]
            if len(sb) != 1:
                ob.fail("size estimation ran %d times" % len(sb))
    if nok < 4:
        ob.fail("only %d Ok paths (expected both entries x auxiliary data present / absent)" % nok)
    ob.finish(E)


def language_views(ctx):
    """'the language views of exactly the Plutus versions in use', in the ledger's peculiar encoding: a map whose keys are in
    canonical order (shorter encoded key first: 01 for V2, 02 for V3, then the byte string 41 00 for V1); a V2 / V3 entry is
    `version => [costs]` (definite list), the V1 entry is `bytes(cbor(0)) => bytes(cbor(indefinite list of costs))`.
    Costmdls::language_views_encoding is executed from MIR over the token model for every non-empty subset of {V1, V2, V3} with
    two symbolic costs per model; byte lengths of the small nested encodings are computed from their tokens."""
    import itertools
    import cbormodel as CM
    P = ctx.P
    ob = Obligation(ctx, "c09_e2_language_views_encoding", "every non-empty subset of {PlutusV1, PlutusV2, PlutusV3}; 2 costs per model, each any integer of 0..2^63",
                    ["Costmdls::language_views_encoding"], fallback_native="e2n_c09_battery")
    agg = Engine(P)
    KINDS = ["PlutusV1", "PlutusV2", "PlutusV3"]
    def head(n):
        return 1 if n < 24 else 2 if n < 256 else 3 if n < 65536 else 5
    def size_of(E_, toks):
        """byte size of a token list whose sizes are known (small concrete heads, nested byte strings with known content)"""
        n = 0
        for t in toks:
            if t[0] in ("uint",) and E_.concretize(t[1]) is not None:
                n += head(E_.concretize(t[1]))
            elif t[0] == "bytes":
                inner = E_.__dict__.get("nested_cbor", {}).get(str(t[1]))
                if inner is None:
                    return None
                k = size_of(E_, inner)
                if k is None:
                    return None
                n += head(k) + k
            else:
                return None
        return n
    for r in (1, 2, 3):
        for langs in itertools.combinations(KINDS, r):
            E = Engine(P, max_loop=12)
            E.U = agg.U
            def lang_bytes(E_, c, a):
                # Language::to_bytes = cbor(version index): one small unsigned integer (registered before the generic "opaque bytes of a value" model)
                l_ = VM.deref(E_, a[0])
                k_ = VM.deref(E_, l_.fields[0]).variant if isinstance(l_, VStruct) else None
                if k_ not in KINDS:
                    return NotImplemented
                o_ = VOpaque("cbor_bytes", [], z3.FreshConst(E_.U, "cbor_bytes"))
                E_.__dict__.setdefault("nested_cbor", {})[str(o_.t)] = [("uint", z3.IntVal(KINDS.index(k_)))]
                return o_
            E.extra_intrinsics[r"Language::to_bytes$"] = lang_bytes
            CM.install(E, inline_types=("Language", "CostModel", "Int"), target="Costmdls")
            costs = {k: [E.sym_int("cost_%s_%d" % (k, i), "i128") for i in range(2)] for k in langs}
            for k in langs:
                for c_ in costs[k]:
                    E.assume(z3.And(c_.t >= 0, c_.t < (1 << 63)))
            def blen(E_, c, a):
                b = VM.deref(E_, a[0])
                if isinstance(b, VOpaque) and b.t is not None:
                    toks = E_.__dict__.get("nested_cbor", {}).get(str(b.t))
                    if toks is not None:
                        k = size_of(E_, toks)
                        if k is not None:
                            return VInt(z3.IntVal(k), "usize")
                return NotImplemented
            E.extra_intrinsics[r"Vec::<u8>::len$"] = blen
            def mk(E=E, langs=langs, costs=costs):
                m = VSeq([VStruct("()", [VStruct("Language", [VEnum("LanguageKind", k, [])]), VStruct("CostModel", [VSeq([VStruct("Int", [VInt(c_.t, "i128")]) for c_ in costs[k]], "vec")])]) for k in langs], "map")
                return [R(VStruct("Costmdls", [m]), "self")]
            try:
                outs = E.explore("Costmdls::language_views_encoding", mk, max_paths=200)
            except Unsupported as e:
                ob.fail("%s: cannot be executed (%s)" % (list(langs), str(e)[:200])); continue
            rets = [o for o in outs if o.kind == "return"]
            for o in outs:
                if o.kind != "return":
                    ob.vc("%s: no panic (%s %s)" % (list(langs), o.kind, o.msg[:80]), o.pc, z3.BoolVal(False))
            if len(rets) != 1:
                ob.violation("%s: the encoding is not a function of the cost models (%d ways: the key order depends on something else)" % (list(langs), len(rets))); continue
            o = rets[0]
            E.enter(o)
            tab = E.__dict__.get("nested_cbor", {})
            toks = tab.get(str(o.value.t)) if isinstance(o.value, VOpaque) else None
            if toks is None:
                ob.fail("%s: result is not a finished serializer buffer" % (list(langs),)); continue
            order = [k for k in ("PlutusV2", "PlutusV3", "PlutusV1") if k in langs]
            want, eqs = [("map", len(langs))], []
            pos = 1
            shape_ok = toks[:1] == [("map", len(langs))] or (toks and toks[0][0] == "map" and toks[0][1] == len(langs))
            for k in order:
                if k == "PlutusV1":
                    seg = toks[pos:pos + 2]
                    if len(seg) != 2 or seg[0][0] != "bytes" or seg[1][0] != "bytes":
                        shape_ok = False; break
                    kt, vt = tab.get(str(seg[0][1])), tab.get(str(seg[1][1]))
                    if not kt or len(kt) != 1 or kt[0][0] != "uint" or E.concretize(kt[0][1]) != 0:
                        ob.violation("%s: the PlutusV1 key is not the byte string holding cbor(0): %r" % (list(langs), kt)); shape_ok = None; break
                    if not vt or [t[0] for t in vt] != ["array", "uint", "uint", "special"] or vt[0][1] is not None:
                        ob.violation("%s: the PlutusV1 cost model is not a byte string holding an indefinite-length list: %s" % (list(langs), [(t[0], t[1]) for t in (vt or [])][:2])); shape_ok = None; break
                    eqs += [vt[1][1] == costs[k][0].t, vt[2][1] == costs[k][1].t]
                    pos += 2
                else:
                    seg = toks[pos:pos + 4]
                    if [t[0] for t in seg] != ["uint", "array", "uint", "uint"] or seg[1][1] != 2:
                        shape_ok = False; break
                    eqs += [seg[0][1] == (1 if k == "PlutusV2" else 2), seg[2][1] == costs[k][0].t, seg[3][1] == costs[k][1].t]
                    pos += 4
            if shape_ok is None:
                continue
            if not shape_ok or pos != len(toks):
                ob.violation("%s: the language views are %s, the ledger's form is a map with the entries of %s in that order (V2 / V3: version => definite list; V1: bytes => bytes)" %
                             (list(langs), [(t[0], t[1] if t[0] in ("map", "array") else "") for t in toks], order)); continue
            ob.vc("%s: keys and costs are the versions' own, in canonical key order" % (list(langs),), o.pc, z3.And(eqs))
            agg.stats["paths"] += E.stats["paths"]; agg.stats["feasibility_queries"] += E.stats["feasibility_queries"]; agg.stats["functions"] |= E.stats["functions"]
    ob.finish(agg, lambda m, info=None: ("e2n_c09_battery", []))


def used_languages(ctx):
    """'the language views of exactly the Plutus versions in use': each sub-builder reports the language of EVERY Plutus witness it
    holds - script attached or supplied through a reference input alike - and nothing for native-script / key items.  The six
    get_used_plutus_lang_versions are executed from MIR on 1-2 items per builder (Plutus attached / Plutus by reference / native /
    none); PlutusScriptSourceEnum::language is executed too, down to PlutusScript::language_version / the reference's language field."""
    import itertools
    P = ctx.P
    ob = Obligation(ctx, "c09_e2_used_languages_cover_every_plutus_witness", "six sub-builders x 1-2 items x witness kinds {Plutus attached, Plutus by reference, native script, none}; languages arbitrary",
                    ["TxInputsBuilder / MintBuilder / CertificatesBuilder / WithdrawalsBuilder / VotingBuilder / VotingProposalBuilder ::get_used_plutus_lang_versions", "PlutusScriptSourceEnum::language"],
                    fallback_native="e2n_c09_ref_script_languages")
    agg = Engine(P)
    KINDS = ["PA", "PR", "N", "-"]
    def wit(E, j, k):
        if k == "-":
            return opt(None)
        if k == "N":
            return opt(VEnum("ScriptWitnessType", "NativeScriptWitness", [VLazy("ns%d" % j, "NativeScriptSourceEnum")]))
        return opt(VEnum("ScriptWitnessType", "PlutusScriptWitness", [E.mk_struct("PlutusWitness", script=src(E, j, k), datum=VLazy("d%d" % j, "Option<DatumSourceEnum>"), redeemer=VLazy("r%d" % j, "Redeemer"))]))
    def src(E, j, k):
        if k == "PA":
            return VEnum("PlutusScriptSourceEnum", "Script", [VLazy("script%d" % j, "PlutusScript"), VLazy("sg%d" % j, "Option<Ed25519KeyHashes>")])
        return VEnum("PlutusScriptSourceEnum", "RefInput", [E.mk_struct("PlutusScriptRef", language=VLazy("reflang%d" % j, "Language")), VLazy("sg%d" % j, "Option<Ed25519KeyHashes>")])
    builders = {
        "TxInputsBuilder": lambda E, ws: E.mk_struct("TxInputsBuilder", required_witnesses=E.mk_struct("InputsRequiredWitness", scripts=VSeq([VStruct("()", [VLazy("sh", "ScriptHash"), VSeq([VStruct("()", [VLazy("in%d" % j, "TransactionInput"), w]) for j, w in enumerate(ws)], "map")])], "map"))),
        "CertificatesBuilder": lambda E, ws: E.mk_struct("CertificatesBuilder", certs=VSeq([VStruct("()", [VLazy("cert%d" % j, "Certificate"), w]) for j, w in enumerate(ws)], "map")),
        "WithdrawalsBuilder": lambda E, ws: E.mk_struct("WithdrawalsBuilder", withdrawals=VSeq([VStruct("()", [VLazy("acct%d" % j, "RewardAddress"), VStruct("()", [VLazy("coin%d" % j, "BigNum"), w])]) for j, w in enumerate(ws)], "map")),
        "VotingBuilder": lambda E, ws: E.mk_struct("VotingBuilder", votes=VSeq([VStruct("()", [VLazy("voter%d" % j, "Voter"), E.mk_struct("VoterVotes", script_witness=w, votes=VLazy("vv%d" % j, "BTreeMap<GovernanceActionId, VotingProcedure>"))]) for j, w in enumerate(ws)], "map")),
        "VotingProposalBuilder": lambda E, ws: E.mk_struct("VotingProposalBuilder", proposals=VSeq([VStruct("()", [VLazy("prop%d" % j, "VotingProposal"), w]) for j, w in enumerate(ws)], "map")),
    }
    nok = 0
    for bname, mkb in list(builders.items()) + [("MintBuilder", None)]:
        for n in (1, 2):
            for pat in itertools.product(KINDS if bname != "MintBuilder" else ["PA", "PR", "N"], repeat=n):
                E = Engine(P, max_loop=n + 4)
                E.U = agg.U
                def lang_of_script(E_, c, a):
                    s_ = VM.deref(E_, a[0])
                    return VOpaque("lang", [], z3.Function("language_of_script", E_.U, E_.U)(E_.as_u(s_)))
                E.extra_intrinsics[r"PlutusScript::language_version$"] = lang_of_script
                def ins(E_, c, a):
                    E_.read_ref(a[0]).items.append(VM.deref(E_, a[1]))
                    return VBool(z3.BoolVal(True))
                E.extra_intrinsics[r"BTreeSet::<.*Language>::insert$"] = ins
                E.extra_intrinsics[r"BTreeSet::<.*Language>::new$"] = lambda E_, c, a: VSeq([], "set")
                def mk(E=E, pat=pat, bname=bname, mkb=mkb):
                    if bname == "MintBuilder":
                        ents = []
                        for j, k in enumerate(pat):
                            sm = VEnum("ScriptMint", "Native", [VLazy("nm%d" % j, "NativeMints")]) if k == "N" else \
                                VEnum("ScriptMint", "Plutus", [E.mk_struct("PlutusMints", script=src(E, j, k), redeemer=VLazy("r%d" % j, "Redeemer"), mints=VLazy("m%d" % j, "BTreeMap<AssetName, Int>"))])
                            ents.append(VStruct("()", [VLazy("policy%d" % j, "ScriptHash"), sm]))
                        return [R(E.mk_struct("MintBuilder", mints=VSeq(ents, "map")), "self")]
                    return [R(mkb(E, [wit(E, j, k) for j, k in enumerate(pat)]), "self")]
                try:
                    outs = E.explore("%s::get_used_plutus_lang_versions" % bname, mk, max_paths=50)
                except Unsupported as e:
                    ob.fail("%s %s: cannot be executed (%s)" % (bname, "/".join(pat), str(e)[:160])); continue
                for o in outs:
                    if o.kind != "return":
                        ob.vc("%s: no panic (%s %s)" % (bname, o.kind, o.msg[:60]), o.pc, z3.BoolVal(False)); continue
                    nok += 1
                    E.enter(o)
                    got = [E.as_u(VM.deref(E, x)) for x in VM.deref(E, o.value).items]
                    want = []
                    for j, k in enumerate(pat):
                        if k == "PA":
                            want.append(z3.Function("language_of_script", E.U, E.U)(E.as_u(VLazy("script%d" % j, "PlutusScript"))))
                        elif k == "PR":
                            want.append(E.as_u(VLazy("reflang%d" % j, "Language")))
                    if len(got) != len(want):
                        ob.violation("%s with witnesses %s: %d languages reported, %d Plutus witnesses (attached or by reference) are held" % (bname, "/".join(pat), len(got), len(want))); continue
                    if want:
                        ob.vc("%s with witnesses %s: the languages reported are those of the Plutus witnesses" % (bname, "/".join(pat)), o.pc, z3.And([g == w for g, w in zip(got, want)]))
                agg.stats["paths"] += E.stats["paths"]; agg.stats["feasibility_queries"] += E.stats["feasibility_queries"]; agg.stats["functions"] |= E.stats["functions"]
    if nok < 60:
        ob.fail("only %d executions" % nok)
    ob.cross_every = 8
    ob.finish(agg, lambda m, info=None: ("e2n_c09_ref_script_languages", []))
