"""C18: witness requirements are complete, unique and sized exactly — E2 obligations.

 * count_needed_vkeys is the size of exactly the union of the seven key sources (pointwise: an arbitrary key is counted
   iff some source requires it);
 * witness_keys_for_cert follows the ledger's witsVKeyNeeded table for all 19 certificate kinds x key/script credential;
 * fake_full_tx puts into the sized transaction one mock vkey witness per counted key (pairwise distinct mock keys),
   one bootstrap witness per Byron address, the combined scripts, and the body it was given.
"""
import re
import z3
from engine import *
from prove import Obligation
import keysetmodel as KS
import valuemodel as VM

def R(v, name="tmp"):
    return VRef(Cell(v, name))

def opt(x):
    return VEnum("Option", "Some", [x]) if x is not None else VEnum("Option", "None", [])


def obligations(ctx):
    P = ctx.P
    # ------------------------------------------------------------------ count_needed_vkeys = |union of seven sources|
    E = Engine(P)
    KS.install(E)
    src = {n: z3.Bool("member_" + n) for n in ("inputs", "collateral", "required_signers", "mint_scripts", "withdrawals", "certs", "votes")}
    present = {n: z3.Bool("has_" + n) for n in ("mint", "withdrawals", "certs", "votes")}
    def from_inputs(E_, c, args):
        a = VM.deref(E_, args[0])
        which = "collateral" if isinstance(a, VLazy) and a.path == "collateral" else "inputs"
        return KS.mk(src[which])
    E.extra_intrinsics[r"Ed25519KeyHashes as From<&(tx_inputs_builder::)?TxInputsBuilder>>::from$"] = from_inputs
    E.extra_intrinsics[r"Ed25519KeyHashes as From<&(protocol_types::native_scripts::)?NativeScripts>>::from$"] = lambda E_, c, a: KS.mk(src["mint_scripts"])
    E.extra_intrinsics[r"MintBuilder::get_native_scripts$"] = lambda E_, c, a: VLazy("mint_native_scripts", "NativeScripts")
    E.extra_intrinsics[r"MintBuilder::get_required_signers$"] = lambda E_, c, a: KS.mk(src["mint_scripts"])      # what it returns is c18_e2_mint_signers_follow_the_sources
    E.extra_intrinsics[r"WithdrawalsBuilder::get_required_signers$"] = lambda E_, c, a: KS.mk(src["withdrawals"])
    E.extra_intrinsics[r"CertificatesBuilder::get_required_signers$"] = lambda E_, c, a: KS.mk(src["certs"])
    E.extra_intrinsics[r"VotingBuilder::get_required_signers$"] = lambda E_, c, a: KS.mk(src["votes"])
    def mk():
        def o(n, ty):
            return opt(VLazy(n + "_b", ty)) if E.choose([present[n], z3.Not(present[n])], n) == 0 else opt(None)
        tb = E.mk_struct("TransactionBuilder", inputs=VLazy("inputs", "TxInputsBuilder"), collateral=VLazy("collateral", "TxInputsBuilder"),
                         required_signers=KS.mk(src["required_signers"]), mint=o("mint", "MintBuilder"), withdrawals=o("withdrawals", "WithdrawalsBuilder"),
                         certs=o("certs", "CertificatesBuilder"), voting_procedures=o("votes", "VotingBuilder"))
        return [R(tb, "tx_builder")]
    ob = Obligation(ctx, "c18_e2_count_needed_vkeys_is_union", "membership of an arbitrary key in each of the seven sources: arbitrary; optional sub-builders present/absent",
                    ["count_needed_vkeys"], fallback_native=["e2n_builder_battery", "e2n_c18_shared_keys"])
    n = 0
    for o in E.explore("count_needed_vkeys", mk):
        if o.kind != "return":
            ob.vc("no panic (%s %s)" % (o.kind, o.msg), o.pc, z3.BoolVal(False)); continue
        lens = [t for t in o.trace if t[0] == "keyset_len"]
        if not lens:
            ob.fail("count is not built from the len() of key sets"); continue
        n += 1
        exp = z3.Or(src["inputs"], src["collateral"], src["required_signers"], z3.And(present["mint"], src["mint_scripts"]),
                    z3.And(present["withdrawals"], src["withdrawals"]), z3.And(present["certs"], src["certs"]), z3.And(present["votes"], src["votes"]))
        # pointwise: what an arbitrary key contributes to the count is the number of measured sets that hold it (one merged set on the
        # unchanged tree); it must be 1 when some source requires the key and 0 otherwise - never 2 (a key needed on two sides signs once)
        contrib = z3.Sum([z3.If(t[1], 1, 0) for t in lens])
        ob.vc("an arbitrary key is counted exactly once iff one of the seven sources requires it (%d set lengths enter the count)" % len(lens), o.pc, contrib == z3.If(exp, 1, 0))
    if n == 0:
        ob.fail("no path")
    ob.finish(E)

    # ------------------------------------------------------------------ signers required by the inputs = vkeys + signers of EVERY script witness
    import itertools
    ob = Obligation(ctx, "c18_e2_input_signers_union", "1-2 script hashes x 1-2 inputs each, witness of each input native / Plutus / absent; signer sets arbitrary (pointwise)",
                    ["<Ed25519KeyHashes as From<&TxInputsBuilder>>::from"], fallback_native="e2n_builder_battery")
    agg = Engine(P)
    layouts = [(1,), (2,), (1, 1), (2, 1), (2, 2)] if ctx.tier == "quick" else [(1,), (2,), (3,), (1, 1), (2, 1), (2, 2), (3, 2)]
    for layout in layouts:
        n = sum(layout)
        for pat in itertools.product("NPA", repeat=n):
            if ctx.tier == "quick" and n > 3 and pat.count("A") > 1:
                continue
            E = Engine(P, max_loop=n + 4)
            KS.install(E)
            m0 = z3.Bool("member_vkeys")
            mem = [z3.Bool("member_item%d" % j) for j in range(n)]
            has = [z3.Bool("declares_item%d" % j) for j in range(n)]
            def sig_stub(E_, c, args, mem=mem, has=has):
                w = VM.deref(E_, args[0])
                j = int(w.path[len("item"):].split(".")[0])
                i = E_.choose([has[j], z3.Not(has[j])], "signers declared")
                return opt(KS.mk(mem[j])) if i == 0 else opt(None)
            E.extra_intrinsics[r"NativeScriptSourceEnum::required_signers$"] = sig_stub
            E.extra_intrinsics[r"PlutusWitness::get_required_signers$"] = sig_stub
            def mk(layout=layout, pat=pat, E=E, m0=m0):
                groups, j = [], 0
                for h, cnt in enumerate(layout):
                    inner = []
                    for _ in range(cnt):
                        k = pat[j]
                        w = opt(VEnum("ScriptWitnessType", "NativeScriptWitness", [VLazy("item%d" % j, "NativeScriptSourceEnum")])) if k == "N" else \
                            (opt(VEnum("ScriptWitnessType", "PlutusScriptWitness", [VLazy("item%d" % j, "PlutusWitness")])) if k == "P" else opt(None))
                        inner.append(VStruct("()", [VLazy("txin%d" % j, "TransactionInput"), w]))
                        j += 1
                    groups.append(VStruct("()", [VLazy("sh%d" % h, "ScriptHash"), VSeq(inner, "map")]))
                rw = E.mk_struct("InputsRequiredWitness", vkeys=KS.mk(m0), scripts=VSeq(groups, "map"))
                return [R(E.mk_struct("TxInputsBuilder", required_witnesses=rw), "inputs")]
            for o in E.explore("<protocol_types::ed25519_key_hashes::Ed25519KeyHashes as From<&tx_inputs_builder::TxInputsBuilder>>::from", mk):
                if o.kind != "return":
                    ob.vc("no panic (%s %s)" % (o.kind, o.msg), o.pc, z3.BoolVal(False)); continue
                E.enter(o)
                exp = z3.Or([m0] + [z3.And(has[j], mem[j]) for j in range(n) if pat[j] != "A"])
                ob.vc("layout %s witnesses %s: an arbitrary key is required iff it is a payment key or a declared signer of ANY script witness" % (layout, "".join(pat)),
                      o.pc, KS.member_of(E, o.value) == exp)
            agg.stats["paths"] += E.stats["paths"]; agg.stats["feasibility_queries"] += E.stats["feasibility_queries"]; agg.stats["functions"] |= E.stats["functions"]
    ob.finish(agg)

    # ------------------------------------------------------------------ certificate signer table
    from obl.c20 import shapes
    SH = shapes()
    # ledger table (Conway witsVKeyNeeded): which credential of the certificate must sign
    need = {0: None, 1: "cred", 2: "cred", 3: "cred", 4: "cred", 5: "pool", 6: "kh", 7: "genesis", 8: None, 9: "cred", 10: "cred",
            11: "cred", 12: "cred", 13: "cred", 14: "cred", 15: "cred", 16: "cred", 17: "cred", 18: "cred"}
    ob = Obligation(ctx, "c18_e2_certificate_signer_table", "all 19 certificate kinds x key/script credential; membership of an arbitrary key",
                    ["witness_keys_for_cert"], fallback_native="e2n_builder_battery")
    engines = []
    for i, sh in enumerate(SH):
        if need[i] in ("pool", "genesis"):
            continue            # pool parameters / genesis delegate hash go through byte conversions: covered by E1 in the thorough tier
        for is_key in (True,):
            E = Engine(P)
            engines.append(E)
            KS.install(E, record_len=False)
            coin = E.sym_int("coin", "u64")
            def mk(i=i, sh=sh, is_key=is_key, E=E, coin=coin):
                # credentials created inside the shape builders are lazies named "<tag>_cred": pre-resolve the first one
                cert = sh["mk"](E, "c", coin)
                return [R(cert, "cert")]
            for o in E.explore("witness_keys_for_cert", mk):
                if o.kind != "return":
                    ob.vc("no panic [%s] (%s %s)" % (sh["desc"], o.kind, o.msg), o.pc, z3.BoolVal(False)); continue
                E.enter(o)
                member = KS.member_of(E, o.value)
                # the lazily initialised credential "c_cred" resolved to Key(h) or Script(_) on this path
                d = z3.Int("c_cred.0#d")
                keyh = z3.Const("lazy_c_cred.0.Key.0@0", E.U)
                khh = z3.Const("lazy_c_kh@0", E.U)
                if need[i] is None:
                    exp = z3.BoolVal(False)
                elif need[i] == "kh":
                    exp = khh == KS.K(E)
                else:
                    exp = z3.And(d == 0, keyh == KS.K(E))
                ob.vc("[%s] an arbitrary key must sign iff the ledger table says so" % sh["desc"], o.pc, member == exp, info=dict(shape=i))
    agg = Engine(P)
    for E in engines:
        agg.stats["paths"] += E.stats["paths"]; agg.stats["feasibility_queries"] += E.stats["feasibility_queries"]; agg.stats["functions"] |= E.stats["functions"]
    ob.finish(agg, lambda m, info=None: ("e2n_c18_cert_signers", [[info["shape"]]]))

    # ------------------------------------------------------------------ fake_full_tx: witnesses as counted
    for nkeys in (0, 1, 2, 3):
        for nboot in (0, 1, 2):
            E = Engine(P, max_loop=6)
            E.extra_intrinsics[r"(^|::)count_needed_vkeys$"] = lambda E_, c, a, nkeys=nkeys: VInt(nkeys, "usize")
            E.extra_intrinsics[r"(^|::)get_bootstraps$"] = lambda E_, c, a, nboot=nboot: VSeq([VLazy("byron_bytes%d" % j, "std::vec::Vec<u8>") for j in range(nboot)], "set")
            E.extra_intrinsics[r"BTreeSet::<std::vec::Vec<u8>>::len$"] = lambda E_, c, a: VInt(len(VM.deref(E_, a[0]).items), "usize")
            E.extra_intrinsics[r"(^|::)fake_raw_key_sig$"] = lambda E_, c, a: VLazy("fake_sig", "Ed25519Signature")
            E.extra_intrinsics[r"(^|::)fake_raw_key_public$"] = lambda E_, c, a: (E_.trace.append(("fake_key", a[0].t)), VOpaque("fake_pk", [], z3.Function("fake_pk", z3.IntSort(), E_.U)(a[0].t)))[1]
            E.extra_intrinsics[r"(^|::)fake_bootstrap_witness$"] = lambda E_, c, a: (E_.trace.append(("fake_boot", a[0].t, E_.as_u(a[1]))), VLazy("bootwit", "BootstrapWitness"))[1]
            E.extra_intrinsics[r"ByronAddress::from_bytes$"] = lambda E_, c, a: VEnum("Result", "Ok", [VOpaque("byron", [], z3.Function("byron_of", E_.U, E_.U)(E_.as_u(a[0])))])
            E.extra_intrinsics[r"Vkeywitnesses::new$"] = lambda E_, c, a: VSeq([], "vkeys")
            E.extra_intrinsics[r"Vkeywitnesses::add$"] = lambda E_, c, a: (E_.read_ref(a[0]).items.append(VM.deref(E_, a[1])), VBool(True))[1]
            E.extra_intrinsics[r"BootstrapWitnesses::new$"] = lambda E_, c, a: VSeq([], "boots")
            E.extra_intrinsics[r"BootstrapWitnesses::add$"] = lambda E_, c, a: (E_.read_ref(a[0]).items.append(VM.deref(E_, a[1])), VBool(True))[1]
            E.extra_intrinsics[r"TransactionBuilder::get_combined_plutus_scripts$"] = lambda E_, c, a: opt(None)
            E.extra_intrinsics[r"TransactionBuilder::get_combined_native_scripts$"] = lambda E_, c, a: opt(VLazy("combined_native", "NativeScripts"))
            def wsnew(E_, c, a):
                E_.trace.append(("witness_set", a))
                return VLazy("ws", "TransactionWitnessSet")
            E.extra_intrinsics[r"TransactionWitnessSet::new_with_partial_dedup$"] = wsnew
            def mk():
                tb = E.mk_struct("TransactionBuilder", inputs=VLazy("inputs", "TxInputsBuilder"), extra_datums=opt(None), auxiliary_data=opt(VLazy("aux", "AuxiliaryData")))
                return [R(tb, "tx_builder"), VLazy("body", "TransactionBody")]
            ob = Obligation(ctx, "c18_e2_fake_full_tx_%dkeys_%dbootstraps" % (nkeys, nboot), "%d counted keys, %d Byron addresses; no Plutus scripts" % (nkeys, nboot), ["fake_full_tx"],
                            fallback_native="e2n_builder_battery")
            nok = 0
            for o in E.explore("fake_full_tx", mk):
                if o.kind != "return":
                    ob.vc("no panic (%s %s)" % (o.kind, o.msg), o.pc, z3.BoolVal(False)); continue
                if o.value.variant != "Ok":
                    continue
                nok += 1
                E.enter(o)
                ws = [t for t in o.trace if t[0] == "witness_set"]
                if len(ws) != 1:
                    ob.fail("witness set not built exactly once"); continue
                a = ws[0][1]
                vk, boots = a[0], a[2]
                nvk = len(vk.fields[0].items) if vk.variant == "Some" else 0
                nb = len(boots.fields[0].items) if boots.variant == "Some" else 0
                if nvk != nkeys or nb != nboot:
                    ob.fail("sized transaction carries %d vkey / %d bootstrap witnesses, expected %d / %d" % (nvk, nb, nkeys, nboot))
                keys = [t[1] for t in o.trace if t[0] == "fake_key"]
                if len(keys) != nkeys:
                    ob.fail("mock keys generated: %d" % len(keys))
                elif nkeys > 1:
                    ob.vc("mock keys are generated from pairwise distinct indices", o.pc, z3.Distinct(*keys))
                bidx = [t[1] for t in o.trace if t[0] == "fake_boot"]
                if len(bidx) > 1:
                    ob.vc("mock bootstrap witnesses are generated from pairwise distinct indices", o.pc, z3.Distinct(*bidx))
                tx = o.value.fields[0]
                names = P.struct_fields["Transaction"]
                ob.vc("sized transaction carries the body it was given", o.pc, E.as_u(tx.fields[names.index("body")]) == z3.Const("lazy_body@0", E.U))
                ob.vc("sized transaction carries the builder's auxiliary data", o.pc, E.as_u(tx.fields[names.index("auxiliary_data")]) == E.as_u(opt(VLazy("aux", "AuxiliaryData"))))
                ob.vc("native scripts in the sized transaction are the combined native scripts", o.pc, E.as_u(a[1]) == E.as_u(opt(VLazy("combined_native", "NativeScripts"))))
            if nok == 0:
                ob.fail("no Ok path")
            ob.finish(E)


    # ------------------------------------------------------------------ fake_full_tx: scripts, datums and redeemers of the sized transaction
    # (the witnesses the real witness set will carry: collected scripts / redeemers, collected datums followed by every extra datum)
    from obl.c09 import names_of
    for nextra in (-1, 1, 2):
        E = Engine(P, max_loop=8)
        has_scripts, cd = z3.Bool("has_plutus_scripts"), z3.Bool("collected_datums_present")
        E.extra_intrinsics[r"(^|::)count_needed_vkeys$"] = lambda E_, c, a: VInt(0, "usize")
        E.extra_intrinsics[r"(^|::)get_bootstraps$"] = lambda E_, c, a: VSeq([], "set")
        E.extra_intrinsics[r"BTreeSet::<std::vec::Vec<u8>>::len$"] = lambda E_, c, a: VInt(0, "usize")
        E.extra_intrinsics[r"(^|::)fake_raw_key_sig$"] = lambda E_, c, a: VLazy("fake_sig", "Ed25519Signature")
        E.extra_intrinsics[r"TransactionBuilder::get_combined_native_scripts$"] = lambda E_, c, a: opt(None)
        def gcps(E_, c, a):
            return opt(VStruct("PlutusWitnesses", [VSeq([VLazy("pw", "PlutusWitness")], "vec")])) if E_.choose([has_scripts, z3.Not(has_scripts)], "plutus scripts present") == 0 else opt(None)
        E.extra_intrinsics[r"TransactionBuilder::get_combined_plutus_scripts$"] = gcps
        def collect(E_, c, args):
            d = opt(E_.mk_struct("PlutusList", elems=VSeq([VOpaque("collected_datums")], "vec"))) if E_.choose([cd, z3.Not(cd)], "collected datums") == 0 else opt(None)
            return VStruct("()", [VLazy("collected_scripts", "PlutusScripts"), d, VLazy("collected_redeemers", "Redeemers")])
        E.extra_intrinsics[r"PlutusWitnesses::collect$"] = collect
        def wsnew(E_, c, a):
            E_.trace.append(("witness_set", a))
            return VLazy("ws", "TransactionWitnessSet")
        E.extra_intrinsics[r"TransactionWitnessSet::new_with_partial_dedup$"] = wsnew
        def mk(nextra=nextra, E=E):
            extra = opt(E.mk_struct("PlutusList", elems=VSeq([VLazy("extra_datum%d" % j, "PlutusData") for j in range(nextra)], "vec"))) if nextra >= 0 else opt(None)
            tb = E.mk_struct("TransactionBuilder", inputs=VLazy("inputs", "TxInputsBuilder"), extra_datums=extra, auxiliary_data=opt(None))
            return [R(tb, "tx_builder"), VLazy("body", "TransactionBody")]
        ob = Obligation(ctx, "c18_e2_fake_full_tx_plutus_part_%s_extra_datums" % ("no" if nextra < 0 else nextra), "Plutus scripts present / absent, collected datums present / absent, %s extra witness datums" % ("no" if nextra < 0 else nextra),
                        ["fake_full_tx"], fallback_native="e2n_c09_battery")
        npaths = 0
        for o in E.explore("fake_full_tx", mk):
            if o.kind != "return":
                ob.vc("no panic (%s %s)" % (o.kind, o.msg), o.pc, z3.BoolVal(False)); continue
            if o.value.variant != "Ok":
                continue
            npaths += 1
            E.enter(o)
            ws = [t for t in o.trace if t[0] == "witness_set"]
            if len(ws) != 1:
                ob.fail("witness set not built exactly once"); continue
            a = ws[0][1]
            scripts, data, reds = a[3], a[4], a[5]
            sol = z3.Solver(); sol.add(*o.pc)
            hs = sol.check(has_scripts) == z3.sat and sol.check(z3.Not(has_scripts)) != z3.sat
            hd = hs and sol.check(cd) == z3.sat and sol.check(z3.Not(cd)) != z3.sat
            if (scripts.variant == "Some") != hs or (hs and not (isinstance(scripts.fields[0], VLazy) and scripts.fields[0].path == "collected_scripts")):
                ob.violation("sized transaction: Plutus scripts are not the collected scripts (present %s)" % hs)
            if (reds.variant == "Some") != hs or (hs and not (isinstance(reds.fields[0], VLazy) and reds.fields[0].path == "collected_redeemers")):
                ob.violation("sized transaction: redeemers are not the collected redeemers (present %s)" % hs)
            want = (["Opaque(collected_datums)"] if hd else []) + ["extra_datum%d" % j for j in range(max(nextra, 0))]
            got = names_of(E, VM.deref(E, data.fields[0]).fields[P.struct_fields["PlutusList"].index("elems")]) if data.variant == "Some" else None
            if (got or []) != want or (got is None and (hd or nextra >= 0)):
                ob.violation("sized transaction carries the datums %s, the real witness set will carry %s (collected datums %s, %s extra)" % (got, want, "present" if hd else "absent", max(nextra, 0)))
        if npaths < 3:
            ob.fail("only %d Ok paths (expected: no scripts, scripts without datums, scripts with datums)" % npaths)
        ob.finish(E)
    declared_signers(ctx)
    mint_signers(ctx)
    input_reference_inputs(ctx)
    mock_keys_injective(ctx)


def declared_signers(ctx):
    """A signer set declared for a native-script source is what the builder counts for it — whether the source carries the
    script inline or points at a reference input, and whether the declared set is empty or not (a script satisfied by a
    time lock needs NO key: falling back to "every key in the script" would count witnesses nobody provides)."""
    P = ctx.P
    ob = Obligation(ctx, "c18_e2_declared_native_script_signers_respected", "both kinds of native-script source; declared signer set arbitrary (its size an arbitrary number, 0 included); set, then read",
                    ["NativeScriptSourceEnum::set_required_signers", "NativeScriptSourceEnum::required_signers"], fallback_native="e2n_c18_declared_signers")
    agg = Engine(P)
    U = agg.U
    E = Engine(P, max_loop=4)
    E.U = U
    nread = 0
    variants = set()
    for o in E.explore("NativeScriptSourceEnum::set_required_signers", lambda: [R(VLazy("source", "NativeScriptSourceEnum"), "self"), R(VLazy("declared", "Ed25519KeyHashes"), "key_hashes")], max_paths=40):
        if o.kind != "return":
            ob.vc("set_required_signers: no panic (%s %s)" % (o.kind, o.msg[:80]), o.pc, z3.BoolVal(False)); continue
        E.enter(o)
        st = VM.deref(E, o.args[0])
        variants.add(st.variant if isinstance(st, VEnum) else "?")
        S = Engine(P, max_loop=4)
        S.U = U
        S.base = list(o.pc)
        # "every key in the script" (the fallback for an inline script WITHOUT a declaration) is some other set
        for rx in (r"Ed25519KeyHashes as From<&(protocol_types::native_script::)?NativeScript>>::from$", r"NativeScript as Into<(protocol_types::ed25519_key_hashes::)?Ed25519KeyHashes>>::into$"):
            S.extra_intrinsics[rx] = lambda E_, c, a: VLazy("every_key_of_the_script", "Ed25519KeyHashes")
        def mk2(st=st, S=S, o=o):
            S.lazy_ident.update(o.idents)
            S.pc.append(S.as_u(VLazy("every_key_of_the_script", "Ed25519KeyHashes")) != z3.Const("lazy_declared@0", U))
            return [R(clone(st), "self")]
        for r in S.explore("NativeScriptSourceEnum::required_signers", mk2, max_paths=40):
            what = "source kind %s" % (st.variant if isinstance(st, VEnum) else "?")
            if r.kind != "return":
                ob.vc("%s: required_signers does not panic (%s %s)" % (what, r.kind, r.msg[:80]), r.pc, z3.BoolVal(False)); continue
            nread += 1
            S.enter(r)
            v = r.value
            if not (isinstance(v, VEnum) and v.variant == "Some"):
                ob.vc("%s: after a signer set was declared, required_signers returns it (got None)" % what, r.pc, z3.BoolVal(False)); continue
            ob.vc("%s: required_signers returns exactly the declared set, whatever its size" % what, r.pc, S.as_u(VM.deref(S, v.fields[0])) == z3.Const("lazy_declared@0", U))
        agg.stats["paths"] += S.stats["paths"]; agg.stats["functions"] |= S.stats["functions"]
    agg.stats["paths"] += E.stats["paths"]; agg.stats["feasibility_queries"] += E.stats["feasibility_queries"]; agg.stats["functions"] |= E.stats["functions"]
    if variants != {"NativeScript", "RefInput"} or nread < 2:
        ob.fail("expected both source kinds, saw %s (%d reads)" % (sorted(variants), nread))
    ob.finish(agg)


def mint_signers(ctx):
    """The keys counted for the mint field are the union, over the mint entries, of what each script source says must sign:
    a declared signer set if there is one (inline or reference-input script, native or Plutus), otherwise every key of an
    inline native script, otherwise nothing.  Executed through count_needed_vkeys with only the mint builder present."""
    import itertools
    P = ctx.P
    ob = Obligation(ctx, "c18_e2_mint_signers_follow_the_sources", "1-2 mint entries, each one of: inline native (declared / undeclared), reference-input native (declared / undeclared), Plutus inline / reference (declared / undeclared); signer sets arbitrary (pointwise)",
                    ["count_needed_vkeys", "MintBuilder::get_native_scripts / get_required_signers", "NativeScriptSourceEnum::required_signers", "PlutusScriptSourceEnum::get_required_signers"],
                    fallback_native="e2n_c18_declared_signers")
    agg = Engine(P)
    kinds = ["NI-D", "NI-U", "NR-D", "NR-U", "PS-D", "PS-U", "PR-D", "PR-U"]
    combos = [(k,) for k in kinds] + ([(a, b) for a, b in itertools.product(kinds, repeat=2) if a < b] if ctx.tier != "quick" else [("NI-D", "NR-D"), ("NI-U", "PS-D"), ("NR-D", "PR-D"), ("NI-D", "NI-U")])
    n_ok = 0
    for combo in combos:
        E = Engine(P, max_loop=len(combo) + 4)
        KS.install(E)
        E.extra_intrinsics[r"Ed25519KeyHashes as From<&(protocol_types::native_script::)?NativeScript>>::from$"] = \
            lambda E_, c, a: KS.mk(z3.Function("key_in_script", E_.U, z3.BoolSort())(E_.as_u(VM.deref(E_, a[0]))))
        E.extra_intrinsics[r"NativeScript as Into<(protocol_types::ed25519_key_hashes::)?Ed25519KeyHashes>>::into$"] = \
            lambda E_, c, a: KS.mk(z3.Function("key_in_script", E_.U, z3.BoolSort())(E_.as_u(VM.deref(E_, a[0]))))
        E.extra_intrinsics[r"Ed25519KeyHashes as From<&(tx_inputs_builder::)?TxInputsBuilder>>::from$"] = lambda E_, c, a: KS.mk(z3.BoolVal(False))
        spec = []
        def mk(E=E, combo=combo, spec=spec):
            del spec[:]
            entries = []
            for j, k in enumerate(combo):
                declared = VEnum("Option", "Some", [VLazy("declared%d" % j, "Ed25519KeyHashes")]) if k.endswith("-D") else VEnum("Option", "None", [])
                dm = KS.member_of(E, VLazy("declared%d" % j, "Ed25519KeyHashes"))
                if k.startswith("NI"):
                    scr = VLazy("script%d" % j, "NativeScript")
                    src_ = VEnum("NativeScriptSourceEnum", "NativeScript", [scr, declared])
                    sm = VEnum("ScriptMint", "Native", [E.mk_struct("NativeMints", script=src_, mints=VLazy("m%d" % j, "BTreeMap<AssetName, Int>"))])
                    spec.append(dm if k.endswith("-D") else z3.Function("key_in_script", E.U, z3.BoolSort())(E.as_u(scr)))
                elif k.startswith("NR"):
                    src_ = VEnum("NativeScriptSourceEnum", "RefInput", [VLazy("refin%d" % j, "TransactionInput"), VLazy("shash%d" % j, "ScriptHash"), declared, VInt(40, "usize")])
                    sm = VEnum("ScriptMint", "Native", [E.mk_struct("NativeMints", script=src_, mints=VLazy("m%d" % j, "BTreeMap<AssetName, Int>"))])
                    spec.append(dm if k.endswith("-D") else z3.BoolVal(False))
                else:
                    src_ = VEnum("PlutusScriptSourceEnum", "Script" if k.startswith("PS") else "RefInput", [VLazy("pscript%d" % j, "PlutusScript" if k.startswith("PS") else "PlutusScriptRef"), declared])
                    sm = VEnum("ScriptMint", "Plutus", [E.mk_struct("PlutusMints", script=src_, redeemer=VLazy("red%d" % j, "Redeemer"), mints=VLazy("m%d" % j, "BTreeMap<AssetName, Int>"))])
                    spec.append(dm if k.endswith("-D") else z3.BoolVal(False))
                entries.append(VStruct("()", [VLazy("policy%d" % j, "ScriptHash"), sm]))
            none = VEnum("Option", "None", [])
            tb = E.mk_struct("TransactionBuilder", inputs=VLazy("inputs", "TxInputsBuilder"), collateral=VLazy("collateral", "TxInputsBuilder"), required_signers=KS.mk(z3.BoolVal(False)),
                             mint=VEnum("Option", "Some", [E.mk_struct("MintBuilder", mints=VSeq(entries, "map"))]), withdrawals=none, certs=none, voting_procedures=none)
            return [R(tb, "tx_builder")]
        try:
            outs = E.explore("count_needed_vkeys", mk, max_paths=60)
        except Unsupported as e:
            ob.fail("mint entries %s: the counting code cannot be executed (%s)" % (list(combo), str(e)[:140])); continue
        for o in outs:
            if o.kind != "return":
                ob.vc("no panic (%s %s)" % (o.kind, o.msg[:80]), o.pc, z3.BoolVal(False)); continue
            lens = [t for t in o.trace if t[0] == "keyset_len"]
            if not lens:
                ob.fail("count is not built from the len() of key sets"); continue
            n_ok += 1
            ob.vc("mint entries %s: an arbitrary key is counted exactly once iff one of the script sources requires it" % list(combo), o.pc,
                  z3.Sum([z3.If(t[1], 1, 0) for t in lens]) == z3.If(z3.Or(list(spec)), 1, 0), info=list(combo))
        agg.stats["paths"] += E.stats["paths"]; agg.stats["feasibility_queries"] += E.stats["feasibility_queries"]; agg.stats["functions"] |= E.stats["functions"]
    if n_ok == 0:
        ob.fail("no path")
    ob.cross_every = 4
    ob.finish(agg, lambda m, info=None: ("e2n_c18_declared_signers", []))


def input_reference_inputs(ctx):
    """'its script available exactly once - in the witness set, or through a declared reference input that then appears among the
    body's reference inputs - together with its datum': TxInputsBuilder::get_ref_inputs hands on EVERY reference the witnesses of
    the script-locked inputs declare (script by reference, datum by reference), whichever input declares it, and nothing else."""
    import itertools
    P = ctx.P
    ob = Obligation(ctx, "c18_e2_input_reference_inputs_complete", "1-2 script hashes x 1-2 inputs each; witness of each input: native inline / native by reference / Plutus with script and datum each inline or by reference / absent",
                    ["TxInputsBuilder::get_ref_inputs"], fallback_native="e2n_c18_ref_inputs")
    agg = Engine(P)
    KINDS = ["NI", "NR", "Pii", "Pir", "Pri", "Prr", "A"]      # P<script><datum>: i = inline, r = by reference
    layouts = [(1,), (2,), (1, 1), (2, 1)]
    nok = 0
    for layout in layouts:
        n = sum(layout)
        pats = list(itertools.product(KINDS, repeat=n))
        if ctx.tier == "quick" and n == 3:
            pats = [p for p in pats if sum(1 for k in p if k in ("NR", "Pir", "Pri", "Prr")) >= 2 and p.count("A") == 0][::3]
        for pat in pats:
            E = Engine(P, max_loop=2 * n + 6)
            E.U = agg.U
            want = []
            def mk(layout=layout, pat=pat, E=E, want=want):
                del want[:]
                groups, j = [], 0
                for h, cnt in enumerate(layout):
                    inner = []
                    for _ in range(cnt):
                        k = pat[j]
                        if k == "A":
                            w = opt(None)
                        elif k == "NI":
                            w = opt(VEnum("ScriptWitnessType", "NativeScriptWitness", [VEnum("NativeScriptSourceEnum", "NativeScript", [VLazy("ns%d" % j, "NativeScript"), VLazy("sg%d" % j, "Option<Ed25519KeyHashes>")])]))
                        elif k == "NR":
                            w = opt(VEnum("ScriptWitnessType", "NativeScriptWitness", [VEnum("NativeScriptSourceEnum", "RefInput", [VLazy("nref%d" % j, "TransactionInput"), VLazy("nh%d" % j, "ScriptHash"),
                                                                                                                                  VLazy("sg%d" % j, "Option<Ed25519KeyHashes>"), VInt(40, "usize")])]))
                            want.append("nref%d" % j)
                        else:
                            script = VEnum("PlutusScriptSourceEnum", "Script", [VLazy("ps%d" % j, "PlutusScript"), VLazy("psg%d" % j, "Option<Ed25519KeyHashes>")]) if k[1] == "i" else \
                                VEnum("PlutusScriptSourceEnum", "RefInput", [E.mk_struct("PlutusScriptRef", input_ref=VLazy("sref%d" % j, "TransactionInput")), VLazy("psg%d" % j, "Option<Ed25519KeyHashes>")])
                            datum = opt(VEnum("DatumSourceEnum", "Datum", [VLazy("d%d" % j, "PlutusData")])) if k[2] == "i" else opt(VEnum("DatumSourceEnum", "RefInput", [VLazy("dref%d" % j, "TransactionInput")]))
                            if k[2] == "r":
                                want.append("dref%d" % j)
                            if k[1] == "r":
                                want.append("sref%d" % j)
                            w = opt(VEnum("ScriptWitnessType", "PlutusScriptWitness", [E.mk_struct("PlutusWitness", script=script, datum=datum, redeemer=VLazy("red%d" % j, "Redeemer"))]))
                        inner.append(VStruct("()", [VLazy("txin%d" % j, "TransactionInput"), w]))
                        j += 1
                    groups.append(VStruct("()", [VLazy("sh%d" % h, "ScriptHash"), VSeq(inner, "map")]))
                rw = E.mk_struct("InputsRequiredWitness", scripts=VSeq(groups, "map"))
                return [R(E.mk_struct("TxInputsBuilder", required_witnesses=rw), "self")]
            def from_vec(E_, c, a):
                v = VM.deref(E_, a[0])
                E_.trace.append(("refs", [VM.deref(E_, x).path if isinstance(VM.deref(E_, x), VLazy) else repr(VM.deref(E_, x)) for x in v.items]))
                return VLazy("ref_inputs", "TransactionInputs")
            E.extra_intrinsics[r"TransactionInputs::from_vec$"] = from_vec
            try:
                outs = E.explore("TxInputsBuilder::get_ref_inputs", mk, max_paths=50)
            except Unsupported as e:
                ob.fail("layout %s witnesses %s: cannot be executed (%s)" % (layout, "/".join(pat), str(e)[:160])); continue
            for o in outs:
                if o.kind != "return":
                    ob.vc("no panic (%s %s)" % (o.kind, o.msg[:80]), o.pc, z3.BoolVal(False)); continue
                got = [t[1] for t in o.trace if t[0] == "refs"]
                if len(got) != 1:
                    ob.fail("the reference inputs are not built exactly once"); continue
                nok += 1
                if sorted(got[0]) != sorted(want):
                    ob.violation("layout %s witnesses %s: the witnesses declare the reference inputs %s, get_ref_inputs hands on %s" % (layout, "/".join(pat), sorted(want), sorted(got[0])))
            agg.stats["paths"] += E.stats["paths"]; agg.stats["feasibility_queries"] += E.stats["feasibility_queries"]; agg.stats["functions"] |= E.stats["functions"]
    if nok < 20:
        ob.fail("only %d witness patterns executed" % nok)
    ob.finish(agg, lambda m, info=None: ("e2n_c18_ref_inputs", []))


def mock_keys_injective(ctx):
    """The size (and fee) of the transaction is measured with one mock key witness per counted key; the mock witnesses live in a
    set-typed collection, so two counted keys may not get the same mock key: fake_raw_key_public, and the numbered vkey /
    signature of the mock bootstrap witnesses, are injective in their index (every u64)."""
    P = ctx.P
    ob = Obligation(ctx, "c18_e2_mock_keys_are_injective", "two arbitrary indices (all u64)", ["fake_raw_key_public", "fake_vkey_numbered", "fake_signature"], fallback_native="e2n_c18_many_signers")
    agg = Engine(P)
    for fn, sink in (("fake_raw_key_public", r"PublicKey::from_bytes$"), ("fake_vkey_numbered", r"PublicKey::from_bytes$"), ("fake_signature", r"Ed25519Signature::from_bytes$")):
        cands = [d for d in P.fns if re.search(r"(^|::)%s$" % fn, d)]
        if not cands:
            ob.fail("%s not found in the MIR" % fn); continue
        runs = []
        for who in ("i", "j"):
            E = Engine(P, max_loop=70)
            E.U = agg.U
            x = E.sym_int("index_" + who, "u64")
            cap = {}
            def grab(E_, c, a, cap=cap):
                b = VM.deref(E_, a[0])
                cap["bytes"] = [VM.deref(E_, t).t for t in b.items] if isinstance(b, VSeq) else None
                return VEnum("Result", "Ok", [VOpaque("key")])
            E.extra_intrinsics[sink] = grab
            E.extra_intrinsics[r"Vkey::new$"] = lambda E_, c, a: VOpaque("vkey")
            E.extra_intrinsics[r"<impl \[u8\]>::to_vec$|<\[u8; \d+\]>::to_vec$"] = lambda E_, c, a: VM.deref(E_, a[0])
            try:
                outs = [o for o in E.explore(cands[0], lambda x=x: [VInt(x.t, "u64")], max_paths=20) if o.kind == "return"]
            except Unsupported as e:
                ob.fail("%s cannot be executed (%s)" % (fn, str(e)[:200])); runs = None; break
            if len(outs) != 1 or not cap.get("bytes"):
                ob.fail("%s: %d returning paths, key bytes %s" % (fn, len(outs), "captured" if cap.get("bytes") else "not captured")); runs = None; break
            runs.append((x, cap["bytes"], outs[0].pc))
            agg.stats["paths"] += E.stats["paths"]; agg.stats["functions"] |= E.stats["functions"]
        if not runs:
            continue
        (xi, bi, pi), (xj, bj, pj) = runs
        ob.vc("%s: equal mock bytes imply equal indices" % fn, list(pi) + list(pj) + [z3.And([a == b for a, b in zip(bi, bj)]), xi.t >= 0, xj.t >= 0, xi.t < (1 << 64), xj.t < (1 << 64)], xi.t == xj.t, info=dict(fn=fn))
    ob.finish(agg, lambda m, info=None: ("e2n_c18_many_signers", []))
