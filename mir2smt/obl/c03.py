"""C03 (E2 part): integers are written in the form the CDDL prescribes and in the shortest head — for EVERY mathematical integer.

BigInt (and through it every Plutus-data integer): 0..2^64-1 is an unsigned integer, -2^64..-1 a negative integer whose
head width is the shortest one for its argument (-1 - x), anything larger a tag-2 / tag-3 byte string.  The real serializer
MIR is executed over the token model (num-bigint as mathematical integers); cbor_event's width-explicit writer is modelled
with the width it is GIVEN, so a width computed from the wrong quantity is visible."""
import z3
from engine import *
from prove import Obligation, mval, le_bytes
import cbormodel as CM
import valuemodel as VM

U64 = (1 << 64)


def shortest(u):
    return z3.If(u <= 23, 0, z3.If(u < 0x100, 1, z3.If(u < 0x10000, 2, z3.If(u < (1 << 32), 3, 4))))


def obligations(ctx):
    P = ctx.P
    E = Engine(P)
    CM.install(E, target="BigInt")
    x = E.sym_big("x")
    ob = Obligation(ctx, "c03_e2_bigint_integer_form", "x: every mathematical integer (unbounded)", ["<BigInt as Serialize>::serialize"])
    seen = set()
    def mk():
        return [VRef(Cell(VStruct("BigInt", [VBig(x.t)]), "self")), VRef(Cell(CM.VSer(), "ser"))]
    for o in E.explore("<BigInt as cbor_event::se::Serialize>::serialize", mk, max_paths=200):
        if o.kind != "return":
            ob.vc("no panic (%s %s)" % (o.kind, o.msg), o.pc, z3.BoolVal(False), info="int"); continue
        if o.value.variant != "Ok":
            ob.vc("serializer returns Ok", o.pc, z3.BoolVal(False), info="int"); continue
        toks = VM.deref(E, o.args[1]).tokens
        kinds = [t[0] for t in toks]
        if kinds == ["uint"]:
            seen.add("uint")
            ob.vc("unsigned integer form <=> 0 <= x < 2^64, value x", o.pc, z3.And(x.t >= 0, x.t < U64, toks[0][1] == x.t), info="int")
        elif kinds == ["nint"]:
            seen.add("nint")
            ob.vc("negative integer form <=> -2^64 <= x < 0, value x", o.pc, z3.And(x.t < 0, x.t >= -U64, toks[0][1] == x.t), info="int")
            sz = toks[0][2]
            if sz is not None:
                want = shortest(-1 - x.t)
                idx = ["Inline", "One", "Two", "Four", "Eight"].index(sz) if sz in ("Inline", "One", "Two", "Four", "Eight") else -1
                ob.vc("negative integer head has the shortest width for its argument (width written: %s)" % sz, o.pc, want == idx, info="int")
        elif kinds == ["tag", "bytes"] or kinds == ["tag", "item"] or (kinds[:1] == ["tag"] and len(kinds) == 2):
            seen.add("big")
            t = toks[0][1]
            ob.vc("tagged byte-string form only outside -2^64..2^64-1, tag 2 for positive / 3 for negative", o.pc,
                  z3.Or(z3.And(x.t >= U64, t == 2), z3.And(x.t < -U64, t == 3)), info="int")
        else:
            ob.violation("BigInt encodes as %s" % kinds)
    if not {"uint", "nint", "big"} <= seen:
        ob.fail("expected unsigned, negative and tagged forms, saw %s" % sorted(seen))
    def nat(m, info=None):
        v = mval(m, x.t)
        mag = abs(v)
        return "e2n_bigint_form", [[1 if v < 0 else 0], le_bytes(mag & (U64 - 1), 8), le_bytes((mag >> 64) & (U64 - 1), 8), le_bytes((mag >> 128) & (U64 - 1), 8)]
    ob.finish(E, nat)
    struct_forms(ctx)
    output_forms(ctx)
    param_update_keys(ctx)
    text_size_bounds(ctx)
    # mint = multiasset<nonZeroInt64>: the builder hands out a mint field only without zero quantities (shared with C14)
    from obl.c14 import mint_builder_amounts
    mint_builder_amounts(ctx, parts=("build",), name="c03_e2_mint_builder_build_refuses_zero")
    change_bundles_wellformed(ctx)
    from obl.c05 import change_step
    change_step(ctx, record=("c03",), rounds=1)


# ---------------------------------------------------------------- struct-level forms against a table written from the Conway CDDL
# type -> function(value-accessor) -> (tag | None, discriminant | None, [field paths]); a field path is a tuple of field names;
# optional fields are written as null when absent (the CDDL's `x / null`) unless the form changes with their presence.
def _forms():
    F = {}
    one = lambda *fs: [(f,) if isinstance(f, str) else f for f in fs]
    F["StakeRegistration"] = lambda has: (None, 7, one("stake_credential", "coin")) if has("coin") else (None, 0, one("stake_credential"))
    F["StakeDeregistration"] = lambda has: (None, 8, one("stake_credential", "coin")) if has("coin") else (None, 1, one("stake_credential"))
    F["StakeDelegation"] = lambda has: (None, 2, one("stake_credential", "pool_keyhash"))
    F["PoolRegistration"] = lambda has: (None, 3, [("pool_params", f) for f in ("operator", "vrf_keyhash", "pledge", "cost", "margin", "reward_account", "pool_owners", "relays", "pool_metadata")])
    F["PoolRetirement"] = lambda has: (None, 4, one("pool_keyhash", "epoch"))
    F["GenesisKeyDelegation"] = lambda has: (None, 5, one("genesishash", "genesis_delegate_hash", "vrf_keyhash"))
    F["MoveInstantaneousRewardsCert"] = lambda has: (None, 6, one("move_instantaneous_reward"))
    F["VoteDelegation"] = lambda has: (None, 9, one("stake_credential", "drep"))
    F["StakeAndVoteDelegation"] = lambda has: (None, 10, one("stake_credential", "pool_keyhash", "drep"))
    F["StakeRegistrationAndDelegation"] = lambda has: (None, 11, one("stake_credential", "pool_keyhash", "coin"))
    F["VoteRegistrationAndDelegation"] = lambda has: (None, 12, one("stake_credential", "drep", "coin"))
    F["StakeVoteRegistrationAndDelegation"] = lambda has: (None, 13, one("stake_credential", "pool_keyhash", "drep", "coin"))
    F["CommitteeHotAuth"] = lambda has: (None, 14, one("committee_cold_credential", "committee_hot_credential"))
    F["CommitteeColdResign"] = lambda has: (None, 15, one("committee_cold_credential", "anchor"))
    F["DRepRegistration"] = lambda has: (None, 16, one("voting_credential", "coin", "anchor"))
    F["DRepDeregistration"] = lambda has: (None, 17, one("voting_credential", "coin"))
    F["DRepUpdate"] = lambda has: (None, 18, one("voting_credential", "anchor"))
    F["ParameterChangeAction"] = lambda has: (None, 0, one("gov_action_id", "protocol_param_updates", "policy_hash"))
    F["HardForkInitiationAction"] = lambda has: (None, 1, one("gov_action_id", "protocol_version"))
    F["TreasuryWithdrawalsAction"] = lambda has: (None, 2, one("withdrawals", "policy_hash"))
    F["NoConfidenceAction"] = lambda has: (None, 3, one("gov_action_id"))
    F["NewConstitutionAction"] = lambda has: (None, 5, one("gov_action_id", "constitution"))
    F["InfoAction"] = lambda has: (None, 6, [])
    F["Anchor"] = lambda has: (None, None, one("anchor_url", "anchor_data_hash"))
    F["GovernanceActionId"] = lambda has: (None, None, one("transaction_id", "index"))
    F["Constitution"] = lambda has: (None, None, one("anchor", "script_hash"))
    F["VotingProcedure"] = lambda has: (None, None, one("vote", "anchor"))
    F["VotingProposal"] = lambda has: (None, None, one("deposit", "reward_account", "governance_action", "anchor"))
    F["ExUnits"] = lambda has: (None, None, one("mem", "steps"))
    F["UnitInterval"] = lambda has: (30, None, one("numerator", "denominator"))
    F["TransactionInput"] = lambda has: (None, None, one("transaction_id", "index"))
    F["ProtocolVersion"] = lambda has: (None, None, one("major", "minor"))
    F["Vkeywitness"] = lambda has: (None, None, one("vkey", "signature"))
    F["BootstrapWitness"] = lambda has: (None, None, one("vkey", "signature", "chain_code", "attributes"))
    F["PoolMetadata"] = lambda has: (None, None, one("url", "pool_metadata_hash"))
    F["OperationalCert"] = lambda has: (None, None, one("hot_vkey", "sequence_number", "kes_period", "sigma"))
    F["SingleHostAddr"] = lambda has: (None, 0, one("port", "ipv4", "ipv6"))
    F["SingleHostName"] = lambda has: (None, 1, one("port", "dns_name"))
    F["MultiHostName"] = lambda has: (None, 2, one("dns_name"))
    F["ScriptPubkey"] = lambda has: (None, 0, one("addr_keyhash"))
    F["ScriptAll"] = lambda has: (None, 1, one("native_scripts"))
    F["ScriptAny"] = lambda has: (None, 2, one("native_scripts"))
    F["ScriptNOfK"] = lambda has: (None, 3, one("n", "native_scripts"))
    F["TimelockStart"] = lambda has: (None, 4, one("slot"))
    F["TimelockExpiry"] = lambda has: (None, 5, one("slot"))
    return F


SCALARS = {"Coin", "BigNum", "Epoch", "u32", "u16", "u64", "GovernanceActionIndex", "TransactionIndex", "Port", "SlotBigNum", "Slot32"}


def struct_forms(ctx):
    P = ctx.P
    ob = Obligation(ctx, "c03_e2_struct_forms_vs_cddl", "every serializer path of 46 certificate / governance / relay / native-script / witness types on a lazily initialised value (optional fields present and absent, scalars symbolic)",
                    ["<T as Serialize>::serialize for the types of the table in mir2smt/obl/c03.py"], fallback_native="e2n_c03_struct_forms")
    agg = Engine(P)
    forms = _forms()
    covered = []
    for ty, form in forms.items():
        names, ftys = P.struct_fields.get(ty), getattr(P, "struct_field_types", {}).get(ty)
        if names is None and ty == "InfoAction":
            names, ftys = [], []          # a unit struct
        if names is None:
            ob.fail("type %s is no longer a struct with named fields" % ty); continue
        E = Engine(P, max_loop=14)
        CM.install(E, target=ty)
        npaths = 0
        try:
            outs = E.explore("<%s as cbor_event::se::Serialize>::serialize" % ty, lambda: [VRef(Cell(VLazy("v", ty), "self")), VRef(Cell(CM.VSer(), "ser"))], max_paths=200)
        except (Unsupported, PathAbort) as e:
            ob.fail("%s: serializer cannot be executed (%s)" % (ty, str(e)[:100])); continue
        for o in outs:
            if o.kind != "return" or o.value.variant != "Ok":
                continue
            npaths += 1
            E.enter(o)
            toks = list(VM.deref(E, o.args[1]).tokens)
            val = VM.deref(E, o.args[0])
            def get(path, val=val):
                """(value | None-for-absent, declared type) of a field path on the materialised value"""
                v, t = val, ty
                for f in path:
                    fn, ft = P.struct_fields[t], P.struct_field_types[t]
                    i = fn.index(f)
                    v = VM.deref(E, v.fields[i]) if isinstance(v, VStruct) else VM.deref(E, E.nav(v, [("field", i, ft[i])]))
                    t = last_seg(ft[i]) if not ft[i].startswith("Option<") else "Option<%s>" % last_seg(ft[i][7:-1])
                return v, t
            def has(f):
                v, t = get((f,))
                if isinstance(v, VLazy):
                    v = E.force_enum(v)
                return isinstance(v, VEnum) and v.variant == "Some"
            try:
                tag, disc, fields = form(has)
                exp = []
                if tag is not None:
                    exp.append(("tag", tag))
                exp.append(("array", len(fields) + (1 if disc is not None else 0)))
                if disc is not None:
                    exp.append(("uint", z3.IntVal(disc)))
                for path in fields:
                    v, t = get(path)
                    if t.startswith("Option<"):
                        if isinstance(v, VLazy):
                            v = E.force_enum(v)
                        if v.variant != "Some":
                            exp.append(("special", "Null")); continue
                        v, t = VM.deref(E, v.fields[0]), t[7:-1]
                    if t in SCALARS:
                        while isinstance(v, VStruct) and len(v.fields) == 1:
                            v = VM.deref(E, v.fields[0])
                        exp.append(("uint", v.t if isinstance(v, VInt) else None))
                    elif t == "Vec":
                        exp.append(("bytes", E.as_u(v)))
                    elif t == "VoteKind":
                        exp.append(("uint", None))
                    else:
                        exp.append(("item", E.as_u(v)))
            except (Unsupported, KeyError, ValueError, AttributeError, IndexError) as e:
                ob.fail("%s: the table cannot be evaluated on this path (%r)" % (ty, e)); continue
            what = "%s (%s)" % (ty, ", ".join("%s=%s" % (f, "Some" if has(f) else "None") for f, t in zip(names, ftys) if t.startswith("Option<")) or "no optional fields")
            got_shape = [(t[0], t[1]) if t[0] in ("array", "tag") else ((t[0], t[1]) if t[0] == "special" else (t[0],)) for t in toks]
            exp_shape = [(t[0], t[1]) if t[0] in ("array", "tag", "special") else (t[0],) for t in exp]
            if got_shape != exp_shape:
                ob.violation("%s: emitted form %s, the CDDL prescribes %s" % (what, got_shape, exp_shape)); continue
            eqs = []
            for g, e_ in zip(toks, exp):
                if e_[0] in ("uint", "item", "bytes") and len(e_) > 1 and e_[1] is not None:
                    eqs.append(g[1] == e_[1])
            if eqs:
                ob.vc("%s: discriminant and fields in CDDL order" % what, o.pc, z3.And(eqs))
        if npaths == 0:
            ob.fail("%s: no serializer path returned Ok" % ty)
        else:
            covered.append("%s(%d)" % (ty, npaths))
        agg.stats["paths"] += E.stats["paths"]; agg.stats["feasibility_queries"] += E.stats["feasibility_queries"]; agg.stats["functions"] |= E.stats["functions"]
    ob.bound += ". Covered (serializer paths): " + ", ".join(covered)
    ob.cross_every = 10
    ob.finish(agg)


# ---------------------------------------------------------------- transaction outputs: the two CDDL forms
def output_forms(ctx):
    """transaction_output = legacy_transaction_output / post_alonzo_transaction_output
         legacy      = [address, amount : value, ? datum_hash : $hash32]
         post_alonzo = {0 : address, 1 : value, ? 2 : datum_option, ? 3 : script_ref}
       Which optional parts exist is read from the VALUE (fields plutus_data / script_ref), not from the serializer's own
       branching; the emitted container must then be one of the forms the CDDL allows for that value."""
    P = ctx.P
    ob = Obligation(ctx, "c03_e2_transaction_output_forms", "every serializer path of TransactionOutput on a lazily initialised value (datum absent / hash / inline, script reference absent / present); "
                    "address, value, datum and script reference are opaque items", ["<TransactionOutput as Serialize>::serialize", "TransactionOutput::has_plutus_data / has_script_ref / data_hash", "opt64"],
                    fallback_native="e2n_c03_struct_forms")
    ty = "TransactionOutput"
    names, ftys = P.struct_fields.get(ty), getattr(P, "struct_field_types", {}).get(ty)
    if not names or not {"address", "amount", "plutus_data", "script_ref"} <= set(names):
        ob.fail("TransactionOutput no longer has the fields address/amount/plutus_data/script_ref"); ob.finish(Engine(P)); return
    E = Engine(P, max_loop=14)
    CM.install(E, target=ty)
    try:
        outs = E.explore("<%s as cbor_event::se::Serialize>::serialize" % ty, lambda: [VRef(Cell(VLazy("v", ty), "self")), VRef(Cell(CM.VSer(), "ser"))], max_paths=200)
    except (Unsupported, PathAbort) as e:
        ob.fail("serializer cannot be executed (%s)" % str(e)[:100]); ob.finish(E); return
    seen = set()
    for o in outs:
        if o.kind == "bound":
            continue
        if o.kind != "return" or o.value.variant != "Ok":
            ob.violation("the serializer does not return Ok on a constructible output (%s %s)" % (o.kind, o.msg[:80])); continue
        E.enter(o)
        toks = list(VM.deref(E, o.args[1]).tokens)
        val = VM.deref(E, o.args[0])
        def field(f):
            i = names.index(f)
            return VM.deref(E, val.fields[i]) if isinstance(val, VStruct) else VM.deref(E, E.nav(val, [("field", i, ftys[i])]))
        def opt(f):
            v = field(f)
            if isinstance(v, VLazy):
                v = E.force_enum(v)
            return VM.deref(E, v.fields[0]) if v.variant == "Some" else None
        datum, sref = opt("plutus_data"), opt("script_ref")
        dkind = None
        if datum is not None:
            if isinstance(datum, VLazy):
                datum = E.force_enum(datum)
            dkind = datum.variant
        what = "output with datum %s, script reference %s" % (dkind or "absent", "present" if sref is not None else "absent")
        seen.add((dkind, sref is not None))
        shape = [(t[0], t[1]) if t[0] in ("array", "map", "tag") else ((t[0], t[1]) if t[0] == "uint" and z3.is_int_value(z3.simplify(t[1])) else (t[0],)) for t in toks]
        shape = [(s[0], s[1].as_long()) if s[0] == "uint" and len(s) > 1 else s for s in [(s[0], z3.simplify(s[1])) if s[0] == "uint" and len(s) > 1 else s for s in shape]]
        post = [("map", 2 + (datum is not None) + (sref is not None)), ("uint", 0), ("item",), ("uint", 1), ("item",)]
        if datum is not None:
            post += [("uint", 2), ("item",)]
        if sref is not None:
            post += [("uint", 3), ("item",)]
        allowed = [post]
        if sref is None and dkind in (None, "DataHash"):
            allowed.append([("array", 2 + (dkind is not None)), ("item",), ("item",)] + ([("item",)] if dkind else []))
        if shape not in allowed:
            ob.violation("%s: emitted form %s; the CDDL allows %s" % (what, shape, " or ".join(str(a) for a in allowed))); continue
        # the items are the value's own parts, in the prescribed positions
        items = [t for t in toks if t[0] == "item"]
        eqs = [items[0][1] == E.as_u(field("address")), items[1][1] == E.as_u(field("amount"))]
        if sref is not None:
            eqs.append(items[-1][1] == E.as_u(sref))
        if shape[0][0] == "array" and dkind == "DataHash":
            eqs.append(items[2][1] == E.as_u(VM.deref(E, datum.fields[0])))
        ob.vc("%s: address, amount%s in their CDDL positions" % (what, ", datum hash" if shape[0][0] == "array" and dkind else (", script reference" if sref is not None else "")), o.pc, z3.And(eqs))
    want = {(d, s) for d in (None, "DataHash", "Data") for s in (False, True)}
    if seen != want:
        ob.fail("expected the six datum x script-reference combinations, saw %s" % sorted(map(str, seen)))
    ob.finish(E)


# ---------------------------------------------------------------- protocol parameter update: key numbers of the ledger CDDL
PPU_KEYS = {"minfee_a": 0, "minfee_b": 1, "max_block_body_size": 2, "max_tx_size": 3, "max_block_header_size": 4, "key_deposit": 5, "pool_deposit": 6, "max_epoch": 7, "n_opt": 8,
            "pool_pledge_influence": 9, "expansion_rate": 10, "treasury_growth_rate": 11,
            "d": 12, "extra_entropy": 13, "protocol_version": 14,             # pre-Conway keys the library still reads and writes
            "min_pool_cost": 16, "ada_per_utxo_byte": 17, "cost_models": 18, "execution_costs": 19, "max_tx_ex_units": 20, "max_block_ex_units": 21, "max_value_size": 22,
            "collateral_percentage": 23, "max_collateral_inputs": 24, "pool_voting_thresholds": 25, "drep_voting_thresholds": 26, "min_committee_size": 27, "committee_term_limit": 28,
            "governance_action_validity_period": 29, "governance_action_deposit": 30, "drep_deposit": 31, "drep_inactivity_period": 32, "ref_script_coins_per_byte": 33}


def param_update_keys(ctx):
    """protocol_param_update = { ? 0 : coin, ? 1 : coin, ..., ? 33 : nonnegative_interval }: each field alone, adjacent pairs and
    all together — the map declares exactly the entries written and every present field sits under the key the CDDL gives it
    (a key swapped in encoder AND decoder survives every round trip; this table does not come from the library)."""
    P = ctx.P
    ty = "ProtocolParamUpdate"
    ob = Obligation(ctx, "c03_e2_param_update_keys_vs_cddl", "each of the 34 optional fields alone, adjacent pairs, all present, none; scalar fields symbolic, structured fields opaque items",
                    ["<ProtocolParamUpdate as Serialize>::serialize"], fallback_native="e2n_c03_struct_forms")
    names, ftys = P.struct_fields.get(ty), getattr(P, "struct_field_types", {}).get(ty)
    agg = Engine(P)
    if not names or set(names) != set(PPU_KEYS):
        ob.fail("ProtocolParamUpdate's fields differ from the table: only in the struct %s, only in the table %s" % (sorted(set(names or []) - set(PPU_KEYS)), sorted(set(PPU_KEYS) - set(names or []))))
        ob.finish(agg); return
    some = ENUM_STD["Option"].index("Some")
    idx = list(range(len(names)))
    combos = [frozenset(), frozenset(idx)] + [frozenset([i]) for i in idx] + [frozenset(c) for c in zip(idx, idx[1:])]
    ncombo = 0
    for combo in combos:
        E = Engine(P, max_loop=80)
        CM.install(E, target=ty)
        E.base = [z3.Int("v.%d#d" % i) == (some if i in combo else 1 - some) for i in idx]
        try:
            outs = [o for o in E.explore("<%s as cbor_event::se::Serialize>::serialize" % ty, lambda: [VRef(Cell(VLazy("v", ty), "self")), VRef(Cell(CM.VSer(), "ser"))], max_paths=40) if o.kind != "bound"]
        except (Unsupported, PathAbort) as e:
            ob.fail("serializer cannot be executed with fields %s present (%s)" % (sorted(combo), str(e)[:100])); continue
        agg.stats["paths"] += E.stats["paths"]; agg.stats["feasibility_queries"] += E.stats["feasibility_queries"]; agg.stats["functions"] |= E.stats["functions"]
        if len(outs) != 1 or outs[0].kind != "return" or outs[0].value.variant != "Ok":
            ob.violation("fields %s present: the serializer does not return Ok on exactly one path (%s)" % ([names[i] for i in sorted(combo)], [(o.kind, o.msg[:40]) for o in outs][:3])); continue
        ncombo += 1
        o = outs[0]
        E.enter(o)
        toks = list(VM.deref(E, o.args[1]).tokens)
        what = "fields [%s] present" % ", ".join(names[i] for i in sorted(combo))
        if not toks or toks[0][0] != "map" or toks[0][1] != len(combo):
            ob.violation("%s: the map declares %s entries, %d fields are present" % (what, toks[0][1] if toks else None, len(combo))); continue
        ents = CM.map_entries(toks, 0)
        if ents is None or len(ents) != len(combo):
            ob.violation("%s: the emitted tokens are not a well-formed map of %d entries" % (what, len(combo))); continue
        keys = []
        for k, vs, ve in ents:
            kv = z3.simplify(k[1]) if k[0] == "uint" and z3.is_expr(k[1]) else (k[1] if k[0] == "uint" else None)
            keys.append(kv.as_long() if z3.is_expr(kv) and z3.is_int_value(kv) else kv)
        want = sorted(PPU_KEYS[names[i]] for i in combo)
        if sorted(k for k in keys if isinstance(k, int)) != want or len(keys) != len(want):
            ob.violation("%s: keys written %s, the CDDL keys of these fields are %s" % (what, keys, want)); continue
        # the value under each key is the field the CDDL puts there
        eqs = []
        for (k, vs, ve), kv in zip(ents, keys):
            i = next(j for j in combo if PPU_KEYS[names[j]] == kv)
            v = VM.deref(E, E.nav(VM.deref(E, o.args[0]), [("field", i, ftys[i])]))
            if isinstance(v, VLazy):
                v = E.force_enum(v)
            inner = VM.deref(E, v.fields[0])
            while isinstance(inner, VStruct) and len(inner.fields) == 1:
                inner = VM.deref(E, inner.fields[0])
            t = toks[vs]
            if ve - vs == 1 and t[0] == "uint" and isinstance(inner, VInt):
                eqs.append(t[1] == inner.t)
            elif ve - vs == 1 and t[0] == "item":
                eqs.append(t[1] == E.as_u(VM.deref(E, v.fields[0])))
        if eqs:
            ob.vc("%s: the value under each key is that field's value" % what, o.pc, z3.And(eqs))
    if ncombo < 60:
        ob.fail("only %d of %d presence combinations could be executed" % (ncombo, len(combos)))
    ob.cross_every = 10
    ob.finish(agg)


# ---------------------------------------------------------------- validating constructors of text leaves: the CDDL bound is in BYTES
TEXT_BOUNDS = {          # constructor -> (CDDL rule, byte bound)
    "TransactionMetadatum::new_text": ("transaction_metadatum text = text .size (0 .. 64)", 64),
    "URL::new": ("url = text .size (0 .. 128)", 128),
    "DNSRecordAorAAAA::new": ("dns_name = text .size (0 .. 128)", 128),
    "DNSRecordSRV::new": ("dns_name = text .size (0 .. 128)", 128),
}


def text_size_bounds(ctx):
    """text .size (0 .. n) bounds the UTF-8 BYTE length.  Each constructor is executed on an arbitrary string under the string
    theory (byte length, character count with  chars <= bytes <= 4 * chars): it accepts exactly the strings of at most n bytes."""
    import strmodel
    P = ctx.P
    ob = Obligation(ctx, "c03_e2_text_constructors_bound_bytes", "arbitrary strings: byte length and character count symbolic (chars <= bytes <= 4 chars)", sorted(TEXT_BOUNDS), fallback_native="e2n_c03_struct_forms")
    agg = Engine(P)
    for fn, (rule, bound) in sorted(TEXT_BOUNDS.items()):
        E = Engine(P, max_loop=4)
        E.havoc_external = r"^(std::fmt::|alloc::fmt::format|core::fmt::|<.* as ToString>::to_string|<.* as std::string::ToString>::to_string)"
        strmodel.install(E)
        slen = z3.Function("str_len", E.U, z3.IntSort())
        nchars = z3.Function("str_chars", E.U, z3.IntSort())
        def ident(v):
            v = VM.deref(E, v)
            if isinstance(v, VStruct) and v.name == "String" and v.fields:
                v = v.fields[0]
            return E.as_u(v)
        def chars(E_, c, a):
            return VOpaque("chars", [], ident(a[0]))
        def count(E_, c, a):
            it = VM.deref(E_, a[0])
            if not (isinstance(it, VOpaque) and it.tag == "chars"):
                return NotImplemented
            n, k = slen(it.t), nchars(it.t)
            E_.pc.append(z3.And(k >= 0, k <= n, n <= 4 * k))
            return VInt(k, "usize")
        E.extra_intrinsics[r"(^|::)<impl str>::chars$"] = chars
        E.extra_intrinsics[r"Chars<'_> as (std::iter::)?Iterator>::count$|Chars<.*> as (std::iter::)?Iterator>::count$"] = count
        arg = VLazy("text", "String")
        try:
            outs = list(E.explore(fn, lambda: [clone(arg)], max_paths=40))
        except (Unsupported, PathAbort) as e:
            ob.fail("%s cannot be executed (%s)" % (fn, str(e)[:140])); continue
        u = E.as_u(arg)
        seen = set()
        for o in outs:
            if o.kind != "return":
                ob.vc("%s returns (no panic: %s)" % (fn, o.msg[:60]), o.pc, z3.BoolVal(False)); continue
            seen.add(o.value.variant)
            n = slen(u)
            if o.value.variant == "Ok":
                ob.vc("%s accepts only strings of at most %d BYTES (%s)" % (fn, bound, rule), list(o.pc) + [n >= 0], n <= bound, info=dict(fn=fn))
            else:
                ob.vc("%s refuses only strings longer than %d bytes" % (fn, bound), list(o.pc) + [n >= 0], n > bound, info=dict(fn=fn))
        if seen != {"Ok", "Err"}:
            ob.fail("%s: expected accepting and refusing paths, saw %s" % (fn, sorted(seen)))
        agg.stats["paths"] += E.stats["paths"]; agg.stats["functions"] |= E.stats["functions"]
    ob.finish(agg)


# ---------------------------------------------------------------- builder clause: no zero-quantity asset, no empty policy bundle in a change output
def change_bundles_wellformed(ctx):
    """'every transaction the builder produces ... never contains a zero-quantity asset or an empty policy bundle in an output':
    the bundles pack_nfts_for_change cuts out of the leftover value become the change outputs.  It is executed from MIR on
    leftover values of concrete shape (1-2 policies x 1-2 asset names) with symbolic quantities INCLUDING 0 — the leftover is
    input - output and an input value may carry zero entries —, the size predicates arbitrary: every bundle returned must hold
    only positive quantities and no policy without assets."""
    import itertools
    P = ctx.P
    ob = Obligation(ctx, "c03_e2_change_bundles_have_no_zero_or_empty_entries", "leftover value of shape 1-2 policies x 1-2 asset names, quantities all u64 including 0; size predicates (value too large, minimum ADA) arbitrary",
                    ["pack_nfts_for_change"], fallback_native="e2n_c03_change_zero_quantities")
    cands = [d for d in P.fns if re.search(r"(^|::)pack_nfts_for_change$", d)]
    agg = Engine(P)
    if not cands:
        ob.fail("pack_nfts_for_change not found in the MIR"); ob.finish(agg); return
    shapes = [[("p0", ["a0"])], [("p0", ["a0", "a1"])], [("p0", ["a0"]), ("p1", ["a0"])], [("p0", ["a0", "a1"]), ("p1", ["a1"])]]
    nret = 0
    norm = [d for d in P.fns if re.search(r"(^|::)without_zero_assets$", d)]
    if not norm:
        ob.fail("the zero-dropping normalisation (without_zero_assets) is not in the MIR")
    for target, shape in [("pack", sh) for sh in shapes] + ([("normalise", sh) for sh in shapes] if norm else []):
        E = Engine(P, max_loop=8)
        E.U = agg.U
        q = {}
        def ovf(E_, c, a):
            b = E_.fresh("would_overflow", "bool")
            return VEnum("Result", "Ok", [VBool(z3.BoolVal(E_.choose([b, z3.Not(b)], "would overflow") == 0))])
        E.extra_intrinsics[r"(^|::)will_adding_asset_make_output_overflow$"] = ovf
        E.extra_intrinsics[r"MinOutputAdaCalculator::new_empty$"] = lambda E_, c, a: VEnum("Result", "Ok", [VOpaque("calc")])
        E.extra_intrinsics[r"MinOutputAdaCalculator::set_\w+$"] = lambda E_, c, a: UNIT
        def calc(E_, c, a):
            v = E_.fresh("min_ada"); E_.pc.append(z3.And(v >= 0, v <= (1 << 64) - 1))
            return VEnum("Result", "Ok", [VStruct("BigNum", [VInt(v, "u64")])])
        E.extra_intrinsics[r"MinOutputAdaCalculator::calculate_ada$"] = calc
        def tb(E_, c, a):
            n = E_.fresh("value_size"); E_.pc.append(z3.And(n >= 0, n < (1 << 32)))
            return VOpaque("bytes", [], None) if False else VSeq([], "vec") if False else VStruct("#Bytes", [VInt(n, "usize")])
        E.extra_intrinsics[r"Value::to_bytes$"] = tb
        E.extra_intrinsics[r"Vec::<u8>::len$"] = lambda E_, c, a: (VM.deref(E_, a[0]).fields[0] if isinstance(VM.deref(E_, a[0]), VStruct) and VM.deref(E_, a[0]).name == "#Bytes" else NotImplemented)
        def mk(E=E, shape=shape, q=q):
            q.clear()
            for a_, b_ in (("p0", "p1"), ("a0", "a1")):
                E.pc.append(E.as_u(VLazy(a_, "x")) != E.as_u(VLazy(b_, "x")))
            pols = []
            for p_, names in shape:
                assets = []
                for a_ in names:
                    v = E.sym_int("q_%s_%s" % (p_, a_), "u64")
                    q[(p_, a_)] = v.t
                    assets.append(VStruct("()", [VLazy(a_, "AssetName"), VStruct("BigNum", [VInt(v.t, "u64")])]))
                pols.append(VStruct("()", [VLazy(p_, "ScriptHash"), VStruct("Assets", [VSeq(assets, "map")])]))
            est = VStruct("Value", [VStruct("BigNum", [VInt(E.sym_int("leftover_coin", "u64").t, "u64")]), VEnum("Option", "Some", [VStruct("MultiAsset", [VSeq(pols, "map")])])])
            for t_ in q.values():
                E.pc.append(z3.And(t_ >= 0, t_ <= (1 << 64) - 1))
            if target == "normalise":
                return [est]
            for t_ in q.values():
                E.pc.append(t_ > 0)         # the leftover handed to the packing went through without_zero_assets (decided below and on the change step)
            return [VInt(E.sym_int("max_value_size", "u32").t, "u32"), VRef(Cell(VOpaque("data_cost"), "dc")), VRef(Cell(VLazy("change_addr", "Address"), "addr")), VRef(Cell(est, "estimator")),
                    VRef(Cell(VEnum("Option", "None", []), "datum")), VRef(Cell(VEnum("Option", "None", []), "script_ref"))]
        try:
            outs = E.explore(cands[0] if target == "pack" else norm[0], mk, max_paths=3000)
        except Unsupported as e:
            ob.fail("shape %s: %s cannot be executed (%s)" % (shape, target, str(e)[:200])); continue
        for o in outs:
            if target == "normalise":
                if o.kind != "return":
                    ob.vc("no panic in without_zero_assets (%s %s)" % (o.kind, o.msg[:60]), o.pc, z3.BoolVal(False)); continue
                nret += 1
                E.enter(o)
                v = VM.deref(E, o.value)
                ma = VM.deref(E, v.fields[1])
                got = {}
                if ma.variant == "Some":
                    for pe in VM.deref(E, VM.deref(E, ma.fields[0]).fields[0]).items:
                        pe = VM.deref(E, pe)
                        assets = VM.deref(E, VM.deref(E, pe.fields[1]).fields[0]).items
                        if not assets:
                            ob.violation("shape %s: the normalised leftover holds a policy without assets" % (shape,))
                        for ae in assets:
                            ae = VM.deref(E, ae)
                            got[(VM.deref(E, pe.fields[0]).path, VM.deref(E, ae.fields[0]).path)] = VM.deref(E, ae.fields[1]).fields[0].t
                for key, t_ in q.items():
                    if key in got:
                        ob.vc("shape %s: an entry kept by the normalisation is positive and unchanged" % (shape,), o.pc, z3.And(got[key] == t_, t_ > 0), info=dict(shape=str(shape)))
                    else:
                        ob.vc("shape %s: an entry dropped by the normalisation had quantity 0" % (shape,), o.pc, t_ == 0, info=dict(shape=str(shape)))
                if ma.variant == "Some" and not got:
                    ob.violation("shape %s: the normalised leftover keeps an empty bundle" % (shape,))
                continue
            if o.kind != "return" or o.value.variant != "Ok":
                continue
            nret += 1
            E.enter(o)
            bundles = VM.deref(E, o.value.fields[0])
            for bi, b in enumerate(bundles.items):
                b = VM.deref(E, b)
                for pe in VM.deref(E, b.fields[0]).items:
                    pe = VM.deref(E, pe)
                    assets = VM.deref(E, VM.deref(E, pe.fields[1]).fields[0]).items
                    if not assets:
                        ob.violation("shape %s: bundle #%d holds a policy without assets" % (shape, bi)); continue
                    for ae in assets:
                        qt = VM.deref(E, VM.deref(E, ae).fields[1]).fields[0].t
                        ob.vc("shape %s: every quantity in change bundle #%d is positive" % (shape, bi), o.pc, qt > 0, info=dict(shape=str(shape)))
        agg.stats["paths"] += E.stats["paths"]; agg.stats["feasibility_queries"] += E.stats["feasibility_queries"]; agg.stats["functions"] |= E.stats["functions"]
    if nret == 0:
        ob.fail("no returning path")
    ob.cross_every = 8
    ob.finish(agg, lambda m, info=None: ("e2n_c03_change_zero_quantities", []))
