"""C03 (E2 part): integers are written in the form the CDDL prescribes and in the shortest head — for EVERY mathematical integer.

BigInt (and through it every Plutus-data integer): 0..2^64-1 is an unsigned integer, -2^64..-1 a negative integer whose
head width is the shortest one for its argument (-1 - x), anything larger a tag-2 / tag-3 byte string.  The real serializer
MIR is executed over the token model (num-bigint as mathematical integers); cbor_event's width-explicit writer is modelled
with the width it is GIVEN, so a width computed from the wrong quantity is visible."""
import z3
from engine import *
from prove import Obligation, mval, le_bytes
import cbormodel as CM
import valuemodel as VM

U64 = (1 << 64)


def shortest(u):
    return z3.If(u <= 23, 0, z3.If(u < 0x100, 1, z3.If(u < 0x10000, 2, z3.If(u < (1 << 32), 3, 4))))


def obligations(ctx):
    P = ctx.P
    E = Engine(P)
    CM.install(E, target="BigInt")
    x = E.sym_big("x")
    ob = Obligation(ctx, "c03_e2_bigint_integer_form", "x: every mathematical integer (unbounded)", ["<BigInt as Serialize>::serialize"])
    seen = set()
    def mk():
        return [VRef(Cell(VStruct("BigInt", [VBig(x.t)]), "self")), VRef(Cell(CM.VSer(), "ser"))]
    for o in E.explore("<BigInt as cbor_event::se::Serialize>::serialize", mk, max_paths=200):
        if o.kind != "return":
            ob.vc("no panic (%s %s)" % (o.kind, o.msg), o.pc, z3.BoolVal(False), info="int"); continue
        if o.value.variant != "Ok":
            ob.vc("serializer returns Ok", o.pc, z3.BoolVal(False), info="int"); continue
        toks = VM.deref(E, o.args[1]).tokens
        kinds = [t[0] for t in toks]
        if kinds == ["uint"]:
            seen.add("uint")
            ob.vc("unsigned integer form <=> 0 <= x < 2^64, value x", o.pc, z3.And(x.t >= 0, x.t < U64, toks[0][1] == x.t), info="int")
        elif kinds == ["nint"]:
            seen.add("nint")
            ob.vc("negative integer form <=> -2^64 <= x < 0, value x", o.pc, z3.And(x.t < 0, x.t >= -U64, toks[0][1] == x.t), info="int")
            sz = toks[0][2]
            if sz is not None:
                want = shortest(-1 - x.t)
                idx = ["Inline", "One", "Two", "Four", "Eight"].index(sz) if sz in ("Inline", "One", "Two", "Four", "Eight") else -1
                ob.vc("negative integer head has the shortest width for its argument (width written: %s)" % sz, o.pc, want == idx, info="int")
        elif kinds == ["tag", "bytes"] or kinds == ["tag", "item"] or (kinds[:1] == ["tag"] and len(kinds) == 2):
            seen.add("big")
            t = toks[0][1]
            ob.vc("tagged byte-string form only outside -2^64..2^64-1, tag 2 for positive / 3 for negative", o.pc,
                  z3.Or(z3.And(x.t >= U64, t == 2), z3.And(x.t < -U64, t == 3)), info="int")
        else:
            ob.violation("BigInt encodes as %s" % kinds)
    if not {"uint", "nint", "big"} <= seen:
        ob.fail("expected unsigned, negative and tagged forms, saw %s" % sorted(seen))
    def nat(m, info=None):
        v = mval(m, x.t)
        mag = abs(v)
        return "e2n_bigint_form", [[1 if v < 0 else 0], le_bytes(mag & (U64 - 1), 8), le_bytes((mag >> 64) & (U64 - 1), 8), le_bytes((mag >> 128) & (U64 - 1), 8)]
    ob.finish(E, nat)
