"""C02: parsers are total — token-level obligations (E2).

(a) Every `Deserialize` impl of the crate (enumerated from the current MIR, so new types are picked up) is executed on
    adversarial CBOR token streams: a type-agnostic corpus (arrays / maps / tagged / indefinite shapes over concrete leaf
    tokens, discriminant-led groups, every prefix = truncation) and, where the type's serializer can be executed, mutants of
    its own valid encodings (truncation, single-token substitution, wrong declared lengths, indefinite with / without
    break, trailing token).  The real decoder MIR runs over a token-level model of cbor_event's Deserializer; nested
    decoders are opaque and adversarial (fail, or accept exactly one item) — each is an entry of its own, so the claim
    composes by induction on nesting depth.  A reachable panic / failed assert / unwrap-on-error is a violation.
(b) Every public text/bytes entry wrapper (from_hex, from_bytes, from_json, from_bech32, from_base58 found in the MIR) is
    executed with the external decoders (hex, bech32, serde_json, base58) as uninterpreted functions returning Ok or Err.
Byte-level totality of leaf decoders (numbers, addresses) is the E1 part (harnesses shared with C11 / C14)."""
import json, os, re, subprocess, sys, time
if __name__ == "__main__":
    sys.path.insert(0, os.path.dirname(os.path.dirname(os.path.abspath(__file__))))
import z3
from engine import *
import cbormodel as CM
import valuemodel as VM


def R(v, name="tmp"):
    return VRef(Cell(v, name))


SUBST = [("special", "Null", None), ("special", "Break", None), ("uint", 7), ("bytes", None), ("text", None), ("array", 0), ("map", 0), ("tag", 258), ("array", None), ("special", "Bool", True)]
NULL, BREAK = ("special", "Null", None), ("special", "Break", None)


def tok(E, t):
    """concretise a corpus token description into a model token"""
    if t[0] in ("uint", "nint", "int") and isinstance(t[1], int):
        return (t[0], z3.IntVal(t[1]))
    if t[0] in ("bytes", "text") and t[1] is None:
        return (t[0], z3.Const("leaf_%s" % t[0], E.U))
    if t[0] == "special" and t[1] == "Bool" and isinstance(t[2], bool):
        return ("special", "Bool", z3.BoolVal(t[2]))
    return t


BROKEN = {k: ("broken", k) for k in ("uint", "nint", "bytes", "text", "array", "map", "tag", "special")}
LEAVES = {"u": [("uint", 0)], "n": [("nint", -1)], "b": [("bytes", None)], "t": [("text", None)], "a": [("array", 0)], "m": [("map", 0)], "z": [NULL], "f": [("special", "Bool", False)],
          "A": [("array", 1), ("uint", 0)], "I": [("array", None), BREAK]}


def generic_corpus(tier):
    full = []
    kinds = "ubazt" if tier == "quick" else "unbtamzfAI"
    for k in LEAVES:
        full.append(LEAVES[k]); full.append([("tag", 258)] + LEAVES[k]); full.append([("tag", 24)] + LEAVES[k])
    full += [[BREAK], [("array", None)], [("map", None)], [("tag", 258)], [("array", 1 << 63)], [("map", 1 << 63)]]
    for n in ((1, 2, 3) if tier == "quick" else (1, 2, 3, 4)):
        for k in kinds:
            body = LEAVES[k] * n
            full += [[("array", n)] + body, [("array", None)] + body + [BREAK], [("array", None)] + body + [NULL], [("array", None)] + body]
            # a break where an element of a DEFINITE container is due (early end)
            full += [[("array", n)] + body[:len(body) - len(LEAVES[k])] + [BREAK], [("array", n + 1)] + body + [BREAK], [("tag", 258), ("array", n)] + body[:len(body) - len(LEAVES[k])] + [BREAK]]
            if n <= 2:
                full += [[("tag", 258), ("array", n)] + body, [("tag", 258), ("array", None)] + body + [BREAK], [("array", n + 1)] + body, [("array", n)] + body + LEAVES[k]]
    # discriminant-led groups
    for d in range(0, 20):
        for n in ((1, 2) if tier == "quick" else (1, 2, 3, 4, 5)):
            for k in ("ub" if tier == "quick" else "ubatzmA"):
                full.append([("array", n + 1), ("uint", d)] + LEAVES[k] * n)
            full.append([("array", None), ("uint", d)] + LEAVES["u"] * n + [BREAK])
        full.append([("array", 1), ("uint", d)])
    # maps
    for key in range(0, 26):
        for k in ("ua" if tier == "quick" else "unbtamzfAI"):
            full.append([("map", 1), ("uint", key)] + LEAVES[k])
        full.append([("map", None), ("uint", key)] + LEAVES["u"] + [BREAK])
    for k1 in "bta":
        for k2 in "ubam":
            full.append([("map", 1)] + LEAVES[k1] + LEAVES[k2])
            full.append([("map", 2)] + LEAVES[k1] + LEAVES[k2] + LEAVES[k1] + LEAVES[k2])
            full.append([("map", None)] + LEAVES[k1] + LEAVES[k2] + [BREAK])
            full.append([("map", None)] + LEAVES[k1] + LEAVES[k2] + [NULL])
    for k1 in "bta":
        full.append([("map", 1), BREAK])
        full.append([("map", 2)] + LEAVES[k1] + LEAVES["u"] + [BREAK])
        full.append([("map", 2)] + LEAVES[k1] + LEAVES["a"] + [BREAK])
    for a, b in ((0, 1), (1, 0), (0, 0), (1, 2)):
        for k in "ua":
            full.append([("map", 2), ("uint", a)] + LEAVES[k] + [("uint", b)] + LEAVES[k])
    full += [[("map", 2), ("uint", 0)] + LEAVES["u"], [("map", 1), ("uint", 0)], [("map", 0)], [("array", 0)], [("array", None), NULL], [("map", None), NULL], [("array", None), BREAK], [("map", None), BREAK]]
    # an item cut short / malformed inside (its head announces a kind, reading it fails) after every prefix of the shapes so far
    base = list(full)
    bk = ("bytes", "uint", "array") if tier == "quick" else tuple(BROKEN)
    for s in base[::(3 if tier == "quick" else 1)]:
        for j in range(0, min(len(s), 4)):
            for k in bk:
                full.append(s[:j] + [BROKEN[k]])
    seen, out = set(), []
    for s in full:
        for j in range(1, len(s) + 1):
            key = repr(s[:j])
            if key not in seen:
                seen.add(key)
                out.append(("corpus", s[:j]))
    return out


def indefinite_variant(toks):
    if toks and toks[0][0] in ("array", "map") and toks[0][1] is not None:
        return [(toks[0][0], None)] + toks[1:] + [BREAK]
    if len(toks) > 1 and toks[0][0] == "tag" and toks[1][0] in ("array", "map") and toks[1][1] is not None:
        return [toks[0], (toks[1][0], None)] + toks[2:] + [BREAK]
    return None


def mutants(toks):
    out = []
    for k in range(len(toks)):
        out.append(("truncated after %d tokens" % k, toks[:k]))
    for k in range(len(toks)):
        for s in SUBST:
            if s[0] == toks[k][0] and s[0] not in ("array", "map", "special"):
                continue
            out.append(("token %d replaced by %s" % (k, s[:2]), toks[:k] + [s] + toks[k + 1:]))
    for k, t in enumerate(toks):
        if t[0] in ("array", "map") and t[1] is not None:
            out.append(("declared length +1 at token %d" % k, toks[:k] + [(t[0], t[1] + 1)] + toks[k + 1:]))
            if t[1] > 0:
                out.append(("declared length -1 at token %d" % k, toks[:k] + [(t[0], t[1] - 1)] + toks[k + 1:]))
            out.append(("huge declared length at token %d" % k, toks[:k] + [(t[0], (1 << 63))] + toks[k + 1:]))
    iv = indefinite_variant(toks)
    if iv is not None:
        out += [("indefinite length", iv), ("indefinite length without break", iv[:-1]), ("indefinite length, break replaced by null", iv[:-1] + [NULL])]
    out.append(("trailing token", toks + [("uint", 1)]))
    for k, t in enumerate(toks):
        kind = t[0] if t[0] in BROKEN else None
        if t[0] == "item":
            for bkind in ("bytes", "uint", "array", "map", "text"):
                out.append(("nested item %d cut short (%s)" % (k, bkind), toks[:k] + [BROKEN[bkind]]))
        elif kind:
            out.append(("token %d cut short" % k, toks[:k] + [BROKEN[kind]]))
    return out


def valid_streams(P, ty):
    E = Engine(P, max_loop=12)
    CM.install(E, target=ty)
    out = []
    try:
        for o in E.explore("<%s as cbor_event::se::Serialize>::serialize" % ty, lambda: [R(VLazy("v", ty)), R(CM.VSer())], max_paths=60):
            if o.kind == "return" and o.value.variant == "Ok":
                t = list(VM.deref(E, o.args[1]).tokens)
                if not (len(t) == 1 and t[0][0] == "item"):
                    out.append((t, list(o.pc)))
    except (Unsupported, PathAbort, AttributeError, TypeError, IndexError, KeyError, ValueError):
        return []
    return out


def show(toks):
    r = []
    for t in toks[:10]:
        if t[0] in ("array", "map"):
            r.append("%s(%s)" % (t[0], "*" if t[1] is None else t[1]))
        elif t[0] == "tag":
            r.append("tag(%s)" % t[1])
        elif t[0] == "special":
            r.append(str(t[1]).lower())
        elif t[0] in ("uint", "nint"):
            r.append("%s(%s)" % t[:2])
        elif t[0] == "item":
            r.append("<%s>" % (t[2] if len(t) > 2 else "item"))
        elif t[0] == "broken":
            r.append("cut-short-%s" % t[1])
        else:
            r.append(t[0])
    return " ".join(r)


def render(toks):
    try:
        return _render(toks)
    except (TypeError, ValueError, KeyError, AttributeError):
        return None


def _render(toks):
    """CBOR bytes of a stream of concrete tokens (None when it contains opaque nested items)"""
    out = bytearray()
    def head(major, n):
        if n < 24: out.append((major << 5) | n)
        elif n < 256: out.extend([(major << 5) | 24, n])
        elif n < 65536: out.extend([(major << 5) | 25, n >> 8, n & 255])
        elif n < (1 << 32): out.append((major << 5) | 26); out.extend(n.to_bytes(4, "big"))
        else: out.append((major << 5) | 27); out.extend(n.to_bytes(8, "big"))
    for t in toks:
        k = t[0]
        if k == "item": return None
        if k == "broken":
            out.extend({"uint": [0x19, 0x01], "nint": [0x39, 0x01], "bytes": [0x58, 0x20, 0x00], "text": [0x78, 0x20, 0x61], "array": [0x99, 0x01], "map": [0xb9, 0x01], "tag": [0xd9, 0x01], "special": [0xf9, 0x00]}[t[1]])
            continue
        v = t[1]
        if z3.is_expr(v):
            v = v.as_long() if z3.is_int_value(v) else None
        if k == "uint": head(0, v)
        elif k == "nint": head(1, -1 - v)
        elif k == "bytes": out.append(0x40)
        elif k == "text": out.append(0x60)
        elif k in ("array", "map"):
            if t[1] is None: out.append(0x9f if k == "array" else 0xbf)
            else: head(4 if k == "array" else 5, t[1])
        elif k == "tag": head(6, t[1])
        elif k == "special":
            out.append({"Null": 0xf6, "Break": 0xff, "Undefined": 0xf7}.get(t[1], 0xf5 if (t[2] is True or (z3.is_expr(t[2]) and z3.is_true(t[2]))) else 0xf4))
    return bytes(out)


def decoder_entries(P):
    """(type name, def name) of every Deserialize impl in the MIR"""
    out = {}
    for d in P.fns:
        if re.search(r"::deserialize(#\d+)?$", d):
            ty, tr = P.impl_of(d)
            fn = P.fns[d]
            # the crate's CBOR trait (serde's derive has the same last segment: told apart by the reader parameter)
            if ty and tr and last_seg(tr.split("<")[0]) == "Deserialize" and "$" not in ty and len(ty) > 1 and fn.params and "Deserializer<" in fn.params[0][1]:
                out.setdefault(ty, d)
    return out


def lenient_class(cons):
    """early-break: a break sits where an element of a DEFINITE container (or the top level) is due; else declared-length"""
    stack = []          # remaining element counts of open containers (None = indefinite)
    for t in cons:
        if t[0] == "special" and t[1] == "Break":
            if stack and stack[-1] is None:
                stack.pop()
                # the closed container was itself an element of its parent
                while stack and stack[-1] is not None:
                    stack[-1] -= 1
                    if stack[-1] > 0:
                        break
                    stack.pop()
                continue
            return "early-break"
        if t[0] == "tag":
            continue
        if t[0] in ("array", "map"):
            n = t[1]
            if n is None:
                stack.append(None); continue
            n = n * (2 if t[0] == "map" else 1) if isinstance(n, int) else None
            if n is None:
                return "declared-length"
            if n > 0:
                stack.append(n); continue
        # a complete element
        while stack and stack[-1] is not None:
            stack[-1] -= 1
            if stack[-1] > 0:
                break
            stack.pop()
    return "declared-length"


def run_decoder(P, ty, entry, streams, max_paths=80):
    """-> (runs, problems[(what, tokens)], unsupported reason | None, truncated)"""
    probs, n, trunc, paths = [], 0, 0, 0
    lenient = run_decoder.lenient = []
    for what, toks, pc in streams:
        D = Engine(P, max_loop=40)
        CM.install(D, target=ty, adversarial=True)
        D.base = list(pc)
        m = [tok(D, t) for t in toks]
        n += 1
        try:
            for d in D.explore(entry, lambda: [R(CM.VDe(list(m)), "raw")], max_paths=max_paths):
                if d.kind in ("panic", "unreachable"):
                    probs.append((what, toks, d.msg[:160]))
                elif d.kind == "bound":
                    trunc += 1
                elif d.kind == "return" and d.value is not None and d.value.variant == "Ok" and len(lenient) < 400:
                    # lemma behind the second clause of C02 (byte-preserving types re-emit what was consumed):
                    # an accepting decoder has consumed exactly one well-formed item
                    de = D.read_ref(d.args[0]) if isinstance(d.args[0], VRef) else d.args[0]
                    pos = getattr(de, "pos", None)
                    if pos is not None and all(isinstance(t[1], (int, type(None), str)) for t in toks[:pos] if t[0] in ("array", "map")):
                        try:
                            wf = CM.item_end(list(toks[:pos]), 0) == pos
                        except Exception:
                            wf = True
                        if not wf:
                            cons = list(toks[:pos])
                            try:
                                starts_item = CM.item_end(cons, 0) is not None
                            except Exception:
                                starts_item = True
                            if not starts_item:
                                # no well-formed item starts here at all (as opposed to: consumed past the end of its own item)
                                lenient.append((lenient_class(cons), cons))
        except Unsupported as e:
            if "more than" in str(e) and "paths" in str(e):
                trunc += 1
            else:
                return n, probs, "%s (on %s)" % (str(e)[:140], show(toks)), trunc, paths
        except PathAbort as e:
            return n, probs, "path abort %s (on %s)" % (e.msg[:100], show(toks)), trunc, paths
        except (AttributeError, TypeError, IndexError, KeyError, ValueError, AssertionError, RecursionError) as e:
            return n, probs, "engine error %r (on %s)" % (e, show(toks)), trunc, paths
        paths += D.stats["paths"]
    return n, probs, None, trunc, paths


def worker(mir, src, tier, tys):
    P = Program(open(mir).read(), src)
    ents = decoder_entries(P)
    corpus = [(w, t, []) for w, t in generic_corpus(tier)]
    res = {}
    for ty in tys:
        t0 = time.time()
        streams = list(corpus)
        nvalid = 0
        for toks, pc in valid_streams(P, ty):
            nvalid += 1
            for what, m in mutants(toks):
                streams.append((what + " of " + show(toks), m, pc))
        n, probs, unsup, trunc, paths = run_decoder(P, ty, "<%s as Deserialize>::deserialize" % ty if ty in ents else ty, streams)
        len_ = sorted(run_decoder.lenient, key=lambda p_: (render(p_[1]) is None, len(p_[1])))
        res[ty] = {"runs": n, "valid_shapes": nvalid, "truncated": trunc, "paths": paths, "unsupported": unsup, "s": round(time.time() - t0, 1), "nlenient": len(len_),
                   "lenient": [{"what": w, "tokens": show(t), "bytes": (render(t).hex() if render(t) is not None else None)} for cl in ("early-break", "declared-length") for w, t in [x for x in len_ if x[0] == cl][:6]],
                   "problems": [{"what": w, "tokens": show(t), "bytes": (render(t).hex() if render(t) is not None else None), "msg": msg} for w, t, msg in sorted(probs, key=lambda p_: len(p_[1]))[:12]], "nproblems": len(probs)}
    return res


# types whose decoder the engine is expected to execute on the whole corpus (a regression here is reported as inconclusive, never silently dropped)
CLAIM = [
    "Address", "Anchor", "AnchorDataHash", "AssetName", "AssetNames", "Assets", "AuxiliaryData", "AuxiliaryDataHash", "AuxiliaryDataSet", "BigInt", "BigNum", "Block",
    "BlockHash", "BootstrapWitness", "BootstrapWitnesses", "ByronAddressType", "Certificate", "CertificateEnum", "Certificates", "Committee", "CommitteeColdResign",
    "CommitteeHotAuth", "Constitution", "ConstrPlutusData", "CostModel", "Costmdls", "Credential", "Credentials", "DRep", "DRepDeregistration", "DRepEnum",
    "DRepRegistration", "DRepUpdate", "DRepVotingThresholds", "DataHash", "DataOption", "Ed25519KeyHash", "Ed25519KeyHashes", "Ed25519Signature", "ExUnitPrices",
    "ExUnits", "ExtendedAddr", "FixedTransaction", "FixedBlock", "FixedTransactionBodies", "FixedTransactionBody", "FixedTxWitnessesSet", "FixedVersionedBlock",
    "GeneralTransactionMetadata", "GenesisDelegateHash", "GenesisHash", "GenesisHashes", "GenesisKeyDelegation", "GovernanceAction", "GovernanceActionId",
    "HardForkInitiationAction", "Header", "HeaderBody", "InfoAction", "Int", "Ipv4", "Ipv6", "KESSignature", "KESVKey", "Language", "Languages", "MIRToStakeCredentials",
    "MetadataList", "MetadataMap", "Mint", "MintAssets", "MoveInstantaneousReward", "MoveInstantaneousRewardsCert", "MultiAsset", "MultiHostName", "NativeScript",
    "NativeScriptEnum", "NativeScripts", "NetworkId", "NewConstitutionAction", "NoConfidenceAction", "Nonce", "OperationalCert", "ParameterChangeAction", "PlutusData",
    "PlutusDataEnum", "PlutusList", "PlutusMap", "PlutusScript", "PlutusScripts", "PoolMetadata", "PoolMetadataHash", "PoolParams", "PoolRegistration", "PoolRetirement",
    "PoolVotingThresholds", "ProposedProtocolParameterUpdates", "ProtocolParamUpdate", "ProtocolVersion", "Redeemer", "RedeemerTag", "RedeemerTagKind", "Redeemers",
    "Relay", "RelayEnum", "Relays", "RewardAddress", "RewardAddresses", "ScriptAll", "ScriptAny", "ScriptDataHash", "ScriptHash", "ScriptHashes", "ScriptNOfK",
    "ScriptPubkey", "ScriptRef", "ScriptRefEnum", "SingleHostAddr", "SingleHostName", "StakeAndVoteDelegation", "StakeDelegation", "StakeDeregistration",
    "StakeRegistration", "StakeRegistrationAndDelegation", "StakeVoteRegistrationAndDelegation", "Strings", "TimelockExpiry", "TimelockStart", "Transaction",
    "TransactionBodies", "TransactionBody", "TransactionHash", "TransactionInput", "TransactionInputs", "TransactionMetadatum", "TransactionMetadatumEnum",
    "TransactionMetadatumLabels", "TransactionOutput", "TransactionOutputs", "TransactionUnspentOutput", "TransactionWitnessSet", "TransactionWitnessSets",
    "TreasuryWithdrawals", "TreasuryWithdrawalsAction", "UnitInterval", "Update", "UpdateCommitteeAction", "VRFCert", "VRFKeyHash", "VRFVKey", "Value", "VersionedBlock",
    "Vkey", "Vkeys", "Vkeywitness", "Vkeywitnesses", "VoteDelegation", "VoteRegistrationAndDelegation", "Voter", "VoterEnum", "VotingProcedure", "VotingProcedures",
    "VotingProposal", "VotingProposals", "Withdrawals", "legacy_address::cbor::util::raw_with_crc32",
]
# free decoding helpers with the same token interface
EXTRA_ENTRIES = ["legacy_address::cbor::util::raw_with_crc32"]


def native_vals(ty, hexbytes):
    name = ty.encode()
    b = bytes.fromhex(hexbytes)
    return [[len(name)]] + [[c] for c in name] + [[len(b) & 255, len(b) >> 8]] + [[c] for c in b]


def obligations(ctx):
    decoders_obligation(ctx)
    wrappers_obligation(ctx)
    text_slicing_obligation(ctx)
    base58_obligation(ctx)
    byte_helpers_obligation(ctx)


def decoders_obligation(ctx):
    from prove import Obligation
    P = ctx.P
    ents = decoder_entries(P)
    tys = sorted(ents)
    ob = Obligation(ctx, "c02_e2_decoders_total_on_adversarial_tokens", "", ["<T as Deserialize>::deserialize for every impl in the crate"], fallback_native="e2n_c02_battery")
    build = os.environ.get("VERIF_BUILD_DIR", os.path.join(os.path.dirname(os.path.dirname(os.path.dirname(os.path.abspath(__file__)))), ".build"))
    mir, src = os.path.join(build, "mir.txt"), os.path.join(build, "mir-src")
    nw = 14
    # longest-processing-time-first packing, costs from the previous run when there is one (set-like collections dominate)
    prev = {}
    try:
        prev = {t: r["s"] for t, r in json.load(open(os.path.join(build, "c02_last.json"))).items()}
    except Exception:
        pass
    cost = lambda t: prev.get(t, 30.0 if t.endswith("s") else 5.0)
    chunks, load = [[] for _ in range(nw)], [0.0] * nw
    for t in sorted(tys + EXTRA_ENTRIES, key=cost, reverse=True):
        k = load.index(min(load))
        chunks[k].append(t)
        load[k] += cost(t)
    procs = [subprocess.Popen([sys.executable, os.path.abspath(__file__), "--worker", mir, src, ctx.tier, ",".join(c)], stdout=subprocess.PIPE, stderr=subprocess.PIPE, text=True) for c in chunks if c]
    res = {}
    for p in procs:
        o, e = p.communicate()
        try:
            res.update(json.loads(o.strip().split("\n")[-1]))
        except Exception:
            ob.fail("decoder worker crashed: " + e[-300:])
    covered = sorted(t for t, r in res.items() if r["unsupported"] is None)
    outside = {t: r["unsupported"] for t, r in res.items() if r["unsupported"] is not None}
    runs = sum(r["runs"] for r in res.values())
    # native pre-screening: the shortest renderable counterexample that reproduces goes first
    cands = []
    for t in sorted(res):
        for pr in res[t]["problems"]:
            cands.append((0 if pr["bytes"] else 1, len(pr["bytes"] or ""), t, pr))
    cands.sort(key=lambda c_: c_[:3])
    confirmed = None
    if ctx.native_replay is not None:
        tried = 0
        for _, _, t, pr in cands:
            if not pr["bytes"] or tried >= 12:
                continue
            tried += 1
            rr = ctx.native_replay("e2n_c02_decode", native_vals(t, pr["bytes"]), "dev")
            ctx.native_runs += 1
            if rr.get("outcome") == "panic":
                confirmed = (t, pr)
                break
    order = ([(0, 0, confirmed[0], confirmed[1])] if confirmed else []) + [c_ for c_ in cands if not confirmed or c_[3] is not confirmed[1]]
    seen_t = set()
    for _, _, t, pr in order:
        if t in seen_t:
            continue
        seen_t.add(t)
        ob.problems.append(("cex", "%s: decoder panics on [%s] (%s)%s: %s" % (t, pr["tokens"], pr["what"], " = bytes " + pr["bytes"] if pr["bytes"] else "", pr["msg"]), None,
                            {"type": t, "bytes": pr["bytes"] if confirmed and pr is confirmed[1] else None}))
    missing = [t for t in CLAIM if t not in covered]
    if missing:
        ob.fail("decoders expected to be covered could not be executed: %s" % {t: outside.get(t, "absent") for t in missing})
    ob.queries += runs
    ob.bound = ("%d decoders x (type-agnostic corpus of %d token streams with all their prefixes + mutants of %d own valid encodings) = %d symbolic executions; nested decoders opaque-adversarial; "
                "arrays <= 5 elements, maps <= 2 entries. Covered: %s. Outside the engine's reach (not claimed): %s"
                % (len(covered), len(generic_corpus(ctx.tier)), sum(r["valid_shapes"] for r in res.values()), runs, ", ".join(covered), "; ".join("%s [%s]" % (t, v[:60]) for t, v in sorted(outside.items()))))
    ctx.log("  [E2] decoder totality: %d/%d decoders executed, %d runs, slowest %s; outside: %s" % (len(covered), len(res), runs, sorted(((r["s"], t) for t, r in res.items()), reverse=True)[:3], {k: v[:80] for k, v in outside.items()}))
    try:
        json.dump(res, open(os.path.join(build, "c02_last.json"), "w"), indent=1)
    except Exception:
        pass
    agg = Engine(P)
    agg.stats["paths"] = sum(r["paths"] for r in res.values())
    ob.res = res

    def to_native(model, info):
        if not info or not info.get("bytes"):
            raise ValueError("no byte-exact rendering of the token counterexample reproduces; falling back to the API-level battery")
        return "e2n_c02_decode", native_vals(info["type"], info["bytes"])
    ob.finish(agg, cex_to_native=to_native)
    lemma_obligation(ctx, res)


if __name__ == "__main__" and len(sys.argv) > 1 and sys.argv[1] == "--worker":
    _, _, mir_, src_, tier_, tys_ = sys.argv
    print(json.dumps(worker(mir_, src_, tier_, tys_.split(","))))


# ---------------------------------------------------------------- which decoders can run under a byte-preserving one
def _fn_text(P, d):
    out = []
    for name, fn in P.fns.items():
        if name == d or name.startswith(d + "::{closure"):
            for stmts in fn.raw_blocks.values():
                out += stmts
    return "\n".join(out)


def decoder_graph(P):
    """(type -> types whose decoders its decoder calls, directly or through crate-local helper functions (transitively);
        roots = types whose decoder keeps the bytes it consumed: deserilized_with_orig_bytes / fill_buf capture)"""
    ents = decoder_entries(P)
    is_dec = set(ents.values())
    memo = {}
    CALL = re.compile(r"= ((?:<[^;=]*?>|[A-Za-z_][\w]*)(?:::[\w<>{}#@ ,:.&\[\]()\-']+?)?)\((?:[^;]*)\) -> \[")
    def expand(d, depth):
        """text of function d, its closures and every crate-local non-decoder helper reachable from it"""
        if d in memo:
            return memo[d]
        memo[d] = ""
        txt = _fn_text(P, d)
        full = [txt]
        if depth < 6:
            for call in set(CALL.findall(txt)):
                if call.startswith(("std::", "core::", "alloc::", "cbor_event::", "<std::", "<core::", "<alloc::")):
                    continue
                try:
                    h = P.resolve(call)
                except Exception:
                    h = None
                if h and h in P.fns and h not in is_dec and h != d:
                    full.append(expand(h, depth + 1))
        memo[d] = "\n".join(full)
        return memo[d]
    g, roots = {}, set()
    for t, d in ents.items():
        full = expand(d, 0)
        if "deserilized_with_orig_bytes" in full or "fill_buf" in full:
            roots.add(t)
        succ = set()
        for m in re.finditer(r"<([\w:]+?)(?:<[^>]*>)? as (?:[\w:]*::)?Deserialize(?:EmbeddedGroup)?>::deserialize|([\w:]+)::deserialize(?:_as_embedded_group)?\(|deserialize::<([\w:]+)>|\{<([\w:]+) as (?:[\w:]*::)?Deserialize>::deserialize", full):
            for x in m.groups():
                if x and last_seg(x) in ents and last_seg(x) != t:
                    succ.add(last_seg(x))
        g[t] = succ
    return g, roots


def closure(g, roots):
    seen, todo = set(roots), list(roots)
    while todo:
        for y in g.get(todo.pop(), ()):
            if y not in seen:
                seen.add(y); todo.append(y)
    return seen


# ---------------------------------------------------------------- second clause of C02: what a parser accepted re-serializes well formed
VERIF_DIR = os.path.dirname(os.path.dirname(os.path.dirname(os.path.abspath(__file__))))


def lenient_key(t, cls):
    return "C02-lenient-%s-%s" % (t, cls)


def probe_vals(t, cls):
    name = t.encode()
    return [[len(name)]] + [[c] for c in name] + [[0 if cls == "early-break" else 1]]


# real-byte instances of a (type, class) for decoders whose token-level witness has opaque nested values (used for the native
# confirmation only; the failure itself is found on the token model)
HANDMADE = {
    ("AuxiliaryData", "declared-length"): "83a080",
    ("ExUnitPrices", "declared-length"): "83d81e820102d81e820102",
    ("PoolMetadata", "declared-length"): "836161" + "5820" + "01" * 32,
    ("Update", "declared-length"): "83a000",
    ("VRFCert", "declared-length"): "83" + "4101" + "5850" + "02" * 80,
    ("MultiHostName", "declared-length"): "83026161",
    ("RelayEnum", "declared-length"): "83026161",
    ("UnitInterval", "declared-length"): "d81e830102",
    ("NativeScriptEnum", "declared-length"): "8300" + "581c" + "01" * 28,
    ("ConstrPlutusData", "declared-length"): "d866830080",
    ("BootstrapWitness", "declared-length"): "85" + "5820" + "09" * 32 + "5840" + "07" * 64 + "5820" + "01" * 32 + "41a0",
    ("SingleHostName", "declared-length"): "8401f66161",
    ("OperationalCert", "declared-length"): "85" + "5820" + "01" * 32 + "0102" + "5840" + "07" * 64,
}


def lemma_obligation(ctx, res):
    """Byte-preserving decoders (FixedTransaction, FixedTxWitnessesSet, FixedBlock, PlutusData: C04 decides that they re-emit
    verbatim the range their nested decoders consumed) produce well-formed CBOR again exactly if every decoder that can run
    under them consumes ONE well-formed item whenever it accepts.  Decided per decoder on the adversarial corpus of the
    totality obligation; a failure is a token stream that is accepted although no well-formed item starts at its beginning
    (a break where an element of a definite container is due; fewer elements than declared)."""
    from prove import Obligation
    P = ctx.P
    ob = Obligation(ctx, "c02_e2_accepted_input_is_one_wellformed_item", "", ["<T as Deserialize>::deserialize for every impl that can run under a byte-preserving decoder"])
    g, roots = decoder_graph(P)
    inside = closure(g, roots)
    if not {"FixedTransaction", "PlutusData"} <= roots:
        ob.fail("the byte-preserving decoders were not recognised in the MIR (roots found: %s)" % sorted(roots))
    try:
        kf = json.load(open(os.path.join(VERIF_DIR, "known_findings.json")))
    except Exception:
        kf = {}
    known = {k["id"] for k in kf.get("findings", []) if k.get("property") == "C02" and k.get("status") == "known"}
    try:
        unconfirmable = set(json.load(open(os.path.join(os.path.dirname(os.path.abspath(__file__)), "c02_lemma_unconfirmable.json"))))
    except Exception:
        unconfirmable = set()
    held, failing, noted, listed, outside_claim = [], [], [], [], []
    dump = {}
    for t in sorted(res):
        r = res[t]
        if r.get("unsupported") is not None:
            continue
        classes = {}
        for l in r.get("lenient", []):
            classes.setdefault(l["what"], []).append(l)
        if not classes:
            held.append(t); continue
        for cls, ws in sorted(classes.items()):
            key = lenient_key(t, cls)
            if t not in inside:
                noted.append(key); continue          # nothing keeps the bytes this decoder consumed: lenient, but not against the property
            if key in known:
                listed.append(key); continue          # announced (and re-executed natively) by the runner
            # new: confirm against the real decoder, byte-exactly if a witness renders, else on the native samples of the type
            confirmed = None
            if ctx.native_replay is not None:
                hm = HANDMADE.get((t, cls))
                for w in [w for w in ws if w["bytes"]][:3] + ([{"bytes": hm, "tokens": ws[0]["tokens"] + " (real-byte instance " + hm + ")"}] if hm else []):
                    rr = ctx.native_replay("e2n_c02_lenient", native_vals(t, w["bytes"]), "dev"); ctx.native_runs += 1
                    if rr.get("outcome") == "panic" and "accepts the malformed CBOR" in rr.get("message", ""):
                        confirmed = ("e2n_c02_lenient", native_vals(t, w["bytes"]), w); break
                if confirmed is None:
                    rr = ctx.native_replay("e2n_c02_lenient_probe", probe_vals(t, cls), "dev"); ctx.native_runs += 1
                    if rr.get("outcome") == "panic" and "accepts the malformed CBOR" in rr.get("message", ""):
                        confirmed = ("e2n_c02_lenient_probe", probe_vals(t, cls), ws[0])
            dump[key] = {"type": t, "class": cls, "tokens": ws[0]["tokens"], "confirmed": None if confirmed is None else {"harness": confirmed[0], "values": confirmed[1], "bytes": confirmed[2]["bytes"]}}
            if confirmed is not None:
                failing.append(key)
                ob.problems.append(("cex", "%s accepts malformed CBOR (%s): [%s]%s; byte-preserving decoders above it (%s) re-emit it verbatim" %
                                    (t, cls, confirmed[2]["tokens"], " = bytes " + confirmed[2]["bytes"] if confirmed[0] == "e2n_c02_lenient" else "", ", ".join(sorted(roots))), None,
                                    {"harness": confirmed[0], "values": confirmed[1]}))
            elif key in unconfirmable:
                outside_claim.append(key)
            else:
                ob.problems.append(("inconclusive", "%s accepts a malformed token stream (%s): [%s] — the witness has opaque nested values and does not reproduce on real bytes" % (t, cls, ws[0]["tokens"]), None))
    if os.environ.get("C02_LEMMA_DUMP"):
        json.dump(dump, open(os.environ["C02_LEMMA_DUMP"], "w"), indent=1)
    ob.queries += sum(r["runs"] for r in res.values())
    ob.bound = ("the corpus and decoders of c02_e2_decoders_total_on_adversarial_tokens; byte-preserving roots found in the MIR: %s; %d decoders can run under them. Lemma holds for %d decoders; "
                "listed known findings (type-class): %d; lenient decoders under no byte-preserving root (noted, not against the property): %s; token-level witnesses that cannot be confirmed on real bytes "
                "(opaque nested values, no native sample; committed list, outside the claim): %s"
                % (", ".join(sorted(roots)), len(inside), len(held), len(listed), ", ".join(noted) or "none", ", ".join(outside_claim) or "none"))
    ctx.log("  [E2] accepted-input lemma: holds for %d decoders, %d known (type, class) findings, %d new, %d noted outside byte-preserving roots, %d outside the claim" % (len(held), len(listed), len(failing), len(noted), len(outside_claim)))
    agg = Engine(P)

    def to_native(model, info):
        if not info:
            raise ValueError("no native witness")
        return info["harness"], info["values"]
    ob.finish(agg, cex_to_native=to_native)


# ---------------------------------------------------------------- (b) public text / bytes entry wrappers
WRAPPER_RE = re.compile(r"::(from_hex|from_bytes|from_json|from_bech32|from_base58|from_normal_bytes|from_extended_bytes|from_128_xprv|from_bip39_entropy)(#\d+)?$")


def wrapper_entries(P):
    out = []
    for d, fn in P.fns.items():
        if WRAPPER_RE.search(d) and "{closure" not in d and "::tests::" not in d and fn.params:
            out.append(d)
    return sorted(out)


def run_wrapper(P, d):
    """-> (status, detail): status in ok | panic | unsupported"""
    fn = P.fns[d]
    E = Engine(P, max_loop=6)
    # external decoders and reader construction only: anything else without a model keeps the wrapper outside the claim
    E.havoc_external = r"^(hex::|bech32::|<.* as bech32::|serde_json::|<.* as serde::|base58|crate::legacy_address::base58|std::io::Cursor::<|<cbor_event::de::Deserializer<.*> as From<|cbor_event::de::Deserializer::<.*>::from|<.* as (std::convert::)?(From|Into)<.*JsError|<str as ToString>|<.*Error as ToString>::to_string|<.* as std::string::ToString>::to_string|std::string::String::|<std::string::String as|core::str::|<str as|std::fmt::|alloc::fmt::format|<.* as FromBase32>::from_base32|<.* as bech32::FromBase32>::from_base32|<A as Asymmetric\w+>::|<A as \w+>::)"
    CM.install(E, target=None, adversarial=True)

    def opaque_deserialize(E_, c, args):
        dd = E_.P.resolve(c)
        ret = E_.P.fns[dd].ret if dd in E_.P.fns else None
        if ret is None:
            return NotImplemented
        return E_.typed_result(ret, "deserialize@%d" % len(E_.trace), [E_.as_u(a) for a in args])
    E.extra_intrinsics[r"(as (?:[\w:]*::)?Deserialize>::deserialize|::deserialize(::<.*>)?$)"] = opaque_deserialize
    E.extra_intrinsics[r"(^|::)\w+::from_bytes$"] = lambda E_, c, a: NotImplemented
    probs = []
    try:
        outs = E.explore(d, lambda: [VLazy("arg%d" % i, t) if not t.strip().startswith("&") else R(VLazy("arg%d" % i, re.sub(r"^&\s*('\w+\s+)?(mut )?", "", t.strip()))) for i, (_, t) in enumerate(fn.params)], max_paths=300)
        for o in outs:
            if o.kind in ("panic", "unreachable"):
                probs.append(o.msg[:200])
    except Unsupported as e:
        return "unsupported", str(e)[:200]
    except PathAbort as e:
        return "unsupported", "path abort " + e.msg[:120]
    except (AttributeError, TypeError, IndexError, KeyError, ValueError, AssertionError, RecursionError) as e:
        return "unsupported", "engine error %r" % (e,)
    if probs:
        return "panic", probs[0]
    return "ok", "%d paths" % len(outs)


def wrappers_obligation(ctx):
    from prove import Obligation
    P = ctx.P
    ob = Obligation(ctx, "c02_e2_entry_wrappers_total", "", ["T::from_hex / from_bytes / from_json / from_bech32 / from_base58 wrappers found in the MIR"], fallback_native="e2n_c02_wrappers")
    ents = wrapper_entries(P)
    ok_, outside, bad = [], {}, {}
    for d in ents:
        st, det = run_wrapper(P, d)
        label = "%s::%s" % (P.impl_of(d)[0] or "?", re.sub(r"#\d+$", "", d.split("::")[-1]))
        if st == "ok":
            ok_.append(label)
        elif st == "panic":
            bad[label] = det
        else:
            outside[label] = det
    ob.queries += len(ents)
    for label, det in sorted(bad.items())[:1]:
        ob.violation("%s can panic: %s (%d wrappers affected: %s)" % (label, det, len(bad), ", ".join(sorted(bad))[:300]))
    ob.bound = ("%d wrapper bodies executed on lazily initialised arguments; external decoders (hex, bech32, base58, serde_json, cbor reader construction) and nested deserialize are uninterpreted functions "
                "whose Result forks both ways. Executed: %d (%s ...). Outside the engine's reach (not claimed): %d (%s)" % (len(ents), len(ok_) + len(bad), ", ".join(sorted(set(ok_))[:25]), len(outside),
                "; ".join("%s [%s]" % (k, v[:50]) for k, v in sorted(outside.items())[:40])))
    ctx.log("  [E2] entry wrappers: %d ok, %d can panic, %d outside (%s)" % (len(ok_), len(bad), len(outside), {k: v[:60] for k, v in list(outside.items())[:6]}))
    ob.bad, ob.outside, ob.ok = bad, outside, ok_
    agg = Engine(P)
    ob.finish(agg)


# ---------------------------------------------------------------- (c) text helpers that cut strings at byte offsets
SLICE_RE = re.compile(r"(<str as (std::ops::)?Index<.*?>>::index|<std::string::String as (std::ops::)?Index<.*?>>::index|<impl str>::split_at\w*|String::(remove|insert|insert_str|truncate|split_off)\b)")


def slicing_functions(P):
    out = []
    for d, fn in P.fns.items():
        if "::tests::" in d or "{closure" in d:
            continue
        if any(SLICE_RE.search(l) for lines in fn.raw_blocks.values() for l in lines):
            out.append(d)
    return sorted(out)


def text_slicing_obligation(ctx):
    from prove import Obligation
    import strmodel
    P = ctx.P
    ob = Obligation(ctx, "c02_e2_text_slicing_total", "", ["every crate function that slices a str / String at a byte offset"], fallback_native="e2n_c02_text_battery")
    fns = slicing_functions(P)
    okf, outside = [], {}
    for d in fns:
        fn = P.fns[d]
        E = Engine(P, max_loop=6)
        E.havoc_external = r"^(hex::|bech32::|<.* as bech32::|serde_json::|core::str::|<str as|<impl str>|std::string::String::|<std::string::String as|std::fmt::|alloc::fmt::format|core::num::|<.* as std::str::FromStr>::from_str|std::str::|<.* as ToString>::to_string|<.* as std::string::ToString>::to_string|<.* as (std::convert::)?(From|Into)<.*>>::)"
        strmodel.install(E)
        label = re.sub(r"<impl at [^>]*>::", "", d).split("::")[-1] if "<impl at" not in d else "%s::%s" % (P.impl_of(d)[0], d.split("::")[-1])
        try:
            def mkargs(E=E, fn=fn):
                out = []
                for i, (_, t) in enumerate(fn.params):
                    t = t.strip()
                    if t in ("bool",) or t in INT_TYPES:
                        out.append(E.materialize(t, "arg%d" % i))
                    elif t.startswith("&"):
                        out.append(R(VLazy("arg%d" % i, re.sub(r"^&\s*('\w+\s+)?(mut )?", "", t))))
                    else:
                        out.append(VLazy("arg%d" % i, t))
                return out
            bad = [o.msg[:160] for o in E.explore(d, mkargs, max_paths=300) if o.kind in ("panic", "unreachable")]
        except Unsupported as e:
            outside[label] = str(e)[:120]; continue
        except PathAbort as e:
            outside[label] = "path abort " + e.msg[:100]; continue
        except (AttributeError, TypeError, IndexError, KeyError, ValueError, AssertionError, RecursionError) as e:
            outside[label] = "engine error %r" % (e,); continue
        okf.append(label)
        for b in bad[:1]:
            ob.violation("%s can panic on a string argument: %s" % (label, b))
    ob.queries += len(fns)
    ob.bound = ("%d functions contain a string cut (index by range, split_at, String::remove/insert/truncate/split_off); executed on arbitrary strings under the boundary theory of mir2smt/strmodel.py: %s. "
                "Outside the engine's reach (not claimed): %s" % (len(fns), ", ".join(okf) or "none", "; ".join("%s [%s]" % kv for kv in sorted(outside.items())) or "none"))
    ctx.log("  [E2] text slicing: %d functions with a string cut, %d executed, outside: %s" % (len(fns), len(okf), {k: v[:70] for k, v in outside.items()}))
    ob.finish(Engine(P))


# ---------------------------------------------------------------- the crate's own Base58 decoder (behind ByronAddress::from_base58 / is_valid)
B58 = b"123456789ABCDEFGHJKLMNPQRSTUVWXYZabcdefghijkmnopqrstuvwxyz"


def base58_obligation(ctx):
    """legacy_address::base58::base_decode is crate code (big-number arithmetic over a byte vector, leading-zero bookkeeping with
    subtractions on counts): executed from MIR on every input of 0..2 arbitrary bytes (quick: 0..1) and on runs of the zero symbol
    '1' of length 1..6, alone and followed by one arbitrary byte; no path may panic (index, subtraction / shift overflow)."""
    from prove import Obligation
    from engine import Engine, VSeq, VInt, VRef, Cell, Unsupported
    import z3
    P = ctx.P
    ob = Obligation(ctx, "c02_e2_base58_decode_total", "every input of 0..%d arbitrary bytes; runs of 1..6 zero symbols alone and followed by one arbitrary byte" % (2 if ctx.tier == "thorough" else 1),
                    ["legacy_address::base58::base_decode"], fallback_native="e2n_c02_text_battery")
    agg = Engine(P)
    cands = [d for d in P.fns if re.search(r"(^|::)base_decode$", d)]
    if not cands:
        ob.fail("base_decode not found in the MIR"); ob.finish(agg); return
    shapes = [("%d arbitrary bytes" % n, [None] * n) for n in ((0, 1, 2) if ctx.tier == "thorough" else (0, 1))]
    for k in range(1, 7):
        shapes.append(("%d zero symbols" % k, [0x31] * k))
        shapes.append(("%d zero symbols + 1 arbitrary byte" % k, [0x31] * k + [None]))
    nret = 0
    for what, shape in shapes:
        E = Engine(P, max_loop=70)
        E.U = agg.U
        E.extra_intrinsics[r"<impl str>::as_bytes$"] = lambda E_, c, a: a[0]
        sym = [E.sym_int("byte%d" % i, "u8") if b is None else None for i, b in enumerate(shape)]
        def mk(E=E, shape=shape, sym=sym):
            alpha = VSeq([VInt(z3.IntVal(b), "u8") for b in B58], "vec")
            inp = VSeq([VInt(sym[i].t if b is None else z3.IntVal(b), "u8") for i, b in enumerate(shape)], "vec")
            return [VRef(Cell(alpha, "alphabet")), VRef(Cell(inp, "input"))]
        try:
            outs = E.explore(cands[0], mk, max_paths=8000)
        except Unsupported as e:
            ob.fail("%s: base_decode cannot be executed (%s)" % (what, str(e)[:160])); continue
        for o in outs:
            if o.kind == "return":
                nret += 1
            elif o.kind == "bound":
                ob.fail("%s: loop bound reached" % what)
            else:
                ob.vc("%s: no panic in base_decode (%s %s)" % (what, o.kind, o.msg[:80]), o.pc, z3.BoolVal(False), info=dict(shape=shape))
        agg.stats["paths"] += E.stats["paths"]; agg.stats["feasibility_queries"] += E.stats["feasibility_queries"]; agg.stats["functions"] |= E.stats["functions"]
    if nret < 50:
        ob.fail("only %d returning paths" % nret)
    def nat(m, info=None):
        shape = (info or {}).get("shape", [])
        bs = [b if b is not None else (m.eval(z3.Int("byte%d" % i), model_completion=True).as_long() if m is not None else 0x31) for i, b in enumerate(shape)]
        name = b"ByronBase58"
        return "e2n_c02_text", [[len(name)]] + [[x] for x in name] + [[len(bs) & 0xff, len(bs) >> 8]] + [[x] for x in bs]
    ob.finish(agg, nat)


# ---------------------------------------------------------------- crate helpers that walk raw bytes (byte-level reader model)
def byte_helpers_obligation(ctx):
    """read_bounded_bytes (Plutus byte strings and big-integer payloads: definite, or chunked with the 64-byte chunk bound) and
    read_nint are executed from MIR over a byte-level model of the reader (mir2smt/bytemodel.py) on EVERY buffer of 0..4 bytes
    (quick: 0..3): truncated headers, truncated chunks, nested indefinite chunks, missing break - no path may panic."""
    from prove import Obligation
    from engine import Engine, VRef, Cell, Unsupported
    import bytemodel as BM
    import z3
    P = ctx.P
    nmax = 4 if ctx.tier == "thorough" else 3
    ob = Obligation(ctx, "c02_e2_byte_helpers_total", "every buffer of 0..%d arbitrary bytes" % nmax, ["utils::read_bounded_bytes", "serialization::utils::read_nint"], fallback_native="e2n_c02_decode")
    agg = Engine(P)
    nret = 0
    for fn in ("read_bounded_bytes", "read_nint"):
        cands = [d for d in P.fns if re.search(r"(^|::)%s$" % fn, d)]
        if not cands:
            ob.fail("%s not found in the MIR" % fn); continue
        for n in range(0, nmax + 1):
            E = Engine(P, max_loop=n + 3)
            E.U = agg.U
            BM.install(E)
            bs = [E.sym_int("byte%d" % i, "u8") for i in range(n)]
            def mk(E=E, bs=bs):
                for b in bs:
                    E.pc.append(z3.And(b.t >= 0, b.t <= 255))
                return [VRef(Cell(BM.VDeB([b.t for b in bs]), "raw"))]
            try:
                outs = E.explore(cands[0], mk, max_paths=20000)
            except Unsupported as e:
                ob.fail("%s on %d bytes: cannot be executed (%s)" % (fn, n, str(e)[:200])); continue
            for o in outs:
                if o.kind == "return":
                    nret += 1
                elif o.kind == "bound":
                    ob.fail("%s on %d bytes: loop bound reached" % (fn, n))
                else:
                    ob.vc("%s on %d bytes: no panic (%s %s)" % (fn, n, o.kind, o.msg[:80]), o.pc, z3.BoolVal(False), info=dict(n=n, fn=fn))
            agg.stats["paths"] += E.stats["paths"]; agg.stats["feasibility_queries"] += E.stats["feasibility_queries"]; agg.stats["functions"] |= E.stats["functions"]
    if nret < 20:
        ob.fail("only %d returning paths" % nret)
    def nat(m, info=None):
        info = info or {}
        bs_ = [m.eval(z3.Int("byte%d" % i), model_completion=True).as_long() if m is not None else 0x5f for i in range(info.get("n", 0))]
        name = b"PlutusData" if info.get("fn") == "read_bounded_bytes" else b"Int"
        return "e2n_c02_decode", [[len(name)]] + [[x] for x in name] + [[len(bs_) & 0xff, len(bs_) >> 8]] + [[x] for x in bs_]
    ob.finish(agg, nat)
