"""C02: parsers are total — token-level obligations (E2).

For every type with a struct-level decoder the engine can execute, the real `deserialize` MIR is run on adversarial
token streams derived from a valid encoding: every proper prefix (truncation), every single-token substitution by a token
of another kind (null, break, unsigned integer, byte string, text, empty array, empty map, tag), wrong declared lengths,
indefinite length with and without the closing break, and trailing garbage.  The decoder must return (Ok or Err) on
every path: a reachable panic, unwrap-on-error, failed assert or `unreachable!` is a violation.  Byte-level totality of
the leaf decoders (numbers, addresses) is the E1 part (harnesses shared with C11 and C14)."""
import z3
from engine import *
from prove import Obligation
import cbormodel as CM
import valuemodel as VM
from obl.c01 import MUST_COVER, indefinite_variant


def R(v, name="tmp"):
    return VRef(Cell(v, name))


COLLECTIONS = ["Vkeywitnesses", "BootstrapWitnesses", "TransactionInputs", "TransactionOutputs", "Certificates", "Ed25519KeyHashes", "Credentials", "VotingProposals",
               "NativeScripts", "PlutusList", "Redeemers", "Relays", "RewardAddresses", "GenesisHashes", "ScriptHashes", "AssetNames", "TransactionBodies", "TransactionWitnessSets",
               "Languages", "Vkeys", "PublicKeys", "Ipv4", "Ipv6", "URL", "DNSRecordAorAAAA", "DNSRecordSRV", "TransactionMetadatumLabels", "MetadataList", "Strings", "Voters", "GovernanceActionIds"]

SUBST = [("special", "Null", None), ("special", "Break", None), ("uint", z3.IntVal(7)), ("bytes", None), ("text", None), ("array", 0), ("map", 0), ("tag", 258), ("array", None), ("special", "Bool", z3.BoolVal(True))]


def mutants(toks, U):
    out = []
    for k in range(len(toks)):
        out.append(("truncated after %d tokens" % k, toks[:k]))
    for k in range(len(toks)):
        for s in SUBST:
            if s[0] == toks[k][0] and s[0] not in ("array", "map", "special"):
                continue
            t = s if s[1] is not None or s[0] in ("array",) else (s[0], z3.Const("junk_%s" % s[0], U))
            out.append(("token %d replaced by %s" % (k, s[:2]), toks[:k] + [t] + toks[k + 1:]))
    for k, t in enumerate(toks):
        if t[0] in ("array", "map") and t[1] is not None:
            out.append(("declared length +1 at token %d" % k, toks[:k] + [(t[0], t[1] + 1)] + toks[k + 1:]))
            if t[1] > 0:
                out.append(("declared length -1 at token %d" % k, toks[:k] + [(t[0], t[1] - 1)] + toks[k + 1:]))
            out.append(("huge declared length at token %d" % k, toks[:k] + [(t[0], (1 << 63))] + toks[k + 1:]))
    iv = indefinite_variant(toks)
    if iv is not None:
        out.append(("indefinite length", iv))
        out.append(("indefinite length without break", iv[:-1]))
        out.append(("indefinite length, break replaced by null", iv[:-1] + [("special", "Null", None)]))
    out.append(("trailing token", toks + [("uint", z3.IntVal(1))]))
    return out


def valid_streams(P, ty):
    """valid token streams of ty, from its own serializer on a lazy value; for plain collections a hand-made family"""
    if ty in COLLECTIONS:
        U = z3.DeclareSort("U")
        it = lambda j: ("item", z3.Const("elem%d" % j, U), "?")
        return [[("array", 0)], [("array", 1), it(0)], [("array", 2), it(0), it(1)], [("tag", 258), ("array", 1), it(0)], [("array", None), it(0), ("special", "Break", None)]]
    E = Engine(P, max_loop=12)
    CM.install(E, target=ty)
    out = []
    for o in E.explore("<%s as cbor_event::se::Serialize>::serialize" % ty, lambda: [R(VLazy("v", ty)), R(CM.VSer())], max_paths=60):
        if o.kind == "return" and o.value.variant == "Ok":
            t = list(VM.deref(E, o.args[1]).tokens)
            if not (len(t) == 1 and t[0][0] == "item"):
                out.append((t, list(o.pc)))
    return out


def obligations(ctx):
    P = ctx.P
    ob = Obligation(ctx, "c02_e2_decoders_total_on_adversarial_tokens", "per type: every valid stream the serializer produces, and for each every truncation, single-token substitution (10 kinds), "
                    "length off-by-one / huge, indefinite with and without break, trailing token; nested values opaque", ["<T as Deserialize>::deserialize"], fallback_native="e2n_c02_battery")
    ob.cross_every = 50
    agg = Engine(P)
    covered, skipped, nmut = [], {}, 0
    claim = set(C02_CLAIM)
    for ty in list(MUST_COVER) + COLLECTIONS:
        try:
            streams = valid_streams(P, ty)
            if not streams:
                skipped[ty] = "no valid stream"; continue
            probs = []
            cnt = 0
            for st in streams:
                toks, pc = (st, []) if ty in COLLECTIONS else st
                for what, m in mutants(toks, agg.U):
                    D = Engine(P, max_loop=40)
                    CM.install(D, target=ty)
                    D.U = agg.U
                    D.base = list(pc)
                    cnt += 1
                    for d in D.explore("<%s as Deserialize>::deserialize" % ty, lambda: [R(CM.VDe(m), "raw")], max_paths=60):
                        if d.kind in ("panic", "unreachable"):
                            probs.append("%s: decoder panics on [%s] of %s: %s" % (ty, what, [(t[0], t[1] if t[0] in ("array", "map", "tag") else "") for t in toks][:6], d.msg[:120]))
                    agg.stats["paths"] += D.stats["paths"]; agg.stats["functions"] |= D.stats["functions"]
            if ty not in claim:
                skipped[ty] = "not claimed" + (": " + probs[0][:100] if probs else " (executes cleanly)")
                continue
            covered.append("%s(%d)" % (ty, cnt))
            nmut += cnt
            for p_ in probs[:3]:
                ob.violation(p_)
        except Unsupported as e:
            skipped[ty] = str(e)[:120]
        except PathAbort as e:
            skipped[ty] = "path abort " + e.msg[:80]
        except (AttributeError, TypeError, IndexError, KeyError, ValueError) as e:
            skipped[ty] = "engine error %r" % (e,)
    missing = [t for t in C02_CLAIM if not any(c.startswith(t + "(") for c in covered)]
    if missing:
        ob.fail("types expected to be covered could not be executed: %s" % {t: skipped.get(t, "?") for t in missing})
    ob.bound += " %d adversarial streams over %d types: %s. Not claimed / outside reach: %s" % (nmut, len(covered), ", ".join(covered), ", ".join(sorted(skipped)))
    ob.queries += nmut
    ctx.log("  [E2] decoder totality: %d types, %d adversarial streams; skipped %s" % (len(covered), nmut, {k: v[:70] for k, v in skipped.items()}))
    ob.covered, ob.skipped = covered, skipped
    ob.finish(agg)


C02_CLAIM = []
