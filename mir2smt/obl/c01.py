"""C01 / C03 at struct level (E2): the (de)serializers of the key-indexed ledger structures, executed from MIR over the
token model of cbormodel.py.  For each presence combination explored: the emitted map is well formed (declared length ==
entries written), every present field sits under its CDDL key with ascending keys, absent and empty optional collections
are omitted, and decoding the emitted tokens yields a value whose fields are the original ones."""
import itertools
import z3
from engine import *
from prove import Obligation
import cbormodel as CM
import valuemodel as VM


def R(v, name="tmp"):
    return VRef(Cell(v, name))

def opt(x):
    return VEnum("Option", "Some", [x]) if x is not None else VEnum("Option", "None", [])


# Conway CDDL transaction_body keys -> (field of the Rust struct, Rust type, kind)
# kind: "req" mandatory, "opt" optional scalar, "col" optional collection omitted when empty
BODY = [
    (0, "inputs", "TransactionInputs", "req"), (1, "outputs", "TransactionOutputs", "req"), (2, "fee", "BigNum", "req"),
    (3, "ttl", "BigNum", "opt"), (4, "certs", "Certificates", "col"), (5, "withdrawals", "Withdrawals", "col"), (6, "update", "Update", "opt"),
    (7, "auxiliary_data_hash", "AuxiliaryDataHash", "opt"), (8, "validity_start_interval", "BigNum", "opt"), (9, "mint", "Mint", "col"),
    (11, "script_data_hash", "ScriptDataHash", "opt"), (13, "collateral", "TransactionInputs", "col"), (14, "required_signers", "Ed25519KeyHashes", "col"),
    (15, "network_id", "NetworkId", "opt"), (16, "collateral_return", "TransactionOutput", "opt"), (17, "total_collateral", "BigNum", "opt"),
    (18, "reference_inputs", "TransactionInputs", "col"), (19, "voting_procedures", "VotingProcedures", "col"), (20, "voting_proposals", "VotingProposals", "col"),
    (21, "current_treasury_value", "BigNum", "opt"), (22, "donation", "BigNum", "opt"),
]


def field_value(E, name, ty, present):
    if ty == "BigNum":
        return VM.bn(VInt(z3.Int("v_" + name), "u64"))
    return VLazy("v_" + name, ty)


def same_field(E, a, b):
    """z3 Bool: decoded field a is the original field b"""
    a, b = VM.deref(E, a), VM.deref(E, b)
    if isinstance(b, VStruct) and b.name == "BigNum":
        a0 = E.nav(a, [("field", 0, "u64")])
        return a0.t == b.fields[0].t
    return E.as_u(a) == E.as_u(b)


def check_keyed_struct(ctx, name, struct, TABLE, ser_entry, de_entry, combos, extra_setup=None, skip_roundtrip=(), note=""):
    """TABLE rows: (key, field, type, kind) with kind req | opt | col | special (written under a condition the obligation does not model)"""
    P = ctx.P
    names = P.struct_fields[struct]
    ob = Obligation(ctx, name, "%d presence combinations of the optional fields of %s (none, singles, pairs, all); collections present-but-empty or non-empty; "
                    "nested values opaque; scalar fields all u64. %s" % (len(combos), struct, note), [ser_entry, de_entry], fallback_native="e2n_c01_struct_roundtrip")
    ob.cross_every = 8
    agg = Engine(P)
    for combo in combos:
        E = Engine(P, max_loop=60)
        CM.install(E, target=struct)
        if extra_setup:
            extra_setup(E)
        E.assume(z3.And([z3.And(z3.Int("v_" + f[1]) >= 0, z3.Int("v_" + f[1]) < (1 << 64)) for f in TABLE if f[2] == "BigNum"] + [z3.BoolVal(True)]))
        def mk(combo=combo, E=E):
            ser = CM.VSer()
            kw = {}
            for key, fname, ty, kind in TABLE:
                v = field_value(E, fname, ty, True)
                kw[fname] = v if kind == "req" else (opt(v) if fname in combo else opt(None))
            return [R(E.mk_struct(struct, **kw), "self"), R(ser, "serializer")]
        for o in E.explore(ser_entry, mk):
            if o.kind != "return" or o.value.variant != "Ok":
                ob.vc("serializer fails or panics (%s %s)" % (o.kind, o.msg), o.pc, z3.BoolVal(False)); continue
            E.enter(o)
            toks = list(VM.deref(E, o.args[1]).tokens)
            ent = CM.map_entries(toks)
            if ent is None or CM.item_end(toks, 0) != len(toks):
                ob.violation("%s, present fields %s: emitted map is malformed (declared length %s, %d key/value tokens follow)" % (struct, sorted(combo), toks[0][1] if toks else None, len(toks) - 1)); continue
            val = VM.deref(E, o.args[0])
            keys = []
            for (ktok, vs, ve) in ent:
                k = E.concretize(ktok[1]) if ktok[0] == "uint" else None
                keys.append(k)
                rows = [f for f in TABLE if f[0] == k or (isinstance(f[0], tuple) and k in f[0])]
                if not rows:
                    ob.violation("%s, present fields %s: key %s is not in the CDDL table" % (struct, sorted(combo), k)); continue
                _, fname, ty, kind = rows[0]
                fv = val.fields[names.index(fname)]
                if kind != "req":
                    if fv.variant != "Some":
                        ob.violation("%s: key %s written although %s is absent" % (struct, k, fname)); continue
                    fv = fv.fields[0]
                vt = toks[vs]
                if kind == "special":
                    continue
                if ty == "BigNum":
                    if vt[0] != "uint":
                        ob.violation("%s: key %s (%s) does not carry an unsigned integer" % (struct, k, fname))
                    else:
                        ob.vc("key %s carries the value of %s" % (k, fname), o.pc, vt[1] == fv.fields[0].t)
                else:
                    if vt[0] != "item":
                        ob.violation("%s: key %s (%s) carries %s, expected one item of type %s" % (struct, k, fname, vt[0], ty))
                    else:
                        ob.vc("key %s carries %s" % (k, fname), o.pc, vt[1] == E.as_u(fv))
            if keys != sorted(keys, key=lambda x: (x is None, x)) and struct != "TransactionWitnessSet":
                ob.violation("%s: keys not ascending: %s" % (struct, keys))
            if len(set(keys)) != len(keys):
                ob.violation("%s: duplicate keys written: %s" % (struct, keys))
            for key, fname, ty, kind in TABLE:
                ks = key if isinstance(key, tuple) else (key,)
                written = any(k in keys for k in ks)
                if kind == "req" and not written:
                    ob.violation("%s: mandatory key %s (%s) missing" % (struct, key, fname))
                if kind == "opt" and (fname in combo) != written:
                    ob.violation("%s: optional field %s present=%s but key written=%s" % (struct, fname, fname in combo, written))
                if kind in ("col", "special") and fname not in combo and written:
                    ob.violation("%s: absent collection %s written" % (struct, fname))
                if kind == "col" and fname in combo and not written:
                    ln = z3.Function("container_len", E.U, z3.IntSort())
                    sol = z3.Solver(); sol.add(*o.pc)
                    x = z3.Const("x", E.U)
                    sol.add(z3.ForAll([x], ln(x) > 0))
                    if sol.check() == z3.sat:
                        ob.violation("%s: non-empty collection %s omitted" % (struct, fname))
            # ---- round trip: decode the emitted tokens
            D = Engine(P, max_loop=80)
            CM.install(D, target=struct)
            if extra_setup:
                extra_setup(D)
            D.base = list(o.pc)
            outs = D.explore(de_entry, lambda: [R(CM.VDe(toks), "raw")])
            good = [d for d in outs if d.kind == "return" and d.value.variant == "Ok"]
            if len(good) != 1 or len(outs) != 1:
                ob.violation("%s, present fields %s: decoding the emitted bytes does not succeed deterministically (%s)" % (struct, sorted(combo), [(d.kind, d.msg[:80], d.value.variant if d.value is not None else None) for d in outs][:3])); continue
            d = good[0]
            D.enter(d)
            dec = d.value.fields[0]
            for key, fname, ty, kind in TABLE:
                if fname in skip_roundtrip:
                    continue
                orig = val.fields[names.index(fname)]
                got = dec.fields[names.index(fname)]
                ks = key if isinstance(key, tuple) else (key,)
                written = any(k in keys for k in ks)
                if kind == "req":
                    ob.vc("round trip keeps %s" % fname, d.pc, same_field(D, got, orig))
                else:
                    if got.variant == "Some" and not written:
                        ob.violation("%s: decoder invents %s" % (struct, fname))
                    elif got.variant != "Some" and written:
                        ob.violation("%s: decoder drops %s" % (struct, fname))
                    elif written and kind != "special":
                        ob.vc("round trip keeps %s" % fname, d.pc, same_field(D, got.fields[0], orig.fields[0]))
            if any(t[0] == "type_confusion" for t in d.trace):
                ob.violation("%s: a field is decoded as a different type than it was encoded: %s" % (struct, [t for t in d.trace if t[0] == "type_confusion"][:2]))
            agg.stats["paths"] += D.stats["paths"]; agg.stats["functions"] |= D.stats["functions"]
        agg.stats["paths"] += E.stats["paths"]; agg.stats["feasibility_queries"] += E.stats["feasibility_queries"]; agg.stats["functions"] |= E.stats["functions"]
    return ob, agg


def presence_combos(TABLE, tier):
    optional = [f for f in TABLE if f[3] != "req"]
    combos = [frozenset()] + [frozenset([f[1]]) for f in optional] + [frozenset(f[1] for f in optional)]
    if tier == "thorough":
        combos += [frozenset([a[1], b[1]]) for a, b in itertools.combinations(optional, 2)]
    else:
        combos += [frozenset([a[1], b[1]]) for a, b in zip(optional, optional[1:])]
    return list(dict.fromkeys(combos))


WITNESS_SET = [(0, "vkeys", "Vkeywitnesses", "col"), (1, "native_scripts", "NativeScripts", "col"), (2, "bootstraps", "BootstrapWitnesses", "col"),
               ((3, 6, 7), "plutus_scripts", "PlutusScripts", "special"), (4, "plutus_data", "PlutusList", "col"), (5, "redeemers", "Redeemers", "col")]


def witness_setup(E):
    def as_set(E_, c, args):
        s = VM.deref(E_, args[-1])
        if not isinstance(s, CM.VSer):
            return NotImplemented
        v = VM.deref(E_, args[0])
        s.tokens.append(("item", E_.as_u(v), last_seg(v.ty) if isinstance(v, VLazy) else "?"))
        return VEnum("Result", "Ok", [args[-1]])
    E.extra_intrinsics[r"::serialize_as_set(_by_version)?(::<.*>)?$"] = as_set
    E.extra_intrinsics[r"PlutusScripts::has_version$"] = lambda E_, c, a: VBool(z3.Function("has_version", E_.U, E_.U, z3.BoolSort())(E_.as_u(a[0]), E_.as_u(a[1])))
    def dwob(E_, c, args):
        r = E_.force_arg(E_.call_value(args[1], [args[0]]))
        if r.variant == "Ok":
            return VEnum("Result", "Ok", [VStruct("()", [r.fields[0], VOpaque("orig_bytes")])])
        return r
    E.extra_intrinsics[r"deserilized_with_orig_bytes"] = dwob
    E.extra_intrinsics[r"(^|::)merge_option_plutus_list$"] = lambda E_, c, a: (a[0] if VM.deref(E_, a[1]).variant != "Some" else a[1])
    E.extra_intrinsics[r"TransactionWitnessSetRaw::new$"] = lambda E_, c, a: VLazy("raw_parts_out", "TransactionWitnessSetRaw")


def obligations(ctx):
    ob, agg = check_keyed_struct(ctx, "c01_e2_transaction_body_map", "TransactionBody", BODY,
                                 "<protocol_types::transaction_body::TransactionBody as cbor_event::se::Serialize>::serialize",
                                 "<protocol_types::transaction_body::TransactionBody as Deserialize>::deserialize", presence_combos(BODY, ctx.tier))
    ob.finish(agg)
    ob, agg = check_keyed_struct(ctx, "c01_e2_witness_set_map", "TransactionWitnessSet", WITNESS_SET,
                                 "<protocol_types::witnesses::transaction_witnesses_set::TransactionWitnessSet as cbor_event::se::Serialize>::serialize",
                                 "<protocol_types::witnesses::transaction_witnesses_set::TransactionWitnessSet as Deserialize>::deserialize",
                                 presence_combos(WITNESS_SET, "thorough"), witness_setup, skip_roundtrip=("plutus_scripts",),
                                 note="Plutus scripts (keys 3/6/7 by language) are only checked for presence.")
    ob.finish(agg, lambda m, info=None: ("e2n_c01_struct_roundtrip", []))
    ob, agg, covered, skipped = generic_roundtrip(ctx, GENERIC_TYPES, "c01_e2_generic_struct_roundtrip", claim=set(MUST_COVER))
    # a type that used to be covered and no longer executes is reported, never silently dropped
    missing = [t for t in MUST_COVER if not any(c.startswith(t + "(") for c in covered)]
    if missing:
        ob.fail("types expected to be covered could not be executed: %s" % {t: skipped.get(t, "?") for t in missing})
    ob.finish(agg)
    plutus_data_dispatch(ctx)


# ---------------------------------------------------------------- generic token-level round trip of struct-level codecs
MUST_COVER = ['TransactionInput', 'ExUnits', 'UnitInterval', 'ExUnitPrices', 'ProtocolVersion', 'Redeemer', 'ConstrPlutusData', 'Vkeywitness', 'BootstrapWitness', 'Anchor', 'GovernanceActionId', 'VotingProcedure', 'PoolMetadata', 'Update', 'TransactionUnspentOutput', 'StakeDelegation', 'PoolRegistration', 'PoolRetirement', 'GenesisKeyDelegation', 'MoveInstantaneousRewardsCert', 'CommitteeHotAuth', 'CommitteeColdResign', 'DRepRegistration', 'DRepDeregistration', 'DRepUpdate', 'StakeAndVoteDelegation', 'StakeRegistrationAndDelegation', 'StakeVoteRegistrationAndDelegation', 'VoteDelegation', 'VoteRegistrationAndDelegation', 'VotingProposal', 'ParameterChangeAction', 'HardForkInitiationAction', 'TreasuryWithdrawalsAction', 'NoConfidenceAction', 'NewConstitutionAction', 'InfoAction', 'Constitution', 'Transaction', 'SingleHostAddr', 'SingleHostName', 'MultiHostName', 'PoolParams', 'DataOption', 'ScriptRef', 'Header', 'OperationalCert', 'TimelockStart', 'TimelockExpiry', 'ScriptPubkey', 'ScriptAll', 'ScriptAny', 'ScriptNOfK', 'DRepVotingThresholds', 'PoolVotingThresholds', 'ProtocolParamUpdate', 'AuxiliaryData', 'GeneralTransactionMetadata', 'MetadataList', 'MetadataMap', 'PlutusScripts', 'Withdrawals', 'Mint', 'MintAssets', 'MultiAsset', 'Assets', 'Redeemers', 'Relays', 'Ed25519KeyHashes', 'TransactionInputs', 'Certificates', 'TransactionOutputs', 'VotingProcedures', 'VotingProposals', 'Committee', 'TreasuryWithdrawals', 'ProposedProtocolParameterUpdates', 'PlutusList', 'AuxiliaryDataSet', 'TransactionBodies', 'TransactionWitnessSets', 'Credentials', 'RewardAddresses', 'MIRToStakeCredentials', 'Block', 'Costmdls', 'Languages', 'AssetNames', 'ScriptHashes', 'Vkeys', 'GenesisHashes', 'CostModel', 'TransactionMetadatumLabels']

SET_TYPES = ("Ed25519KeyHashes", "Credentials", "TransactionInputs", "Certificates", "VotingProposals", "Vkeywitnesses", "BootstrapWitnesses")

GENERIC_TYPES = [
    "TransactionInput", "ExUnits", "UnitInterval", "ExUnitPrices", "ProtocolVersion", "Redeemer", "ConstrPlutusData", "Vkeywitness", "BootstrapWitness",
    "Credential", "DRep", "Anchor", "GovernanceActionId", "VotingProcedure", "Voter", "PoolMetadata", "Update", "TransactionUnspentOutput",
    "StakeRegistration", "StakeDeregistration", "StakeDelegation", "PoolRegistration", "PoolRetirement", "GenesisKeyDelegation", "MoveInstantaneousRewardsCert", "CommitteeHotAuth", "CommitteeColdResign",
    "DRepRegistration", "DRepDeregistration", "DRepUpdate", "StakeAndVoteDelegation", "StakeRegistrationAndDelegation", "StakeVoteRegistrationAndDelegation", "VoteDelegation", "VoteRegistrationAndDelegation", "Certificate",
    "VotingProposal", "ParameterChangeAction", "HardForkInitiationAction", "TreasuryWithdrawalsAction", "NoConfidenceAction", "UpdateCommitteeAction", "NewConstitutionAction", "InfoAction", "GovernanceAction",
    "Constitution", "Transaction", "SingleHostAddr", "SingleHostName", "MultiHostName", "Relay", "PoolParams", "DataOption", "ScriptRef",
    "MoveInstantaneousReward", "Header", "OperationalCert", "HeaderBody", "TimelockStart", "TimelockExpiry", "ScriptPubkey", "ScriptAll", "ScriptAny",
    "ScriptNOfK", "DRepVotingThresholds", "PoolVotingThresholds", "Nonce", "VRFCert", "Value", "TransactionOutput", "ProtocolParamUpdate", "AuxiliaryData",
    "GeneralTransactionMetadata", "MetadataList", "MetadataMap", "PlutusScripts", "Withdrawals", "Mint", "MintAssets", "MultiAsset", "Assets",
    "Redeemers", "Relays", "Ed25519KeyHashes", "TransactionInputs", "Certificates", "TransactionOutputs", "VotingProcedures", "VotingProposals", "Committee",
    "TreasuryWithdrawals", "ProposedProtocolParameterUpdates", "PlutusList", "PlutusMap", "AuxiliaryDataSet", "TransactionBodies", "TransactionWitnessSets", "Credentials", "RewardAddresses",
    "MIRToStakeCredentials", "Block", "Costmdls", "Languages", "AssetNames", "ScriptHashes", "Vkeys", "GenesisHashes", "Ipv4",
    "Ipv6", "URL", "DNSRecordAorAAAA", "DNSRecordSRV", "CostModel", "Strings", "TransactionMetadatumLabels", "Vkeywitnesses", "BootstrapWitnesses",
]


def tokens_equal(E, pc, a, b):
    """(bool structure_equal, [z3 equalities to prove])"""
    if len(a) != len(b):
        return False, []
    eqs = []
    for x, y in zip(a, b):
        if x[0] != y[0]:
            return False, []
        for u, v in zip(x[1:3], y[1:3]):
            if isinstance(u, z3.ExprRef) or isinstance(v, z3.ExprRef):
                try:
                    eqs.append(u == v)
                except Exception:
                    return False, []
            elif u != v:
                return False, []
    return True, eqs


def indefinite_variant(toks):
    """the same item with its outermost array/map (after leading tags) written with indefinite length, or None"""
    p = 0
    while p < len(toks) and toks[p][0] == "tag":
        p += 1
    if p >= len(toks) or toks[p][0] not in ("array", "map") or toks[p][1] is None:
        return None
    end = CM.item_end(toks, p)
    if end is None:
        return None
    return toks[:p] + [(toks[p][0], None)] + toks[p + 1:end] + [("special", "Break", None)] + toks[end:]


def presence_presets(P, ty, tier):
    """for structs with many optional fields: base constraints fixing which Option fields are present (none, singles,
    adjacent pairs — all pairs in the thorough tier —, all) instead of enumerating 2^n serializer paths"""
    ftys = getattr(P, "struct_field_types", {}).get(ty)
    if not ftys:
        return None
    opt_idx = [i for i, t in enumerate(ftys) if re.match(r"^(std::option::)?Option<", t)]
    if len(opt_idx) < 9:
        return None
    combos = [frozenset(), frozenset(opt_idx)] + [frozenset([i]) for i in opt_idx]
    combos += [frozenset(c) for c in (itertools.combinations(opt_idx, 2) if tier == "thorough" else zip(opt_idx, opt_idx[1:]))]
    some = ENUM_STD["Option"].index("Some")
    return [(sorted(c), [z3.Int("v.%d#d" % i) == (some if i in c else 1 - some) for i in opt_idx]) for c in dict.fromkeys(combos)]


def generic_roundtrip(ctx, tys, name, claim=None):
    P = ctx.P
    per_type = {}
    ob = Obligation(ctx, name, "every variant / optional-field combination the serializer's own MIR distinguishes on a lazily initialised value; nested values opaque items; "
                    "definite and outermost-indefinite encodings", ["<T as Serialize>::serialize", "<T as Deserialize>::deserialize for T in the covered list"],
                    fallback_native="e2n_c01_struct_roundtrip")
    ob.cross_every = 16
    agg = Engine(P)
    covered, skipped, refused = [], {}, {}
    SENT = ("uint", z3.IntVal(424242))
    for ty in tys:
        try:
            local = Obligation(ctx, name + ":" + ty)
            presets = presence_presets(P, ty, ctx.tier)
            outs = []
            for combo, base in (presets or [(None, [])]):
                E = Engine(P, max_loop=12 if presets is None else 80)
                CM.install(E, target=ty)
                E.lazy_collection_sizes, E.item_carries_value, E.lazy_vec_distinct = (0, 1, 2), True, ty in SET_TYPES
                E.base = list(base)
                po = E.explore("<%s as cbor_event::se::Serialize>::serialize" % ty, lambda: [R(VLazy("v", ty), "self"), R(CM.VSer(), "ser")], max_paths=400)
                if presets is not None:
                    for o in po:
                        # a keyed struct: whatever subset of fields is present, the emitted map must be well formed
                        if o.kind == "return" and o.value.variant == "Ok":
                            tk = list(VM.deref(E, o.args[1]).tokens)
                            if CM.item_end(tk, 0) != len(tk):
                                local.violation("%s with optional fields %s present: emitted tokens are not one well-formed item (declared length %s, %d tokens follow)" % (ty, combo, tk[0][1] if tk else None, len(tk) - 1))
                        elif o.kind != "bound":
                            local.violation("%s with optional fields %s present: serializer does not return Ok (%s %s)" % (ty, combo, o.kind, o.msg[:80]))
                outs += [(E, o) for o in po]
                if presets is not None:
                    agg.stats["paths"] += E.stats["paths"]; agg.stats["feasibility_queries"] += E.stats["feasibility_queries"]; agg.stats["functions"] |= E.stats["functions"]
            npaths = 0
            for E, o in outs:
                if o.kind == "bound":
                    continue
                if o.kind != "return" or o.value.variant != "Ok":
                    continue            # values the serializer itself refuses (e.g. unknown index) are not constructible
                toks = list(VM.deref(E, o.args[1]).tokens)
                if CM.item_end(toks, 0) != len(toks):
                    local.violation("%s: emitted tokens are not one well-formed item: %s" % (ty, [(t[0], t[1] if t[0] in ("array", "map", "tag") else "") for t in toks])); continue
                if len(toks) == 1 and toks[0][0] == "item":
                    continue            # a dispatching wrapper: the bytes are those of the inner type, which is covered on its own
                npaths += 1
                for variant, stream in (("definite", toks), ("indefinite", indefinite_variant(toks))):
                    if stream is None:
                        continue
                    D = Engine(P, max_loop=40)
                    CM.install(D, target=ty)
                    D.lazy_collection_sizes, D.item_carries_value, D.lazy_vec_distinct = (0, 1, 2), True, ty in SET_TYPES
                    D.base = list(o.pc)
                    douts = D.explore("<%s as Deserialize>::deserialize" % ty, lambda: [R(CM.VDe(stream + [SENT]), "raw")], max_paths=200)
                    good = [d for d in douts if d.kind == "return" and d.value.variant == "Ok"]
                    if variant == "indefinite" and douts and all(d.kind == "return" and d.value is not None and d.value.variant == "Err" for d in douts):
                        # C01 speaks about the library's own (definite) bytes; a decoder that REFUSES the indefinite spelling is a
                        # limitation, not a round-trip failure (TransactionOutput's post-Alonzo map decoder has no break handling)
                        refused.setdefault(ty, 0); refused[ty] += 1
                        continue
                    if len(good) != 1 or len(douts) != 1:
                        local.violation("%s (%s encoding %s): decoding does not succeed deterministically: %s" % (ty, variant, [(t[0], t[1] if t[0] in ("array", "map", "tag") else "") for t in stream][:8],
                                                                                                                  [(d.kind, d.msg[:60], d.value.variant if d.value is not None else None) for d in douts][:3])); continue
                    d = good[0]
                    de = VM.deref(D, d.args[0])
                    if de.pos != len(stream):
                        local.violation("%s (%s encoding): decoder stops at token %d of %d — it does not consume exactly its own item" % (ty, variant, de.pos, len(stream))); continue
                    # re-encode the decoded value
                    D.enter(d)
                    S2 = Engine(P, max_loop=12)
                    CM.install(S2, target=ty)
                    S2.lazy_collection_sizes, S2.item_carries_value, S2.lazy_vec_distinct = (0, 1, 2), True, ty in SET_TYPES
                    S2.base = list(d.pc)
                    S2.lazy_ident_seed = dict(d.idents)
                    dec = d.value.fields[0]
                    def mk2(dec=dec, S2=S2, d=d):
                        S2.lazy_ident.update(d.idents)
                        return [R(clone(dec), "self"), R(CM.VSer(), "ser")]
                    routs = [r for r in S2.explore("<%s as cbor_event::se::Serialize>::serialize" % ty, mk2, max_paths=200) if r.kind == "return" and r.value.variant == "Ok"]
                    if len(routs) != 1:
                        local.violation("%s: the decoded value does not re-encode deterministically (%d ways)" % (ty, len(routs))); continue
                    t2 = VM.deref(S2, routs[0].args[1]).tokens
                    same, eqs = tokens_equal(S2, routs[0].pc, toks, t2)
                    if not same and variant == "indefinite":
                        # a type that deliberately remembers the spelling it was decoded from (Plutus lists) re-emits the indefinite form
                        same, eqs = tokens_equal(S2, routs[0].pc, stream, t2)
                    if not same:
                        local.violation("%s (%s encoding): decode then encode gives a different structure: %s vs %s" % (ty, variant, [t[0] for t in toks], [t[0] for t in t2]))
                    elif eqs:
                        local.vc("%s (%s encoding): decode then encode gives the same tokens" % (ty, variant), routs[0].pc, z3.And(eqs))
                    agg.stats["paths"] += D.stats["paths"] + S2.stats["paths"]
            agg.stats["paths"] += E.stats["paths"]; agg.stats["feasibility_queries"] += E.stats["feasibility_queries"]; agg.stats["functions"] |= E.stats["functions"]
            if npaths == 0:
                skipped[ty] = "no serializer path"
                continue
            local._collect()
            if claim is not None and ty not in claim:
                if local.problems:
                    skipped[ty] = "not claimed (the token model cannot decide this type): " + local.problems[0][1][:120]
                else:
                    covered.append("%s(%d, unclaimed)" % (ty, npaths))
                continue
            covered.append("%s(%d)" % (ty, npaths))
            per_type[ty] = [p[1] for p in local.problems]
            ob.problems += local.problems
            ob.queries += local.queries; ob.solver_s += local.solver_s; ob.assertions += local.assertions; ob.cross_ok += local.cross_ok; ob.cross_unknown += local.cross_unknown
        except Unsupported as e:
            skipped[ty] = str(e)[:160]
        except PathAbort as e:
            skipped[ty] = "path abort " + e.msg[:100]
        except (AttributeError, TypeError, IndexError, KeyError, ValueError) as e:
            skipped[ty] = "engine error %r" % (e,)
    if refused:
        ob.bound += " Indefinite-length spelling refused by the decoder (not required by C01, noted): " + ", ".join("%s(%d)" % kv for kv in sorted(refused.items())) + "."
    ob.bound += " Covered types (serializer paths): " + ", ".join(covered) + ". Outside the engine's reach (not claimed): " + ", ".join(sorted(skipped))
    ctx.log("  [E2] generic round trip covered %d types; skipped: %s" % (len(covered), {k: v[:90] for k, v in skipped.items()}))
    ob.expected_covered = covered
    ob.per_type = per_type
    return ob, agg, covered, skipped


# ---------------------------------------------------------------- Plutus data: the trial-and-seek-back dispatcher returns the variant that was written
def plutus_data_dispatch(ctx):
    """PlutusDataEnum is decoded by trying constructor / map / list / integer / bytes in turn and seeking back after each failed
    attempt.  For every token shape the library itself writes for a Plutus datum the dispatcher must return the variant that was
    written and consume exactly that item: unsigned / negative integers, tag-2 / tag-3 big integers, byte strings, empty and
    non-empty lists, maps, compact and general constructor forms.  ConstrPlutusData / PlutusMap / PlutusList decoders are executed
    from their MIR (nested data are opaque items); BigInt's decoder is a grammar stub (uint | nint | tag 2 bytes | tag 3 bytes)
    and read_bounded_bytes accepts one bytes token."""
    P = ctx.P
    ob = Obligation(ctx, "c01_e2_plutus_data_variant_dispatch", "11 token shapes the library writes for a datum (integers: uint / nint / tag 2 / tag 3; bytes; lists; maps; constructors compact and general); nested data opaque",
                    ["<PlutusDataEnum as Deserialize>::deserialize", "<ConstrPlutusData as Deserialize>::deserialize", "<PlutusMap as Deserialize>::deserialize", "<PlutusList as Deserialize>::deserialize"],
                    fallback_native="e2n_c01_plutus_variants")
    agg = Engine(P)
    U = agg.U
    item = lambda k: ("item", z3.Const("nested%d" % k, U), "PlutusData")
    x = z3.Int("int_arg")
    shapes = [
        ("unsigned integer", [("uint", x)], "Integer"),
        ("negative integer", [("nint", x)], "Integer"),
        ("big integer, tag 2", [("tag", 2), ("bytes", z3.Const("magnitude", U))], "Integer"),
        ("big integer, tag 3", [("tag", 3), ("bytes", z3.Const("magnitude", U))], "Integer"),
        ("byte string", [("bytes", z3.Const("payload", U))], "Bytes"),
        ("empty list", [("array", 0)], "List"),
        ("list of 2 (indefinite)", [("array", None), item(0), item(1), ("special", "Break", None)], "List"),
        ("empty map", [("map", 0)], "Map"),
        ("map of 1", [("map", 1), item(0), item(1)], "Map"),
        ("constructor 0, compact form", [("tag", 121), ("array", 0)], "ConstrPlutusData"),
        ("constructor 200, general form", [("tag", 102), ("array", 2), ("uint", z3.IntVal(200)), ("array", 0)], "ConstrPlutusData"),
    ]
    n = 0
    for what, toks, want in shapes:
        E = Engine(P, max_loop=8)
        E.U = U
        CM.install(E, inline_types=("ConstrPlutusData", "PlutusMap", "PlutusList"), target="PlutusDataEnum")
        def bigint(E_, c, args):
            d = VM.deref(E_, args[0])
            if not isinstance(d, CM.VDe):
                return NotImplemented
            t = d.tokens[d.pos] if d.pos < len(d.tokens) else None
            if t is not None and t[0] in ("uint", "nint"):
                d.pos += 1
                return VEnum("Result", "Ok", [VOpaque("bigint")])
            if t is not None and t[0] == "tag" and t[1] in (2, 3) and d.pos + 1 < len(d.tokens) and d.tokens[d.pos + 1][0] == "bytes":
                d.pos += 2
                return VEnum("Result", "Ok", [VOpaque("bigint")])
            return VEnum("Result", "Err", [VOpaque("err:bigint")])
        E.extra_intrinsics[r"<(\w+::)*BigInt as (\w+::)*Deserialize>::deserialize$"] = bigint
        def rbb(E_, c, args):
            d = VM.deref(E_, args[0])
            if not isinstance(d, CM.VDe):
                return NotImplemented
            t = d.tokens[d.pos] if d.pos < len(d.tokens) else None
            if t is None or t[0] != "bytes":
                return VEnum("Result", "Err", [VOpaque("err:bytes")])
            d.pos += 1
            return VEnum("Result", "Ok", [VOpaque("bytes", [], t[1])])
        E.extra_intrinsics[r"(^|::)read_bounded_bytes::<.*>$"] = rbb
        E.base = [z3.And(x >= 0, x <= (1 << 64) - 1)]
        SENT = ("uint", z3.IntVal(424242))
        try:
            outs = E.explore("<PlutusDataEnum as Deserialize>::deserialize", lambda toks=toks: [R(CM.VDe(list(toks) + [SENT]), "raw")], max_paths=200)
        except Unsupported as e:
            ob.fail("%s: the dispatcher cannot be executed (%s)" % (what, str(e)[:200])); continue
        for o in outs:
            if o.kind == "bound":
                ob.fail("%s: loop bound" % what); continue
            if o.kind != "return":
                ob.vc("%s: no panic (%s %s)" % (what, o.kind, o.msg[:80]), o.pc, z3.BoolVal(False)); continue
            n += 1
            if o.value.variant != "Ok":
                ob.violation("%s: the library's own encoding is refused by the Plutus data decoder" % what); continue
            v = VM.deref(E, o.value.fields[0])
            got = v.variant if isinstance(v, VEnum) else repr(v)
            if got != want:
                ob.violation("%s: decoded as %s instead of %s" % (what, got, want)); continue
            de = VM.deref(E, o.args[0])
            if de.pos != len(toks):
                ob.violation("%s: the decoder stops at token %d of %d" % (what, de.pos, len(toks)))
        agg.stats["paths"] += E.stats["paths"]; agg.stats["feasibility_queries"] += E.stats["feasibility_queries"]; agg.stats["functions"] |= E.stats["functions"]
    if n < len(shapes):
        ob.fail("only %d of %d shapes returned" % (n, len(shapes)))
    ob.finish(agg, lambda m, info=None: ("e2n_c01_plutus_variants", []))
