"""C04: original bytes and the hashes derived from them are preserved — E2 obligations on the byte-preserving transaction.

Representation invariant of FixedTransaction (H = blake2b256, D = TransactionBody::from_bytes, Daux = AuxiliaryData::from_bytes,
all uninterpreted):   tx_hash == H(body_bytes)  and  body == D(body_bytes)  and  (auxiliary_bytes = Some(a) => auxiliary_data == Some(Daux(a))).
Every constructor establishes it and every public mutator preserves it from an ARBITRARY state satisfying it (one inductive
step, so every history of operations is covered); signatures are made over self.tx_hash; adding a key / bootstrap witness
drops only the original bytes of the field it touches; the serializer writes body_bytes and auxiliary_bytes verbatim."""
import z3
from engine import *
from prove import Obligation
import cbormodel as CM
import valuemodel as VM


def R(v, name="tmp"):
    return VRef(Cell(v, name))

def opt(x):
    return VEnum("Option", "Some", [x]) if x is not None else VEnum("Option", "None", [])


def install(E):
    U = E.U
    H = z3.Function("blake2b256", U, U)
    D = z3.Function("decode_body", U, U)
    Daux = z3.Function("decode_aux", U, U)
    Dws = z3.Function("decode_fixed_witness_set", U, U)
    okb, oka, okw = z3.Function("body_decodes", U, z3.BoolSort()), z3.Function("aux_decodes", U, z3.BoolSort()), z3.Function("ws_decodes", U, z3.BoolSort())
    def bytes_like(E_, c, args):          # to_vec / clone of a byte sequence keeps its identity
        return VOpaque("bytes", [], E_.as_u(args[0]))
    E.extra_intrinsics[r"<impl \[u8\]>::to_vec$"] = bytes_like
    E.extra_intrinsics[r"(^|::)blake2b256$"] = lambda E_, c, a: VOpaque("hash32", [], H(E_.as_u(a[0])))
    def from_bytes(fn, okf, tag):
        def f(E_, c, args):
            u = E_.as_u(args[0])
            i = E_.choose([okf(u), z3.Not(okf(u))], tag)
            return VEnum("Result", "Ok", [VOpaque(tag, [], fn(u))]) if i == 0 else VEnum("Result", "Err", [VOpaque("decode_error")])
        return f
    E.extra_intrinsics[r"TransactionBody::from_bytes$"] = from_bytes(D, okb, "body")
    E.extra_intrinsics[r"AuxiliaryData::from_bytes$"] = from_bytes(Daux, oka, "aux")
    def ws_from_bytes(E_, c, args):
        u = E_.as_u(args[0])
        i = E_.choose([okw(u), z3.Not(okw(u))], "ws")
        return VEnum("Result", "Ok", [VLazy("decoded_ws", "FixedTxWitnessesSet")]) if i == 0 else VEnum("Result", "Err", [VOpaque("decode_error")])
    E.extra_intrinsics[r"FixedTxWitnessesSet::from_bytes$"] = ws_from_bytes
    E.extra_intrinsics[r"has_transaction_set_tag_internal$"] = lambda E_, c, a: VEnum("Result", "Ok", [VLazy("tag_state", "TransactionSetsState")])
    E.extra_intrinsics[r"FixedTxWitnessesSet::force_set_tags_for_new_witnesses$"] = lambda E_, c, a: UNIT
    E.extra_intrinsics[r"FixedTxWitnessesSet::(add_vkey_witness|add_bootstrap_witness)$"] = lambda E_, c, a: (E_.trace.append((c.split("::")[-1], E_.as_u(a[1]))), UNIT)[1]
    for nm in ("make_vkey_witness", "make_icarus_bootstrap_witness", "make_daedalus_bootstrap_witness"):
        E.extra_intrinsics[r"(^|::)%s$" % nm] = (lambda nm: lambda E_, c, a: (E_.trace.append(("signed", nm, E_.as_u(a[0]))), VLazy("witness_" + nm, "Vkeywitness"))[1])(nm)
    return H, D, Daux


def state(E, H, D, Daux, has_aux):
    b0, a0 = z3.Const("body_bytes0", E.U), z3.Const("aux_bytes0", E.U)
    kw = dict(body=VOpaque("body", [], D(b0)), body_bytes=VOpaque("bytes", [], b0), tx_hash=VStruct("TransactionHash", [VOpaque("hash32", [], H(b0))]),
              witness_set=VLazy("ws0", "FixedTxWitnessesSet"), is_valid=VBool(z3.Bool("valid0")))
    if has_aux:
        kw["auxiliary_data"] = opt(VOpaque("aux", [], Daux(a0)))
        kw["auxiliary_bytes"] = opt(VOpaque("bytes", [], a0))
    else:
        kw["auxiliary_data"] = opt(None)
        kw["auxiliary_bytes"] = opt(None)
    return E.mk_struct("FixedTransaction", **kw)


def invariant(E, P, st, H, D, Daux):
    f = lambda n: st.fields[P.struct_fields["FixedTransaction"].index(n)]
    bb = E.as_u(f("body_bytes"))
    inv = [E.as_u(f("tx_hash")) == E.as_u(VStruct("TransactionHash", [VOpaque("hash32", [], H(bb))])), E.as_u(f("body")) == D(bb)]
    ab, ad = f("auxiliary_bytes"), f("auxiliary_data")
    if ab.variant == "Some":
        if ad.variant != "Some":
            return z3.BoolVal(False)
        inv.append(E.as_u(ad.fields[0]) == Daux(E.as_u(ab.fields[0])))
    return z3.And(inv)


def obligations(ctx):
    P = ctx.P
    ob = Obligation(ctx, "c04_e2_fixed_transaction_invariant", "arbitrary state satisfying the invariant (auxiliary data present / absent); arbitrary arguments; decoders succeed or fail arbitrarily",
                    ["FixedTransaction::{new, new_with_auxiliary, new_from_body_bytes, new_with_original_bytes, set_body, set_auxiliary_data, set_witness_set, set_is_valid, add_*_witness, sign_and_add_*}"],
                    fallback_native="e2n_c04_fixed_tx")
    agg = Engine(P)
    raw = lambda n: R(VOpaque("bytes", [], z3.Const(n, agg.U)))
    mutators = [
        ("set_body", lambda E: [raw("new_body_bytes")]),
        ("set_auxiliary_data", lambda E: [raw("new_aux_bytes")]),
        ("set_witness_set", lambda E: [raw("new_ws_bytes")]),
        ("set_is_valid", lambda E: [VBool(z3.Bool("valid1"))]),
        ("add_vkey_witness", lambda E: [R(VLazy("vkw", "Vkeywitness"))]),
        ("add_bootstrap_witness", lambda E: [R(VLazy("bw", "BootstrapWitness"))]),
        ("sign_and_add_vkey_signature", lambda E: [R(VLazy("sk", "PrivateKey"))]),
        ("sign_and_add_icarus_bootstrap_signature", lambda E: [R(VLazy("byron", "ByronAddress")), R(VLazy("sk", "Bip32PrivateKey"))]),
        ("sign_and_add_daedalus_bootstrap_signature", lambda E: [R(VLazy("byron", "ByronAddress")), R(VLazy("sk", "LegacyDaedalusPrivateKey"))]),
    ]
    for name, mkargs in mutators:
        for has_aux in (False, True):
            E = Engine(P)
            E.U = agg.U
            H, D, Daux = install(E)
            for o in E.explore("FixedTransaction::" + name, lambda: [R(state(E, H, D, Daux, has_aux), "self")] + mkargs(E)):
                if o.kind != "return":
                    ob.vc("no panic in %s (%s %s)" % (name, o.kind, o.msg), o.pc, z3.BoolVal(False)); continue
                E.enter(o)
                st = VM.deref(E, o.args[0])
                ob.vc("%s preserves: tx_hash == H(body_bytes), body == D(body_bytes), auxiliary_data == Daux(auxiliary_bytes)" % name, o.pc, invariant(E, P, st, H, D, Daux), info=name)
                for t in o.trace:
                    if t[0] == "signed":
                        f = lambda n: st.fields[P.struct_fields["FixedTransaction"].index(n)]
                        ob.vc("%s signs the hash of the CURRENT body bytes" % name, o.pc,
                              t[2] == E.as_u(VStruct("TransactionHash", [VOpaque("hash32", [], H(E.as_u(f("body_bytes"))))])))
                if o.value is not None and isinstance(o.value, VEnum) and o.value.variant == "Err" and E.writes:
                    ob.violation("%s fails after modifying the transaction" % name)
            agg.stats["paths"] += E.stats["paths"]; agg.stats["feasibility_queries"] += E.stats["feasibility_queries"]; agg.stats["functions"] |= E.stats["functions"]
    # constructors
    ctors = [("new", lambda E: [raw("b"), raw("w"), VBool(z3.Bool("v"))]), ("new_with_auxiliary", lambda E: [raw("b"), raw("w"), raw("a"), VBool(z3.Bool("v"))]),
             ("new_from_body_bytes", lambda E: [raw("b")])]
    for name, mkargs in ctors:
        E = Engine(P)
        E.U = agg.U
        H, D, Daux = install(E)
        E.extra_intrinsics[r"FixedTxWitnessesSet::new_empty$"] = lambda E_, c, a: VLazy("empty_ws", "FixedTxWitnessesSet")
        nok = 0
        for o in E.explore("FixedTransaction::" + name, lambda: mkargs(E)):
            if o.kind != "return":
                ob.vc("no panic in %s (%s %s)" % (name, o.kind, o.msg), o.pc, z3.BoolVal(False)); continue
            if o.value.variant != "Ok":
                continue
            nok += 1
            E.enter(o)
            st = o.value.fields[0]
            ob.vc("%s establishes the invariant" % name, o.pc, invariant(E, P, st, H, D, Daux), info=name)
            f = lambda n: st.fields[P.struct_fields["FixedTransaction"].index(n)]
            ob.vc("%s keeps the given body bytes" % name, o.pc, E.as_u(f("body_bytes")) == z3.Const("b", agg.U))
        if nok == 0:
            ob.fail("no Ok path through " + name)
        agg.stats["paths"] += E.stats["paths"]; agg.stats["functions"] |= E.stats["functions"]
    ob.finish(agg)

    # ------------------------------------------------------------------ witness set: adding a witness drops only the touched field's original bytes
    ob = Obligation(ctx, "c04_e2_untouched_raw_parts_survive", "arbitrary witness-set state; vkeys/bootstraps field present or absent", ["FixedTxWitnessesSet::add_vkey_witness", "FixedTxWitnessesSet::add_bootstrap_witness"],
                    fallback_native="e2n_c04_fixed_tx")
    RAW = P.struct_fields["TransactionWitnessSetRaw"]
    for name, touched in (("add_vkey_witness", "vkeys"), ("add_bootstrap_witness", "bootstraps")):
        E = Engine(P)
        for nm in ("Vkeywitnesses", "BootstrapWitnesses"):
            E.extra_intrinsics[r"%s::new$" % nm] = (lambda nm: lambda E_, c, a: VLazy("fresh_" + nm, nm))(nm)
            E.extra_intrinsics[r"%s::(set_force_original_cbor_set_type|set_set_type)$" % nm] = lambda E_, c, a: UNIT
            E.extra_intrinsics[r"%s::add$" % nm] = lambda E_, c, a: VBool(True)
        def mk():
            rp = E.mk_struct("TransactionWitnessSetRaw", **{n: opt(VOpaque("bytes", [], z3.Const("raw_" + n, E.U))) for n in RAW})
            return [R(E.mk_struct("FixedTxWitnessesSet", raw_parts=rp, tx_witnesses_set=VLazy("tws", "TransactionWitnessSet"), transaction_has_set_tags=VBool(z3.Bool("tags"))), "self"),
                    R(VLazy("w", "Vkeywitness" if touched == "vkeys" else "BootstrapWitness"))]
        for o in E.explore("FixedTxWitnessesSet::" + name, mk):
            if o.kind != "return":
                ob.vc("no panic (%s %s)" % (o.kind, o.msg), o.pc, z3.BoolVal(False)); continue
            E.enter(o)
            st = VM.deref(E, o.args[0])
            rp = st.fields[P.struct_fields["FixedTxWitnessesSet"].index("raw_parts")]
            for n in RAW:
                v = rp.fields[RAW.index(n)]
                if n == touched:
                    if v.variant != "None":
                        ob.violation("%s keeps the stale original bytes of %s" % (name, n))
                elif v.variant != "Some":
                    ob.violation("%s drops the original bytes of the untouched field %s" % (name, n))
                else:
                    ob.vc("%s keeps the original bytes of %s" % (name, n), o.pc, E.as_u(v.fields[0]) == z3.Const("raw_" + n, E.U))
    ob.finish(E)

    # ------------------------------------------------------------------ serializer writes the original bytes verbatim
    ob = Obligation(ctx, "c04_e2_fixed_transaction_serializer_verbatim", "auxiliary bytes present / absent", ["<FixedTransaction as Serialize>::serialize"], fallback_native="e2n_c04_fixed_tx")
    for has_aux in (False, True):
        E = Engine(P)
        CM.install(E, target="FixedTransaction")
        H, D, Daux = install(E)
        for o in E.explore("<protocol_types::fixed_tx::FixedTransaction as cbor_event::se::Serialize>::serialize", lambda: [R(state(E, H, D, Daux, has_aux), "self"), R(CM.VSer(), "ser")]):
            if o.kind != "return" or o.value.variant != "Ok":
                ob.vc("serializer fails (%s %s)" % (o.kind, o.msg), o.pc, z3.BoolVal(False)); continue
            toks = VM.deref(E, o.args[1]).tokens
            shape = [t[0] for t in toks]
            if shape != ["array", "raw", "item", "special", "raw" if has_aux else "special"] or toks[0][1] != 4:
                ob.violation("FixedTransaction is not written as [raw body bytes, witness set, bool, raw auxiliary bytes | null]: %s" % shape); continue
            ob.vc("body is written as the original body bytes", o.pc, toks[1][1] == z3.Const("body_bytes0", E.U))
            if has_aux:
                ob.vc("auxiliary data is written as the original bytes", o.pc, toks[4][1] == z3.Const("aux_bytes0", E.U))
            elif toks[4][1] != "Null":
                ob.violation("absent auxiliary data not written as null")
    ob.finish(E)

    # ------------------------------------------------------------------ datum constructors: the decoder consumes exactly its own item (definite and indefinite pair)
    from obl.c01 import generic_roundtrip
    ob, agg, covered, skipped = generic_roundtrip(ctx, ["ConstrPlutusData"], "c04_e2_constr_datum_codec", claim={"ConstrPlutusData"})
    if not covered:
        ob.fail("ConstrPlutusData codec could not be executed: %s" % skipped)
    ob.fallback_native = "e2n_c04_fixed_tx"
    ob.finish(agg)
    plutus_data_obligation(ctx)
    witness_raw_parts_obligation(ctx)


def plutus_data_obligation(ctx):
    """A Plutus datum decoded from bytes re-encodes to exactly those bytes: PlutusData::deserialize captures the byte range
    of the item it has just read and the serializer writes that range verbatim.  Token level (positions are token indices):
    for the datum at the start of the input and behind a prefix, followed or not by more input."""
    P = ctx.P
    ob = Obligation(ctx, "c04_e2_plutus_datum_original_bytes", "datum item at stream position 0 / 1 / 2, with and without trailing tokens; the nested datum decoder accepts an item spanning 1..3 tokens",
                    ["<PlutusData as Deserialize>::deserialize", "<PlutusData as Serialize>::serialize"], fallback_native="e2n_c04_fixed_tx")
    agg = Engine(P)
    U = agg.U
    names = P.struct_fields["PlutusData"]
    nok = 0
    for before in (0, 1, 2):
        for span in (1, 2, 3):
            for trailing in (0, 2):
                E = Engine(P, max_loop=8)
                CM.install(E, target="PlutusData")
                E.U = U
                # the nested decoder of the datum structure: consumes `span` tokens and returns some datum
                def nested(E_, c, args, span=span):
                    d = VM.deref(E_, args[0])
                    if not isinstance(d, CM.VDe):
                        return NotImplemented
                    d.pos += span
                    return VEnum("Result", "Ok", [VLazy("datum_structure", "PlutusDataEnum")])
                E.extra_intrinsics[r"PlutusDataEnum as (?:[\w:]*::)?Deserialize>::deserialize"] = nested
                toks = [("uint", z3.IntVal(k)) for k in range(before + span + trailing)]
                def mk(toks=toks, before=before):
                    de = CM.VDe(list(toks))
                    de.pos = before
                    de.entered = True
                    return [R(de, "raw")]
                # first-match wins in the intrinsic table: the specific stub has to be tried before the generic nested-decoder model
                E.extra_intrinsics = dict([(k, v) for k, v in E.extra_intrinsics.items() if "PlutusDataEnum" in k] + [(k, v) for k, v in E.extra_intrinsics.items() if "PlutusDataEnum" not in k])
                for o in E.explore("<PlutusData as Deserialize>::deserialize", mk, max_paths=20):
                    what = "datum at token %d spanning %d, %d trailing" % (before, span, trailing)
                    if o.kind != "return":
                        ob.vc("%s: no panic (%s %s)" % (what, o.kind, o.msg[:80]), o.pc, z3.BoolVal(False)); continue
                    if o.value.variant != "Ok":
                        ob.violation("%s: decoding fails although the nested decoder accepted" % what); continue
                    nok += 1
                    E.enter(o)
                    de = VM.deref(E, o.args[0])
                    if de.pos != before + span:
                        ob.violation("%s: the reader is left at token %d, expected %d (the datum must consume exactly its own item)" % (what, de.pos, before + span)); continue
                    val = o.value.fields[0]
                    ob_ = val.fields[names.index("original_bytes")]
                    if not (isinstance(ob_, VEnum) and ob_.variant == "Some"):
                        ob.violation("%s: no original bytes are kept" % what); continue
                    kept = E.as_u(ob_.fields[0])
                    fills = [t for t in o.trace if t[0] == "fill_buf"]
                    slices = [t for t in o.trace if t[0] == "prefix_slice"]
                    if len(fills) != 1 or len(slices) != 1:
                        ob.fail("%s: expected one fill_buf and one prefix slice, saw %d / %d" % (what, len(fills), len(slices))); continue
                    if fills[0][1] != before:
                        ob.violation("%s: the buffer is read from token %d, the datum started at %d" % (what, fills[0][1], before))
                    ob.vc("%s: the kept bytes are the first (end - start) bytes of the buffer at the datum's start" % what, o.pc,
                          z3.And(slices[0][1] == fills[0][2], slices[0][2] == span, kept == slices[0][3]))
                    # re-encode
                    S = Engine(P, max_loop=4)
                    CM.install(S, target="PlutusData")
                    S.U = U
                    S.base = list(o.pc)
                    def mk2(val=val, S=S, o=o):
                        S.lazy_ident.update(o.idents)
                        return [R(clone(val), "self"), R(CM.VSer(), "ser")]
                    routs = [r for r in S.explore("<PlutusData as cbor_event::se::Serialize>::serialize", mk2, max_paths=10) if r.kind == "return" and r.value.variant == "Ok"]
                    if len(routs) != 1:
                        ob.violation("%s: the decoded datum does not re-encode deterministically" % what); continue
                    S.enter(routs[0])
                    out = VM.deref(S, routs[0].args[1]).tokens
                    if len(out) != 1 or out[0][0] != "raw":
                        ob.violation("%s: the decoded datum is re-encoded structurally (%s) instead of from its original bytes" % (what, [t[0] for t in out])); continue
                    ob.vc("%s: the bytes written are the bytes kept" % what, routs[0].pc, out[0][1] == kept)
                    agg.stats["paths"] += S.stats["paths"]; agg.stats["functions"] |= S.stats["functions"]
                agg.stats["paths"] += E.stats["paths"]; agg.stats["feasibility_queries"] += E.stats["feasibility_queries"]; agg.stats["functions"] |= E.stats["functions"]
    if nok < 18:
        ob.fail("only %d of 18 decode scenarios reached Ok" % nok)
    ob.finish(agg)


WS_KEYS = {0: "vkeys", 1: "native_scripts", 2: "bootstraps", 3: "plutus_scripts_v1", 4: "plutus_data", 5: "redeemers", 6: "plutus_scripts_v2", 7: "plutus_scripts_v3"}


def witness_raw_parts_obligation(ctx):
    """Every witness-set field keeps its own original bytes: the byte-preserving decoder files the bytes captured for key k
    under the raw part of key k (and nowhere else), and the serializer writes the raw part of key k under key k.
    Token level; the capture helper returns an identity that is a function of the item it consumed."""
    import itertools
    P = ctx.P
    ob = Obligation(ctx, "c04_e2_witness_set_raw_parts_keyed", "key subsets: each of the 8 keys alone, adjacent pairs, all 8; definite and indefinite map",
                    ["serialization::witnesses::transaction_witnesses_set::deserialize", "serialization::witnesses::transaction_witnesses_set::serialize"], fallback_native="e2n_c04_fixed_tx")
    agg = Engine(P)
    U = agg.U
    orig_of = z3.Function("orig_bytes_of_item", U, U)
    rnames = P.struct_fields["TransactionWitnessSetRaw"]
    keys = sorted(WS_KEYS)
    subsets = [[k] for k in keys] + [[a, b] for a, b in zip(keys, keys[1:])] + [keys]
    ndec = 0
    for sub in subsets:
        for indef in (False, True):
            E = Engine(P, max_loop=len(sub) + 4)
            CM.install(E, target="TransactionWitnessSet")
            E.U = U
            def dwob(E_, c, args):
                d = VM.deref(E_, args[0])
                tok = d.tokens[d.pos] if d.pos < len(d.tokens) else None
                r = E_.force_arg(E_.call_value(args[1], [args[0]]))
                if r.variant != "Ok":
                    return r
                ident = tok[1] if tok is not None and tok[0] == "item" else z3.FreshConst(U, "noitem")
                return VEnum("Result", "Ok", [VStruct("()", [r.fields[0], VOpaque("orig", [], orig_of(ident))])])
            E.extra_intrinsics[r"deserilized_with_orig_bytes"] = dwob
            E.extra_intrinsics[r"(^|::)merge_option_plutus_list$"] = lambda E_, c, a: (a[0] if VM.deref(E_, a[1]).variant != "Some" else a[1])
            items = {k: z3.Const("ws_item_%d" % k, U) for k in sub}
            toks = [("map", None if indef else len(sub))]
            for k in sub:
                toks += [("uint", z3.IntVal(k)), ("item", items[k], "?")]
            if indef:
                toks.append(("special", "Break", None))
            for o in E.explore("serialization::witnesses::transaction_witnesses_set::deserialize", lambda toks=toks: [R(CM.VDe(list(toks)), "raw"), VBool(True)], max_paths=60):
                what = "decode keys %s (%s)" % (sub, "indefinite" if indef else "definite")
                if o.kind != "return":
                    ob.vc("%s: no panic (%s %s)" % (what, o.kind, o.msg[:80]), o.pc, z3.BoolVal(False)); continue
                if o.value.variant != "Ok":
                    ob.violation("%s: a well-formed witness set is refused" % what); continue
                ndec += 1
                E.enter(o)
                rawp = VM.deref(E, o.value.fields[0].fields[1])
                for k, fname in WS_KEYS.items():
                    f = VM.deref(E, rawp.fields[rnames.index(fname)])
                    if k in sub:
                        if not (isinstance(f, VEnum) and f.variant == "Some"):
                            ob.violation("%s: the original bytes of key %d are not kept in raw part %s" % (what, k, fname)); continue
                        ob.vc("%s: raw part %s holds the bytes captured for key %d" % (what, fname, k), o.pc, E.as_u(f.fields[0]) == orig_of(items[k]))
                    elif isinstance(f, VEnum) and f.variant == "Some":
                        ob.violation("%s: raw part %s is filled although key %d is absent" % (what, fname, k))
            agg.stats["paths"] += E.stats["paths"]; agg.stats["feasibility_queries"] += E.stats["feasibility_queries"]; agg.stats["functions"] |= E.stats["functions"]
    if ndec < len(subsets) * 2:
        ob.fail("only %d of %d decode scenarios reached Ok" % (ndec, len(subsets) * 2))
    # ---- serializer: raw part k is written under key k
    S = Engine(P, max_loop=12)
    CM.install(S, target="TransactionWitnessSet")
    S.U = U
    S.extra_intrinsics[r"PlutusScripts::has_version$"] = lambda E_, c, a: VBool(True)
    raws = {k: z3.Const("raw_part_%d" % k, U) for k in keys}
    def mk():
        none_or = {}
        ws = S.mk_struct("TransactionWitnessSet", **{f: VEnum("Option", "Some", [VLazy("field_" + f, t)]) for f, t in
                         (("vkeys", "Vkeywitnesses"), ("native_scripts", "NativeScripts"), ("bootstraps", "BootstrapWitnesses"), ("plutus_scripts", "PlutusScripts"), ("plutus_data", "PlutusList"), ("redeemers", "Redeemers"))})
        rp = S.mk_struct("TransactionWitnessSetRaw", **{WS_KEYS[k]: VEnum("Option", "Some", [VOpaque("raw", [], raws[k])]) for k in keys})
        return [R(ws, "wit_set"), VEnum("Option", "Some", [R(rp, "raw_parts")]), R(CM.VSer(), "ser")]
    nser = 0
    for o in S.explore("serialization::witnesses::transaction_witnesses_set::serialize", mk, max_paths=60):
        if o.kind != "return" or o.value.variant != "Ok":
            ob.vc("serializer with all raw parts present returns Ok (%s %s)" % (o.kind, o.msg[:80]), o.pc, z3.BoolVal(False)); continue
        nser += 1
        S.enter(o)
        toks = VM.deref(S, o.args[2]).tokens
        ent = CM.map_entries(toks)
        if ent is None or CM.item_end(toks, 0) != len(toks):
            ob.violation("serializer with raw parts: emitted map is malformed"); continue
        seen = {}
        for (ktok, vs, ve) in ent:
            k = S.concretize(ktok[1]) if ktok[0] == "uint" else None
            vt = toks[vs]
            if k not in WS_KEYS:
                ob.violation("serializer writes unknown key %s" % k); continue
            if vt[0] != "raw":
                ob.violation("serializer: key %d is re-encoded structurally although its original bytes are kept" % k); continue
            seen[k] = True
            ob.vc("serializer: key %d carries the raw part %s" % (k, WS_KEYS[k]), o.pc, vt[1] == raws[k])
        if sorted(seen) != keys:
            ob.violation("serializer with all raw parts present writes keys %s" % sorted(seen))
    if nser == 0:
        ob.fail("serializer: no Ok path")
    agg.stats["paths"] += S.stats["paths"]; agg.stats["functions"] |= S.stats["functions"]
    ob.finish(agg)
