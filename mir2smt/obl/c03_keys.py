"""C03: map keys of the transaction body and the witness set against the Conway CDDL key tables (the tables of obl/c01.py,
written from the CDDL, not from the library): whatever combination of fields is present, the map declares exactly the entries
written and every present field sits under its CDDL key exactly once.  Shared machinery with C01's keyed-struct obligations
(which additionally decode the emitted tokens again); listed under C03 because a key exchanged in encoder AND decoder survives
every round trip and only a table from outside the library sees it."""
import obl.c01 as c01


def obligations(ctx):
    ob, agg = c01.check_keyed_struct(ctx, "c03_e2_transaction_body_keys_vs_cddl", "TransactionBody", c01.BODY,
                                     "<protocol_types::transaction_body::TransactionBody as cbor_event::se::Serialize>::serialize",
                                     "<protocol_types::transaction_body::TransactionBody as Deserialize>::deserialize", c01.presence_combos(c01.BODY, ctx.tier))
    ob.finish(agg)
    ob, agg = c01.check_keyed_struct(ctx, "c03_e2_witness_set_keys_vs_cddl", "TransactionWitnessSet", c01.WITNESS_SET,
                                     "<protocol_types::witnesses::transaction_witnesses_set::TransactionWitnessSet as cbor_event::se::Serialize>::serialize",
                                     "<protocol_types::witnesses::transaction_witnesses_set::TransactionWitnessSet as Deserialize>::deserialize",
                                     c01.presence_combos(c01.WITNESS_SET, "thorough"), c01.witness_setup, skip_roundtrip=("plutus_scripts",),
                                     note="Plutus scripts (keys 3/6/7 by language) are only checked for presence.")
    ob.finish(agg, lambda m, info=None: ("e2n_c01_struct_roundtrip", []))
