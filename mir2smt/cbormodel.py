"""Token-level model of cbor_event's Serializer / Deserializer for struct-level (de)serializer obligations (C01, C03).

The serializer is an append-only list of CBOR tokens; a nested value whose type is not under test is ONE opaque,
well-formed item carrying the value's identity.  The deserializer consumes the same token list.  What is decided on the
real (de)serializer MIR: map/array lengths equal the number of entries written on every presence combination explored,
keys/indices/tags are those of the CDDL table given by the obligation, and decoding the emitted tokens rebuilds a value
whose fields are the original ones."""
import re
import z3
from engine import (V, VInt, VBool, VStruct, VEnum, VRef, VLazy, VOpaque, VSeq, UNIT, Cell, clone, Unsupported, PathAbort, last_seg, ENUM_STD)
import engine as _eng

ENUM_STD.setdefault("Len", ["Indefinite", "Len"])
ENUM_STD.setdefault("Special", ["Bool", "Null", "Undefined", "Unassigned", "Float", "Break"])
CBOR_TYPES = ["UnsignedInteger", "NegativeInteger", "Bytes", "Text", "Array", "Map", "Tag", "Special"]
ENUM_STD.setdefault("Type", CBOR_TYPES)


class VSer(V):
    """serializer state (shared, mutable): list of tokens"""
    def __init__(self):
        self.tokens = []
    def __repr__(self): return "Ser(%d tokens)" % len(self.tokens)


class VDe(V):
    def __init__(self, tokens):
        self.tokens, self.pos = list(tokens), 0
    def __repr__(self): return "De(@%d/%d)" % (self.pos, len(self.tokens))


def deref(E, v):
    while isinstance(v, VRef):
        v = E.read_ref(v)
    return v


def ok(v): return VEnum("Result", "Ok", [v])
def err(t): return VEnum("Result", "Err", [VOpaque("cbor_error:" + t)])


def len_of(E, l):
    l = deref(E, l)
    if l.variant == "Indefinite":
        return None
    t = l.fields[0].t
    for _ in range(64):
        n = E.concretize(t)
        if n is not None:
            return n
        # several lengths are possible under the path condition: fork on them, smallest model value first
        E.solver.push()
        try:
            for c in E.pc:
                E.solver.add(c)
            if E.solver.check() != z3.sat:
                raise PathAbort("infeasible", "length")
            v = E.solver.model().eval(t, model_completion=True)
        finally:
            E.solver.pop()
        if E.choose([t == v, t != v], "container length") == 0:
            return v.as_long()
    raise Unsupported("symbolic container length with too many values")


def install(E, inline_types=(), target=None, adversarial=False):
    inline = set(inline_types) | {"BigNum", "u64", "u32", "u8", "bool", "i32", "usize"}
    if target:
        inline.add(target)

    # emptiness of an opaque collection is one uninterpreted fact about it
    def none_or_empty(E_, c, args):
        v = deref(E_, args[0])
        if isinstance(v, VLazy) and last_seg(v.ty) != "Option":
            ln = z3.Function("container_len", E_.U, z3.IntSort())(E_.as_u(v))
            E_.pc.append(ln >= 0)
            return VBool(ln == 0)
        return NotImplemented
    E.extra_intrinsics[r"NoneOrEmpty>::is_none_or_empty$"] = none_or_empty

    # ------------------------------------------------ serializer
    def ser_write(E_, c, args):
        meth = re.sub(r"::<.*$", "", c[c.index(">::write_") + 3:]) if ">::write_" in c else c.split("::")[-1]
        s = deref(E_, args[0])
        if not isinstance(s, VSer):
            return NotImplemented
        if meth in ("write_map", "write_array"):
            s.tokens.append(("map" if meth == "write_map" else "array", len_of(E_, args[1])))
        elif meth == "write_unsigned_integer":
            s.tokens.append(("uint", z3.simplify(deref(E_, args[1]).t)))
        elif meth == "write_negative_integer":
            # cbor_event: argument (-value - 1) as u64 in i64 arithmetic (overflow-checked in the dev profile); the item denotes -1 - argument
            v = deref(E_, args[1]).t
            if E_.choose([v > -(1 << 63), v == -(1 << 63)], "negate i64") == 1:
                raise PathAbort("panic", "attempt to negate with overflow (cbor_event write_negative_integer)")
            u = (-v - 1) % (1 << 64)
            s.tokens.append(("nint", z3.simplify(-1 - u), None))
        elif meth == "write_negative_integer_sz":
            # cbor_event: (-value - 1).try_into::<u64>() or Err(InvalidNint); written with the GIVEN width
            v = deref(E_, args[1]).t
            u = -v - 1
            if E_.choose([z3.And(u >= 0, u < (1 << 64)), z3.Or(u < 0, u >= (1 << 64))], "nint range") == 1:
                return err("InvalidNint")
            sz = args[2]
            s.tokens.append(("nint", v, sz.variant if isinstance(sz, VEnum) else repr(sz)))
        elif meth in ("write_bytes", "write_raw_bytes", "write_text"):
            s.tokens.append(({"write_bytes": "bytes", "write_text": "text", "write_raw_bytes": "raw"}[meth], E_.as_u(args[1])))
        elif meth == "write_tag":
            tv = deref(E_, args[1])
            t = E_.concretize(tv.t)
            s.tokens.append(("tag", t if t is not None else tv.t))
        elif meth == "write_special":
            sp = deref(E_, args[1])
            s.tokens.append(("special", sp.variant, sp.fields[0].t if sp.fields else None))
        else:
            raise Unsupported("serializer method " + meth)
        return ok(args[0])
    E.extra_intrinsics[r"cbor_event::se::Serializer::<.*?>::write_\w+(::<.*>)?$"] = ser_write

    def write_bounded(E_, c, args):
        s_ = deref(E_, args[0])
        if not isinstance(s_, VSer):
            return NotImplemented
        s_.tokens.append(("bytes", E_.as_u(args[1])))
        return ok(args[0])
    E.extra_intrinsics[r"(^|::)write_bounded_bytes::<.*>$"] = write_bounded

    # ------------------------------------------------ CBOR nested in a byte string (cbor!(x) written with write_bytes, read back through a Cursor)
    def nested_table(E_):
        return E_.__dict__.setdefault("nested_cbor", {})

    def new_vec(E_, c, args):
        return VSer()
    E.extra_intrinsics[r"cbor_event::se::Serializer::<std::vec::Vec<u8>>::new_vec$"] = new_vec

    def finalize(E_, c, args):
        s_ = deref(E_, args[0])
        if not isinstance(s_, VSer):
            return NotImplemented
        o = VOpaque("cbor_bytes", [], z3.FreshConst(E_.U, "cbor_bytes"))
        nested_table(E_)[str(o.t)] = list(s_.tokens)
        return o
    E.extra_intrinsics[r"cbor_event::se::Serializer::<std::vec::Vec<u8>>::finalize$"] = finalize

    def generic_serialize(E_, c, args):
        s_ = deref(E_, args[0])
        if not isinstance(s_, VSer):
            return NotImplemented
        v = deref(E_, args[1])
        if isinstance(v, VInt):
            s_.tokens.append(("uint", v.t))
            return ok(args[0])
        return NotImplemented
    E.extra_intrinsics[r"cbor_event::se::Serializer::<.*>::serialize::<&?(u8|u16|u32|u64)>$"] = generic_serialize

    def generic_serialize_crate_type(E_, c, args):
        # Serializer::serialize::<T>(&mut self, &T) is `T::serialize(value, self)`: dispatch to the crate type's own impl
        m_ = re.search(r"::serialize::<&?([\w:]+)>$", c)
        s_ = deref(E_, args[0])
        if not m_ or not isinstance(s_, VSer) or len(args) < 2:
            return NotImplemented
        ty_ = last_seg(m_.group(1))
        if ty_ in _eng.INT_TYPES:
            return NotImplemented
        return E_.call("<%s as cbor_event::se::Serialize>::serialize" % ty_, [args[1], args[0]])
    E.extra_intrinsics[r"cbor_event::se::Serializer::<.*>::serialize::<&?[\w:]+>$"] = generic_serialize_crate_type

    def cursor_new(E_, c, args):
        return VStruct("Cursor", [args[0]])
    E.extra_intrinsics[r"^std::io::Cursor::<std::vec::Vec<u8>>::new$"] = cursor_new

    def de_from_cursor(E_, c, args):
        cur = deref(E_, args[0])
        if not (isinstance(cur, VStruct) and cur.name == "Cursor"):
            return NotImplemented
        b = deref(E_, cur.fields[0])
        toks = nested_table(E_).get(str(E_.as_u(b)))
        if toks is None:
            raise Unsupported("nested CBOR of unknown bytes")
        return VDe(list(toks))
    E.extra_intrinsics[r"^<cbor_event::de::Deserializer<std::io::Cursor<std::vec::Vec<u8>>> as From<std::io::Cursor<std::vec::Vec<u8>>>>::from$"] = de_from_cursor

    def sz_canonical(E_, c, args):
        v = args[0].t
        i = E_.choose([v <= 23, z3.And(v > 23, v < 0x100), z3.And(v >= 0x100, v < 0x10000), z3.And(v >= 0x10000, v < (1 << 32)), v >= (1 << 32)], "Sz::canonical")
        return VEnum("Sz", ["Inline", "One", "Two", "Four", "Eight"][i], [])
    E.extra_intrinsics[r"(^|::)Sz::canonical$"] = sz_canonical

    def nested_serialize(E_, c, args):
        m = re.match(r"^<(.*) as (?:cbor_event::)?(?:se::)?Serialize>::serialize", c)
        if not m or len(args) < 2:
            return NotImplemented
        s = deref(E_, args[1])
        if not isinstance(s, VSer):
            return NotImplemented
        ty = last_seg(m.group(1))
        val = deref(E_, args[0])
        if isinstance(val, VInt):
            s.tokens.append(("uint", val.t) if not _eng.INT_TYPES[val.ty][0] else ("int", val.t))
            return ok(args[1])
        if isinstance(val, VBool):
            s.tokens.append(("special", "Bool", val.t))
            return ok(args[1])
        if ty == target and not s.tokens and not getattr(s, "entered", False):
            s.entered = True            # the value under test: execute its serializer (nested values of the same type stay opaque)
            return NotImplemented
        if ty in inline and ty != target and not (isinstance(val, VLazy) and ty not in ("BigNum",)):
            return NotImplemented
        if ty in inline and ty != target and isinstance(val, VLazy) and ty == "BigNum":
            return NotImplemented
        # opt-in (E.item_carries_value): the opaque item remembers the value object itself, so that a decoder hands back the very
        # value (with whatever was already unfolded of it) and not only its identity
        s.tokens.append(("item", E_.as_u(val), ty) + ((_eng.clone(val),) if getattr(E_, "item_carries_value", False) else ()))
        return ok(args[1])
    E.extra_intrinsics[r" as (cbor_event::)?(se::)?Serialize>::serialize"] = nested_serialize

    # a value serialized to its own byte string and embedded (tag 24 forms): opaque bytes that remember the value
    def inner_to_bytes(E_, c, args):
        v = deref(E_, args[0])
        u = z3.Function("to_bytes_of", E_.U, E_.U)(E_.as_u(v))
        E_.__dict__.setdefault("embedded", {})[str(u)] = (v, u)
        return VOpaque("bytes", [], u)
    E.extra_intrinsics[r"(^|::)(utils::)?to_bytes(::<.*>)?$"] = lambda E_, c, a: inner_to_bytes(E_, c, a) if isinstance(deref(E_, a[0]), (VLazy, VOpaque, VStruct, VEnum)) else NotImplemented
    def inner_from_bytes(E_, c, args):
        b = deref(E_, args[0])
        m_ = re.search(r"from_bytes::<(.*)>$", c)
        ty_ = last_seg(m_.group(1)) if m_ else "?"
        u = E_.as_u(b)
        lz = VLazy("embedded_%d" % len(E_.lazy_ident), ty_)
        # from_bytes(to_bytes(v)) == v : identity of the embedded value
        E_.lazy_ident[lz.path] = z3.Function("from_bytes_of", E_.U, E_.U)(u)
        E_.pc.append(z3.ForAll([z3.Const("x", E_.U)], z3.Function("from_bytes_of", E_.U, E_.U)(z3.Function("to_bytes_of", E_.U, E_.U)(z3.Const("x", E_.U))) == z3.Const("x", E_.U)))
        return ok(lz)
    E.extra_intrinsics[r"(^|::)(utils::)?from_bytes::<.*>$"] = inner_from_bytes

    # ------------------------------------------------ deserializer
    def peek(d):
        return d.tokens[d.pos] if d.pos < len(d.tokens) else None

    def first_kind(ty):
        """CBOR major type an opaque value of Rust type ty starts with: found by running its own serializer once"""
        cache = E.P.__dict__.setdefault("first_tok_cache", {})
        if ty in cache:
            return cache[ty]
        cache[ty] = None
        try:
            S = _eng.Engine(E.P, max_loop=4)
            install(S, target=ty)
            kinds = set()
            for o in S.explore("<%s as cbor_event::se::Serialize>::serialize" % ty, lambda: [VRef(Cell(VLazy("probe", ty))), VRef(Cell(VSer()))], max_paths=40):
                if o.kind == "return" and o.value.variant == "Ok":
                    t = deref(S, o.args[1]).tokens
                    if t:
                        kinds.add(t[0][0] if t[0][0] != "item" else first_kind(t[0][2]))
            if len(kinds) == 1:
                cache[ty] = kinds.pop()
        except Exception:
            pass
        return cache[ty]

    def cbor_type_of(tok):
        k = tok[0]
        if k == "broken":
            k = tok[1]
        if k == "item":
            fk = first_kind(tok[2]) if len(tok) > 2 else None
            if fk in ("uint", "int", "nint", "bytes", "text", "array", "map", "tag", "special"):
                k = fk
        return {"uint": "UnsignedInteger", "int": "UnsignedInteger", "nint": "NegativeInteger", "bytes": "Bytes", "text": "Text", "array": "Array", "map": "Map",
                "tag": "Tag", "special": "Special", "item": "Array", "raw": "Array"}[k]

    def de_call(E_, c, args):
        meth = re.sub(r"::<.*$", "", c.split("::")[-1]) if not c.endswith(">") else c.split("::")[-1]
        d = deref(E_, args[0])
        if not isinstance(d, VDe):
            return NotImplemented
        tok = peek(d)
        if meth == "as_mut_ref":
            return args[0]          # the reader under the token model is the token cursor itself
        mg = re.search(r"::deserialize::<(u8|u16|u32|u64)>$", c)
        if mg:
            if tok is not None and tok[0] == "uint":
                d.pos += 1
                rng_ = (1 << {"u8": 8, "u16": 16, "u32": 32, "u64": 64}[mg.group(1)])
                if E_.choose([tok[1] < rng_, tok[1] >= rng_], "integer fits") == 1:
                    return err("integer out of range")
                return ok(VInt(tok[1], mg.group(1)))
            return err("expected unsigned integer")
        if meth == "cbor_type":
            return ok(VEnum("Type", cbor_type_of(tok), [])) if tok is not None else err("eof")
        if tok is None:
            return err("eof")
        if tok[0] == "broken":
            return err("item of kind %s is truncated or malformed" % tok[1])
        def take(kind):
            if tok[0] != kind:
                return None
            d.pos += 1
            return tok
        if meth in ("map", "array"):
            t = take(meth)
            if t is None:
                return err("expected " + meth)
            return ok(VEnum("Len", "Indefinite", []) if t[1] is None else VEnum("Len", "Len", [VInt(t[1], "u64")]))
        if meth == "unsigned_integer":
            t = take("uint")
            return ok(VInt(t[1], "u64")) if t else err("expected uint")
        if meth == "negative_integer":
            t = take("nint")
            return ok(VInt(t[1], "i64")) if t else err("expected nint")
        if meth == "tag":
            t = take("tag")
            return ok(VInt(t[1], "u64")) if t else err("expected tag")
        if meth in ("bytes", "text"):
            t = take(meth)
            return ok(VOpaque(meth, [], t[1])) if t else err("expected " + meth)
        if meth == "special":
            t = take("special")
            if not t:
                return err("expected special")
            return ok(VEnum("Special", t[1], [VBool(t[2])] if t[2] is not None else []))
        if meth == "bool":
            t = take("special")
            return ok(VBool(t[2])) if t and t[1] == "Bool" else err("expected bool")
        raise Unsupported("deserializer method " + meth)
    E.extra_intrinsics[r"cbor_event::de::Deserializer::<.*>::\w+$"] = de_call
    E.extra_intrinsics[r"cbor_event::de::Deserializer::<.*>::deserialize::<(u8|u16|u32|u64)>$"] = de_call

    def blen(E_, u):
        n = z3.Function("container_len", E_.U, z3.IntSort())(u)
        E_.pc.append(n >= 0)
        return n

    def bytes_index(E_, c, args):
        v = deref(E_, args[0])
        if not isinstance(v, (VOpaque, VLazy)):
            return NotImplemented
        rg = args[1]
        end = rg.fields[0] if isinstance(rg, VStruct) and rg.fields else None
        if end is None or not isinstance(end, VInt):
            return NotImplemented
        n = blen(E_, E_.as_u(v))
        if E_.choose([end.t <= n, end.t > n], "slice end") == 1:
            raise PathAbort("panic", "range end index out of range for slice")
        sl = VOpaque("slice", [], z3.FreshConst(E_.U, "slice"))
        E_.pc.append(z3.Function("container_len", E_.U, z3.IntSort())(sl.t) == end.t)
        E_.trace.append(("prefix_slice", E_.as_u(v), end.t, sl.t))
        return VRef(Cell(sl, "slice"))
    E.extra_intrinsics[r"^<(std::vec::Vec<u8>|\[u8\]) as (std::ops::)?Index<(std::ops::)?RangeTo<usize>>>::index$"] = bytes_index

    def bytes_at(E_, c, args):
        v = deref(E_, args[0])
        if not isinstance(v, (VOpaque, VLazy)) or not isinstance(args[1], VInt):
            return NotImplemented
        n = blen(E_, E_.as_u(v))
        if E_.choose([args[1].t < n, args[1].t >= n], "byte index") == 1:
            raise PathAbort("panic", "index out of bounds")
        x = z3.FreshConst(z3.IntSort(), "byte")
        E_.pc.append(z3.And(x >= 0, x < 256))
        return VRef(Cell(VInt(x, "u8"), "byte"))
    E.extra_intrinsics[r"^<(std::vec::Vec<u8>|\[u8\]) as (std::ops::)?Index<usize>>::index$"] = bytes_at

    def fill_buf(E_, c, args):
        """BufRead::fill_buf on the token cursor: the unread remainder; its length in the cursor's unit (tokens), consistent with seek positions"""
        d = deref(E_, args[0])
        if not isinstance(d, VDe):
            return NotImplemented
        sl = VOpaque("slice", [], z3.FreshConst(E_.U, "remainder"))
        E_.pc.append(z3.Function("container_len", E_.U, z3.IntSort())(sl.t) == len(d.tokens) - d.pos)
        E_.trace.append(("fill_buf", d.pos, sl.t))
        return ok(VRef(Cell(sl, "remainder")))
    E.extra_intrinsics[r"^<\w+ as (std::io::)?BufRead>::fill_buf$"] = fill_buf
    E.extra_intrinsics[r"^std::slice::<impl \[u8\]>::to_vec$"] = lambda E_, c, args: clone(deref(E_, args[0])) if isinstance(deref(E_, args[0]), VOpaque) else NotImplemented

    def read_nint(E_, c, args):
        d = deref(E_, args[0])
        if not isinstance(d, VDe):
            return NotImplemented
        tok = peek(d)
        if tok is None or tok[0] != "nint":
            return err("expected negative integer")
        d.pos += 1
        return ok(VInt(tok[1], "i128"))
    E.extra_intrinsics[r"(^|::)read_nint::<.*>$"] = read_nint

    def read_bounded_bytes(E_, c, args):
        """definite or chunked byte string with the 64-byte chunk bound: byte-level helper, here: a bytes token is accepted or refused"""
        d = deref(E_, args[0])
        if not isinstance(d, VDe):
            return NotImplemented
        tok = peek(d)
        if tok is None or tok[0] != "bytes":
            return err("expected bytes")
        b = z3.FreshConst(z3.BoolSort(), "within_bound")
        if E_.choose([b, z3.Not(b)], "bounded bytes verdict", trust=True) == 1:
            return err("bounded bytes violation")
        d.pos += 1
        return ok(VOpaque("bytes", [], tok[1]))
    if adversarial:
        E.extra_intrinsics[r"(^|::)read_bounded_bytes::<.*>$"] = read_bounded_bytes

    def consume(E_, c, args):
        d = deref(E_, args[0])
        if not isinstance(d, VDe):
            return NotImplemented
        n = E_.concretize(args[1].t)
        if n is None:
            raise Unsupported("symbolic consume")
        d.pos += n
        return UNIT
    E.extra_intrinsics[r"^<\w+ as (std::io::)?BufRead>::consume$"] = consume
    E.extra_intrinsics[r"(^|::)PlutusMap::add_value_move$"] = lambda E_, c, args: UNIT       # LinkedHashMap entry insertion: returns, contents irrelevant to totality

    def bytes_try_into(E_, c, args):
        v = deref(E_, args[0])
        m_ = re.search(r"\[u8; (\d+)\]", c)
        if not isinstance(v, (VOpaque, VLazy)) or not m_:
            return NotImplemented
        n = blen(E_, E_.as_u(v))
        if E_.choose([n == int(m_.group(1)), n != int(m_.group(1))], "slice to array") == 0:
            return ok(VOpaque("array", [], z3.FreshConst(E_.U, "array")))
        return VEnum("Result", "Err", [VOpaque("TryFromSliceError")])
    E.extra_intrinsics[r"^<&\[u8\] as (std::convert::)?TryInto<\[u8; \d+\]>>::try_into$"] = bytes_try_into
    E.extra_intrinsics[r"^<\[u8; \d+\] as (std::convert::)?TryFrom<&\[u8\]>>::try_from$"] = bytes_try_into
    E.extra_intrinsics[r"^<std::vec::Vec<u8> as (std::convert::)?AsRef<\[u8\]>>::as_ref$"] = lambda E_, c, args: args[0]
    E.extra_intrinsics[r"^std::vec::Vec::<u8>::as_slice$"] = lambda E_, c, args: args[0]

    if adversarial:
        def _addr_leaf(E_, c, args, okty):
            b = z3.FreshConst(z3.BoolSort(), "leaf_accepts")
            if E_.choose([b, z3.Not(b)], "leaf parser verdict", trust=True) == 0:
                src_ = deref(E_, args[0]) if args else None
                if isinstance(src_, (VOpaque, VLazy)):
                    E_.pc.append(blen(E_, E_.as_u(src_)) >= 1)      # contract of the address parser (E1: an empty address is rejected)
                return ok(E_._typed_result(okty, "addr_leaf_%d" % len(E_.lazy_ident), "addr_leaf", []))
            return VEnum("Result", "Err", [VOpaque("leaf_error")])

        def leaf_from_bytes(E_, c, args):
            """byte-level leaf parsers (addresses, keys, signatures): opaque, fail or succeed — decided at byte level by E1 where claimed"""
            d_ = E_.P.resolve(c)
            ret = E_.P.fns[d_].ret if d_ in E_.P.fns else "Result<?>"
            ty_ = last_seg(re.sub(r"::<.*$", "", re.sub(r"::\w+(::<.*>)?$", "", c)))
            if last_seg(ret) == "Result" and "<" in ret:
                from mirparse import split_top as _st, match_close as _mc
                k_ = ret.index("<")
                okty = _st(ret[k_ + 1:_mc(ret, k_)])[0].strip()
                if last_seg(okty) not in ("Self",):
                    return E_.typed_result(ret, "leaf@%d" % len(E_.trace), [E_.as_u(a) for a in args]) if not ("Address::from_bytes_impl" in c) else _addr_leaf(E_, c, args, okty)
            if not last_seg(ret) == "Result":
                return VLazy("leaf_%d" % len(E_.lazy_ident), last_seg(ret) if last_seg(ret) != "Self" else ty_)
            b = z3.FreshConst(z3.BoolSort(), "leaf_accepts")
            if E_.choose([b, z3.Not(b)], "leaf parser verdict", trust=True) == 0:
                if "Address::from_bytes_impl" in c and args:
                    src_ = deref(E_, args[0])
                    if isinstance(src_, VOpaque):
                        E_.pc.append(blen(E_, E_.as_u(src_)) >= 1)      # contract of the address parser (E1: an empty address is rejected)
                return ok(VLazy("leaf_%d" % len(E_.lazy_ident), ty_))
            return VEnum("Result", "Err", [VOpaque("leaf_error")])
        E.extra_intrinsics[r"(^|::)blake2b(256|224|160)$"] = lambda E_, c, a: VOpaque("hash", [], z3.Function("blake2b", E_.U, E_.U)(E_.as_u(a[0])))
        E.extra_intrinsics[r"(^|::)\w+::from_bytes$"] = leaf_from_bytes
        E.extra_intrinsics[r"(^|::)has_transaction_set_tag_internal$"] = leaf_from_bytes
        E.extra_intrinsics[r"(^|::)(Address::from_bytes_impl\w*|PublicKey::from_bytes|PublicKey::<.*>::from_binary|Ed25519Signature::from_bytes|Signature::<.*>::from_binary|KESSignature::from_bytes|VRFCert::from_bytes|Bip32PublicKey::from_bytes)$"] = leaf_from_bytes

    def seek(E_, c, args):
        """<R as Seek>::seek on the token cursor: positions are token indices (only Current(0) / Start(saved) occur)"""
        d = deref(E_, args[0])
        if not isinstance(d, VDe):
            return NotImplemented
        sf = args[1]
        vname = sf.variant if isinstance(sf, VEnum) else getattr(sf, "name", "")
        if vname.endswith("Current"):
            off = E_.concretize(sf.fields[0].t)
            if off is None:
                raise Unsupported("symbolic seek offset")
            d.pos += off
            return ok(VInt(d.pos, "u64"))
        if vname.endswith("Start"):
            p_ = E_.concretize(sf.fields[0].t)
            if p_ is None:
                raise Unsupported("symbolic seek position")
            d.pos = p_
            return ok(VInt(d.pos, "u64"))
        raise Unsupported("seek %r %s" % (sf, type(sf).__name__))
    E.extra_intrinsics[r"^<\w+ as (std::io::)?Seek>::seek$"] = seek

    def nested_deserialize(E_, c, args):
        if not args:
            return NotImplemented
        d = deref(E_, args[0])
        if not isinstance(d, VDe):
            return NotImplemented
        tok = peek(d)
        mn = re.match(r"^<(.*) as (?:[\w:]*::)?DeserializeNullable>::deserialize_nullable", c)
        if mn:
            tyn = last_seg(mn.group(1))
            if tok is not None and tok[0] == "special" and tok[1] == "Null":
                d.pos += 1
                return ok(VEnum("Option", "None", []))
            if tok is not None and tok[0] == "item":
                d.pos += 1
                if len(tok) > 3 and tok[2] == tyn:
                    return ok(VEnum("Option", "Some", [_eng.clone(tok[3])]))
                lz = VLazy("decoded_%d" % d.pos, tyn)
                E_.lazy_ident[lz.path] = tok[1]
                return ok(VEnum("Option", "Some", [lz]))
            if adversarial:
                end = item_end(d.tokens, d.pos) if tok is not None else None
                if end is None:
                    return err("nested decoder fails")
                b = z3.FreshConst(z3.BoolSort(), "nested_accepts")
                if E_.choose([b, z3.Not(b)], "nested decoder verdict", trust=True) == 0:
                    d.pos = end
                    lz = VLazy("decoded_%d" % d.pos, tyn)
                    E_.lazy_ident[lz.path] = z3.FreshConst(E_.U, "nested")
                    return ok(VEnum("Option", "Some", [lz]))
                return err("nested decoder fails")
            return NotImplemented
        m = re.match(r"^<(.*) as (?:[\w:]*::)?Deserialize>::deserialize", c) or re.match(r"^(.*)::deserialize(?:_with_version)?(?:::<.*>)?$", c)
        ty = last_seg(m.group(1)) if m else "?"
        mi = re.search(r"<impl ([^<>]+)>::deserialize", c)
        if mi:
            ty = last_seg(mi.group(1))
        if ty in _eng.INT_TYPES and tok is not None and tok[0] in ("uint", "int"):
            d.pos += 1
            return ok(VInt(tok[1], ty))
        if adversarial and ty in _eng.INT_TYPES:
            return err("expected integer")
        if ty == target and d.pos == 0 and not getattr(d, "entered", False):
            d.entered = True
            return NotImplemented
        if tok is not None and tok[0] == "item":
            d.pos += 1
            if len(tok) > 3 and tok[2] == ty:
                return ok(_eng.clone(tok[3]))
            lz = VLazy("decoded_%d" % d.pos, ty)
            E_.lazy_ident[lz.path] = tok[1]
            if tok[2] != ty:
                E_.trace.append(("type_confusion", tok[2], ty))
            return ok(lz)
        if adversarial:
            # an opaque nested decoder facing arbitrary tokens: it fails, or it accepts exactly one complete item (its own totality is a separate entry)
            end = item_end(d.tokens, d.pos) if tok is not None else None
            if end is None:
                return err("nested decoder fails")
            b = z3.FreshConst(z3.BoolSort(), "nested_accepts")
            if E_.choose([b, z3.Not(b)], "nested decoder verdict", trust=True) == 0:
                d.pos = end
                lz = VLazy("decoded_%d" % d.pos, ty)
                E_.lazy_ident[lz.path] = z3.FreshConst(E_.U, "nested")
                return ok(lz)
            return err("nested decoder fails")
        return NotImplemented
    E.extra_intrinsics[r"(as (?:[\w:]*::)?Deserialize>::deserialize|::deserialize(_with_version)?(::<.*>)?$|::deserialize_nullable)"] = nested_deserialize


# ---------------------------------------------------------------- token-level well-formedness
def item_end(tokens, pos):
    """index after the complete item starting at pos, or None"""
    if pos >= len(tokens):
        return None
    t = tokens[pos]
    k = t[0]
    if k in ("uint", "nint", "int", "bytes", "text", "item", "raw"):
        return pos + 1
    if k == "special":
        return None if t[1] == "Break" else pos + 1
    if k == "tag":
        return item_end(tokens, pos + 1)
    if k in ("array", "map"):
        per = 2 if k == "map" else 1
        p = pos + 1
        if t[1] is None:
            while True:
                if p >= len(tokens):
                    return None
                if tokens[p][0] == "special" and tokens[p][1] == "Break":
                    return p + 1
                for _ in range(per):
                    p = item_end(tokens, p)
                    if p is None:
                        return None
        for _ in range(t[1] * per):
            p = item_end(tokens, p)
            if p is None:
                return None
        return p
    return None


def map_entries(tokens, pos=0):
    """[(key token, value start, value end)] of the definite/indefinite map at pos, or None if malformed"""
    if pos >= len(tokens) or tokens[pos][0] != "map":
        return None
    n = tokens[pos][1]
    p = pos + 1
    out = []
    while (n is None and not (p < len(tokens) and tokens[p][0] == "special" and tokens[p][1] == "Break")) or (n is not None and len(out) < n):
        if p >= len(tokens):
            return None
        key = tokens[p]
        ve = item_end(tokens, p + 1)
        if item_end(tokens, p) != p + 1 or ve is None:
            return None
        out.append((key, p + 1, ve))
        p = ve
    return out
