"""Discharging verification conditions: z3 decides, cvc5 cross-checks the same SMT-LIB text."""
import os, re, subprocess, tempfile, time
import concurrent.futures as cf
import z3

_POOL = cf.ThreadPoolExecutor(max_workers=int(os.environ.get("VERIF_CVC5_JOBS", "10")))

CVC5 = "cvc5"


class Ctx:
    def __init__(self, program, tier, seed, log, native_replay=None, native_eval=None):
        self.P, self.tier, self.seed, self.log = program, tier, seed, log
        self.native_replay = native_replay      # fn(harness, [bytes...]) -> dict
        self.native_eval = native_eval
        self.results = []
        self.native_runs = 0

    def record(self, name, status, reason="", stats=None, bound="", encodes=(), model=None, native=None):
        r = {"name": name, "engine": "E2", "status": status, "reason": reason, "stats": stats or {}, "bound": bound,
             "encodes": list(encodes), "model": model}
        if native:
            r.update(native)
        self.results.append(r)
        self.log("  [E2] %-44s %-12s %s" % (name, status, reason[:160]))
        import gc
        gc.collect()        # in the thread that owns the z3 objects (automatic collection is off, see runner/main.py)
        return r


def cvc5_check(smt2, timeout_s=20):
    txt = "(set-logic ALL)\n" + smt2 + "\n(check-sat)\n" if "(check-sat)" not in smt2 else "(set-logic ALL)\n" + smt2
    with tempfile.NamedTemporaryFile("w", suffix=".smt2", delete=False) as f:
        f.write(txt)
        p = f.name
    try:
        r = subprocess.run([CVC5, "--lang", "smt2", "--tlimit=%d" % int(timeout_s * 1000), p], capture_output=True, text=True, timeout=timeout_s + 10)
        out = (r.stdout + r.stderr).strip()
        if "(error" in out or "rror" in out.split("\n")[0:1][0] if out else False:
            return "error"
        first = out.split("\n")[0].strip() if out else ""
        return first if first in ("sat", "unsat", "unknown") else "unknown"
    except Exception:
        return "unknown"
    finally:
        os.unlink(p)


def solve(assertions, timeout_ms=60000, cross=True):
    """-> (verdict 'sat'|'unsat'|'unknown', model or None, stats)"""
    s = z3.Solver()
    s.set("timeout", timeout_ms)
    for a in assertions:
        s.add(a)
    t0 = time.time()
    r = s.check()
    dt = time.time() - t0
    st = {"z3_s": round(dt, 3), "z3": str(r), "smt_assertions": len(assertions)}
    model = s.model() if r == z3.sat else None
    if cross:
        # the cross-check runs concurrently; Obligation.finish() collects it
        st["cvc5_future"] = _POOL.submit(cvc5_check, s.to_smt2(), int(os.environ.get('VERIF_CVC5_S', '4')))
    return str(r), model, st


class Obligation:
    """collects the VCs of one obligation and reduces them to one verdict"""
    def __init__(self, ctx, name, bound="", encodes=(), fallback_native=None):
        self.ctx, self.name, self.bound, self.encodes = ctx, name, bound, list(encodes)
        self.fallback_native = fallback_native
        self.queries = 0
        self.solver_s = 0.0
        self.assertions = 0
        self.cross_ok = 0
        self.cross_unknown = 0
        self.problems = []     # (kind, text, model)
        self.pending = []      # (cvc5 future, z3 verdict, what)
        self.t0 = time.time()

    def vc(self, what, pc, goal, timeout_ms=60000, info=None):
        """goal must hold under pc: pc ∧ ¬goal must be unsat"""
        self.nvc = getattr(self, "nvc", 0) + 1
        k = getattr(self, "cross_every", 1)
        verdict, model, st = solve(list(pc) + [z3.Not(goal)], timeout_ms, cross=(self.nvc % k == 0 or k == 1))
        self._acc(st)
        fut = st.get("cvc5_future")
        if verdict == "unsat":
            self.pending.append((fut, "unsat", what))
            return True
        if verdict == "sat":
            self.pending.append((fut, "sat", what))
            self.problems.append(("cex", what, model, info))
            return False
        # z3 unknown: cvc5 may still decide an unsat
        self.pending.append((fut, "unknown", what))
        return False

    def reachable(self, what, pc, timeout_ms=30000):
        verdict, model, st = solve(list(pc), timeout_ms, cross=False)
        self._acc(st)
        if verdict != "sat":
            self.problems.append(("inconclusive", "vacuity witness not satisfiable: " + what, None))
            return False
        return True

    def fail(self, text):
        self.problems.append(("inconclusive", text, None))

    def violation(self, text):
        """a violation established structurally on an executed path (no model needed); still confirmed natively"""
        self.problems.append(("cex", text, None, None))

    def _acc(self, st):
        self.queries += 1
        self.solver_s += st.get("z3_s", 0) + st.get("cvc5_s", 0)
        self.assertions += st.get("smt_assertions", 0)
        pass

    def _collect(self):
        for fut, zv, what in self.pending:
            t0 = time.time()
            try:
                cv = fut.result() if fut is not None else "unknown"
            except Exception:
                cv = "unknown"
            if cv in ("sat", "unsat"):
                if zv in ("sat", "unsat") and cv != zv:
                    self.problems = [p for p in self.problems if not (p[0] == "cex" and p[1] == what)]
                    self.problems.append(("inconclusive", "solvers disagree on %s (z3 %s, cvc5 %s)" % (what, zv, cv), None))
                else:
                    self.cross_ok += 1
                if zv == "unknown" and cv == "sat":
                    self.problems.append(("inconclusive", "z3 unknown, cvc5 sat on " + what, None))
            else:
                self.cross_unknown += 1
                if zv == "unknown":
                    self.problems.append(("inconclusive", "both solvers returned unknown on " + what, None))
        self.pending = []

    def finish(self, engine=None, cex_to_native=None):
        """cex_to_native(model) -> (harness, [byte lists]) for native confirmation of a counterexample"""
        self._collect()
        stats = {"queries": self.queries, "solver_s": round(self.solver_s, 2), "smt_assertions": self.assertions,
                 "cvc5_agreed": self.cross_ok, "cvc5_unknown": self.cross_unknown, "wall_s": round(time.time() - self.t0, 1)}
        if engine is not None:
            stats.update({"paths": engine.stats["paths"], "feasibility_queries": engine.stats["feasibility_queries"],
                          "mir_functions_inlined": len(engine.stats["functions"])})
            enc = sorted(set(self.encodes) | {f.split("::")[-1] if "<impl at" not in f else re.sub(r"<impl at [^>]*>", "", f).replace("::::", "::") for f in engine.stats["functions"]})
        else:
            enc = self.encodes
        cex = [p for p in self.problems if p[0] == "cex"]
        inc = [p for p in self.problems if p[0] == "inconclusive"]
        if cex:
            what, model = cex[0][1], cex[0][2]
            mtxt = model_text(model)
            native = None
            status = "violation"
            reason = "counterexample for %s: %s" % (what, mtxt[:400])
            if cex_to_native is not None and self.ctx.native_replay is not None:
                try:
                    h, vals = cex_to_native(model, cex[0][3]) if cex[0][3] is not None else cex_to_native(model)
                    dev = self.ctx.native_replay(h, vals, "dev")
                    rel = self.ctx.native_replay(h, vals, "release")
                    self.ctx.native_runs += 2
                    native = {"native_dev": dev, "native_release": rel, "playback_values": vals, "harness": h}
                    if dev.get("outcome") != "panic" and rel.get("outcome") != "panic":
                        status = "inconclusive"
                        reason = "E2 counterexample does not reproduce natively (dev=%s, release=%s): %s" % (dev.get("outcome"), rel.get("outcome"), reason)
                except Exception as e:
                    status = "inconclusive"
                    reason = "native replay of E2 counterexample failed (%r): %s" % (e, reason)
            else:
                status = "inconclusive"
                reason = "E2 counterexample without native replay: " + reason
            if status == "inconclusive" and self.fallback_native and self.ctx.native_replay is not None:
                # API-level confirmation: the native battery must exhibit a property violation on the same tree
                for fb in (self.fallback_native if isinstance(self.fallback_native, (list, tuple)) else [self.fallback_native]):
                    dev = self.ctx.native_replay(fb, [], "dev")
                    self.ctx.native_runs += 1
                    if dev.get("outcome") == "panic":
                        status = "violation"
                        native = {"native_dev": dev, "native_release": {}, "playback_values": [], "harness": fb}
                        reason = "confirmed at API level by %s (%s); solver counterexample: %s" % (fb, dev.get("message", "")[:300], reason)
                        break
            return self.ctx.record(self.name, status, reason, stats, self.bound, enc, mtxt, native)
        if inc:
            return self.ctx.record(self.name, "inconclusive", "; ".join(p[1] for p in inc)[:500], stats, self.bound, enc)
        return self.ctx.record(self.name, "pass", "", stats, self.bound, enc)


def model_text(m):
    if m is None:
        return ""
    items = []
    for d in m.decls():
        if "!" in d.name():
            continue
        try:
            items.append("%s=%s" % (d.name(), m[d]))
        except Exception:
            pass
    return ", ".join(sorted(items))


def mval(m, term, default=0):
    v = m.eval(term, model_completion=True)
    try:
        return v.as_long()
    except Exception:
        return default


def le_bytes(v, n):
    v &= (1 << (8 * n)) - 1
    return [(v >> (8 * i)) & 0xff for i in range(n)]
