"""mir2smt engine (E2): symbolic execution of rustc's optimized MIR with z3 terms.

* machine integers are mathematical z3 Ints carrying their Rust type; every arithmetic result is wrapped
  exactly as the MIR operation says (AddWithOverflow -> (wrapped, flag), casts wrap, Div/Rem truncate)
* num_bigint::BigInt is a mathematical Int (trusted model of num-bigint)
* enums always have a concrete variant on a path: an operation whose variant depends on symbolic data forks
  the path.  Paths are enumerated by re-execution with a decision list (no state copying); every fork asks
  the solver which alternatives are feasible under the current path condition
* crate callees are inlined from their own MIR; a table of intrinsics models the std / num items met;
  anything else is fail-closed (Unsupported) unless the obligation lists it as uninterpreted/opaque
"""
import os, re, sys, time, itertools
import z3
from mirparse import (parse_mir, parse_rvalue, parse_place, split_top, find_top, match_close, INT_TYPES)


class Unsupported(Exception):
    pass


class PathAbort(Exception):
    """current path ends (panic / infeasible / bound)"""
    def __init__(self, kind, msg=""):
        self.kind, self.msg = kind, msg


# ---------------------------------------------------------------- values
class V:
    pass


class VInt(V):
    __slots__ = ("t", "ty")
    def __init__(self, t, ty):
        self.t = z3.IntVal(t) if isinstance(t, int) else t
        self.ty = ty
    def __repr__(self): return "VInt(%s:%s)" % (self.t, self.ty)


class VBool(V):
    __slots__ = ("t",)
    def __init__(self, t):
        self.t = z3.BoolVal(t) if isinstance(t, bool) else t
    def __repr__(self): return "VBool(%s)" % self.t


class VBig(V):
    """num_bigint::BigInt / BigUint as a mathematical integer"""
    __slots__ = ("t",)
    def __init__(self, t):
        self.t = z3.IntVal(t) if isinstance(t, int) else t
    def __repr__(self): return "VBig(%s)" % self.t


class VStruct(V):
    __slots__ = ("name", "fields", "origin")
    def __init__(self, name, fields, origin=None):
        self.name, self.fields, self.origin = name, list(fields), origin
    def __repr__(self): return "%s%r" % (self.name, self.fields)


class VEnum(V):
    __slots__ = ("ty", "variant", "fields", "origin")
    def __init__(self, ty, variant, fields=(), origin=None):
        self.ty, self.variant, self.fields, self.origin = ty, variant, list(fields), origin
    def __repr__(self): return "%s::%s%r" % (self.ty, self.variant, self.fields)


class VRef(V):
    __slots__ = ("cell", "path")
    def __init__(self, cell, path=()):
        self.cell, self.path = cell, tuple(path)
    def __repr__(self): return "&%r%r" % (self.cell, self.path)


class VOpaque(V):
    """result of an uninterpreted / opaque callee: a term of sort U built from the callee name and args"""
    __slots__ = ("tag", "args", "t")
    def __init__(self, tag, args=(), t=None):
        self.tag, self.args, self.t = tag, list(args), t
    def __repr__(self): return "Opaque(%s)" % self.tag


class VSeq(V):
    """abstract container / iterator over a concrete-length list of symbolic elements"""
    __slots__ = ("items", "pos", "kind")
    def __init__(self, items, kind="seq", pos=0):
        self.items, self.kind, self.pos = list(items), kind, pos
    def __repr__(self): return "Seq%r@%d" % (self.items, self.pos)


class VDigits(V):
    """Vec<u64> returned by BigInt::to_u64_digits: little-endian base-2^64 digits of a magnitude"""
    __slots__ = ("mag",)
    def __init__(self, mag): self.mag = mag


class VLazy(V):
    """lazily initialised symbolic object of Rust type `ty` (arbitrary value of that type): fields, variants and
    scalar leaves are created on first access and named after their access path, so that every re-execution
    of a path sees the same symbols"""
    __slots__ = ("path", "ty", "fields", "version")
    def __init__(self, path, ty):
        self.path, self.ty, self.fields, self.version = path, ty, {}, 0
    def __repr__(self): return "Lazy(%s: %s)" % (self.path, self.ty)


class VFn(V):
    __slots__ = ("name",)
    def __init__(self, name): self.name = name
    def __repr__(self): return "fn(%s)" % self.name


UNIT = VStruct("()", [])


class Cell:
    __slots__ = ("v", "name")
    def __init__(self, v=None, name=""):
        self.v, self.name = v, name
    def __repr__(self): return "<%s>" % self.name


def clone(v):
    if isinstance(v, VStruct):
        return VStruct(v.name, [clone(x) for x in v.fields], v.origin)
    if isinstance(v, VEnum):
        return VEnum(v.ty, v.variant, [clone(x) for x in v.fields], v.origin)
    if isinstance(v, VSeq):
        return VSeq([clone(x) for x in v.items], v.kind, v.pos)
    if isinstance(v, VLazy):
        c = VLazy(v.path, v.ty)
        c.fields = {k: clone(x) for k, x in v.fields.items()}
        c.version = v.version
        return c
    return v


def rng(ty):
    signed, bits = INT_TYPES[ty]
    return (-(1 << (bits - 1)), (1 << (bits - 1)) - 1) if signed else (0, (1 << bits) - 1)


def wrap(t, ty):
    """exact two's complement wrap of a mathematical integer into ty"""
    lo, hi = rng(ty)
    _, bits = INT_TYPES[ty]
    m = 1 << bits
    if z3.is_int_value(t):
        v = t.as_long()
        return z3.IntVal((v - lo) % m + lo)
    return z3.If(z3.And(t >= lo, t <= hi), t, (t - lo) % m + lo)


def in_range(t, ty):
    lo, hi = rng(ty)
    return z3.And(t >= lo, t <= hi)


ENUM_STD = {
    "Option": ["None", "Some"], "Result": ["Ok", "Err"], "ControlFlow": ["Continue", "Break"],
    "Ordering": ["Less", "Equal", "Greater"], "Sign": ["Minus", "NoSign", "Plus"],
    "Entry": ["Vacant", "Occupied"],        # std::collections::btree_map::Entry / hash_map::Entry (declaration order)
}
ENUM_DISCR = {"Ordering": {"Less": -1, "Equal": 0, "Greater": 1}}


_LAST_SEG = {}


def last_seg(path):
    """Type name without module path and generics: std::option::Option<u64> -> Option"""
    r = _LAST_SEG.get(path)
    if r is None:
        r = _LAST_SEG[path] = _last_seg(path)
    return r


def _last_seg(path):
    p = path.strip()
    p = re.sub(r"^&\s*('\w+\s+)?(mut )?", "", p).strip()
    k = find_top(p, "<")
    if k > 0:
        p = p[:k]
    p = p.rstrip(":")
    return p.split("::")[-1]


# ---------------------------------------------------------------- name resolution
class Program:
    def __init__(self, mir_text, src_root):
        self.fns = parse_mir(mir_text)
        self.src_root = src_root
        # immutable integer statics: `allocN (static: NAME, size: k, align: k) { bytes }`
        self._static_allocs = {}
        for mm_ in re.finditer(r"^(alloc\d+) \(static: [\w:]+, size: (\d+), align: \d+\) \{\n\s*((?:[0-9a-f]{2} )+)", mir_text, re.M):
            self._static_allocs.setdefault(mm_.group(1), int.from_bytes(bytes.fromhex(mm_.group(3).replace(" ", "")), "little"))
        self._impl_cache = {}
        self.by_method = {}       # method name -> [def name]
        self.closures = {}        # "file:l:c: l:c" -> def name
        self.closures_all = {}    # the same location can have several bodies (closures inside macro-generated items)
        self.promoted = {}
        self.impl_info = {}       # def name -> (self_type_lastseg, trait_str or None)
        self.enum_variants = {}   # enum last-seg -> [variant names] (from source)
        self.struct_fields = {}   # struct last-seg -> [field names] (declaration order = MIR field index)
        self._parse_promoted(mir_text)
        self._parse_consts(mir_text)
        self.external = {"std", "core", "alloc"}
        try:
            for m in re.finditer(r'^name = "([^"]+)"', open(os.path.join(src_root, "Cargo.lock")).read(), re.M):
                self.external.add(m.group(1).replace("-", "_"))
            self.external.discard("cardano_serialization_lib")
        except Exception:
            pass
        for name, fn in self.fns.items():
            m = re.search(r"\{closure#\d+\}(#\d+)?$", name)
            if m and fn.params:
                t = fn.params[0][1]
                mm = re.search(r"\{closure@([^}]*)\}", t)
                if mm:
                    self.closures[mm.group(1)] = name
                    self.closures_all.setdefault(mm.group(1), []).append(name)
                continue
            meth = re.sub(r"#\d+$", "", name).split("::")[-1]
            self.by_method.setdefault(meth, []).append(name)
        self._scan_enums()

    def _parse_consts(self, text):
        self.consts = {}
        for m in re.finditer(r"^(?:const|static) (?!.*::promoted\[)(.*): ([^=]*?) = \{$", text, re.M):
            body_start = m.end()
            end = text.find("\n}\n", body_start)
            name = m.group(1)
            try:
                fn = list(parse_mir("fn __const() -> %s {\n" % m.group(2) + text[body_start:end] + "\n}\n").values())[0]
            except Exception:
                continue
            self.consts.setdefault(self._const_key(name), []).append((name, fn))
        for m in re.finditer(r"^(?:const|static) (?!.*::promoted\[)(.*): ([^=]*?) = (const .*);$", text, re.M):
            try:
                fn = list(parse_mir("fn __const() -> %s {\n    bb0: {\n        _0 = %s;\n        return;\n    }\n}\n" % (m.group(2), m.group(3))).values())[0]
            except Exception:
                continue
            self.consts.setdefault(self._const_key(m.group(1)), []).append((m.group(1), fn))

    @staticmethod
    def _const_key(name):
        parts = [x for x in split_top(re.sub(r"<impl at [^>]*>::", "", name), "::") if x]
        if parts and parts[-1].startswith("{"):
            return "::".join(parts[-3:])
        return parts[-1] if parts else name

    def resolve_const(self, raw):
        cands = self.consts.get(self._const_key(raw), [])
        if len(cands) == 1:
            return cands[0][1]
        parts = split_path(raw)
        if len(parts) >= 2:
            ty = last_seg(parts[-2])
            hit = [fn for n, fn in cands if self.impl_of(n + "::x")[0] == ty or ("::" + ty + "::") in n]
            if len(hit) == 1:
                return hit[0]
        return None

    def _parse_promoted(self, text):
        for m in re.finditer(r"^const (.*)::promoted\[(\d+)\]: (.*) = \{$", text, re.M):
            body_start = m.end()
            end = text.find("\n}\n", body_start)
            body = "fn __promoted() -> %s {\n" % m.group(3) + text[body_start:end] + "\n}\n"
            fn = list(parse_mir(body).values())[0]
            owner = m.group(1)
            self.promoted.setdefault((self._owner_method(owner), int(m.group(2))), []).append((owner, fn))

    def _scan_enums(self):
        for root, _, files in os.walk(os.path.join(self.src_root, "src")):
            if "/tests" in root:
                continue
            for f in files:
                if not f.endswith(".rs"):
                    continue
                try:
                    s = open(os.path.join(root, f), errors="replace").read()
                except Exception:
                    continue
                for m in re.finditer(r"^\s*impl_hash_type!\((\w+),\s*(\d+)\);", s, re.M):
                    self.__dict__.setdefault("byte_counts", {})[m.group(1)] = int(m.group(2))
                for m in re.finditer(r"\bstruct\s+(\w+)\s*(?:<[^>{]*>)?\s*(?:where[^{]*)?\{", s):
                    k = match_close(s, m.end() - 1)
                    body = re.sub(r"//[^\n]*", "", s[m.end():k])
                    body = re.sub(r"#\[[^\]]*\]", "", body)
                    names, ftypes = [], []
                    for part in split_top(body):
                        mm = re.match(r"^\s*(?:pub(?:\([^)]*\))?\s+)?(\w+)\s*:\s*(.*?)\s*$", part, re.S)
                        if mm:
                            names.append(mm.group(1))
                            ftypes.append(re.sub(r"\s+", " ", mm.group(2)))
                    self.struct_fields.setdefault(m.group(1), names)
                    self.__dict__.setdefault("struct_field_types", {}).setdefault(m.group(1), ftypes)
                for m in re.finditer(r"\benum\s+(\w+)[^{;]*\{", s):
                    k = match_close(s, m.end() - 1)
                    body = re.sub(r"//[^\n]*", "", s[m.end():k])
                    body = re.sub(r"#\[[^\]]*\]", "", body)
                    names = []
                    discr, nxt = {}, 0
                    for part in split_top(body):
                        mm = re.match(r"^\s*(\w+)", part)
                        if mm:
                            names.append(mm.group(1))
                            md = re.search(r"=\s*(-?\d+)\s*$", part.strip())
                            if md:
                                nxt = int(md.group(1))
                            discr[mm.group(1)] = nxt
                            nxt += 1
                    self.enum_variants.setdefault(m.group(1), names)
                    self.__dict__.setdefault("enum_bodies", {}).setdefault(m.group(1), body)
                    if any(discr[n] != i for i, n in enumerate(names)):
                        ENUM_DISCR.setdefault(m.group(1), discr)

    def impl_of(self, defname):
        """(self type last segment, trait string|None) of the impl a def lives in, read from source"""
        if defname in self.impl_info:
            return self.impl_info[defname]
        m = re.search(r"<impl at ([^:>]+):(\d+):(\d+): (\d+):(\d+)>", defname)
        res = (None, None)
        if m:
            key = (m.group(1), int(m.group(2)))
            if key not in self._impl_cache:
                try:
                    lines = open(os.path.join(self.src_root, m.group(1)), errors="replace").read().split("\n")
                    i = int(m.group(2)) - 1
                    col = int(m.group(3)) - 1
                    hdr = lines[i][col:]
                    j = i
                    while "{" not in hdr and j + 1 < len(lines) and j < i + 8:
                        j += 1
                        hdr += " " + lines[j].strip()
                    hdr = hdr.split("{")[0]
                    self._impl_cache[key] = hdr
                except Exception:
                    self._impl_cache[key] = ""
            hdr = self._impl_cache[key].strip()
            if hdr.startswith("impl"):
                h = hdr[4:].strip()
                if h.startswith("<"):
                    h = h[match_close(h, 0) + 1:].strip()
                h = h.split(" where ")[0].strip()
                k = find_top(h, " for ")
                if k >= 0:
                    res = (last_seg(h[k + 5:]), h[:k].strip())
                else:
                    res = (last_seg(h), None)
            else:
                # derive(...) expansion: the span points into #[derive(Clone, ..)] — self type is on the item below
                try:
                    lines = open(os.path.join(self.src_root, m.group(1)), errors="replace").read().split("\n")
                    i = int(m.group(2)) - 1
                    trait = lines[i][int(m.group(3)) - 1:int(m.group(5)) - 1] if m.group(2) == m.group(4) else None
                    j = i
                    ty = None
                    while j < len(lines) and j < i + 40:
                        mm = re.match(r"^\s*(pub(\([^)]*\))?\s+)?(struct|enum)\s+(\w+)", lines[j])
                        if mm:
                            ty = mm.group(4)
                            break
                        j += 1
                    res = (ty, trait)
                except Exception:
                    pass
        if res[0] is not None and "$" in res[0] and defname in self.fns:
            # macro-generated impl: the self type is a macro parameter; take it from the signature
            fn = self.fns[defname]
            tr = res[1].replace("$byte_count", str(32)) if res[1] else None
            first = fn.params[0][1] if fn.params else ""
            cand = last_seg(first) if re.match(r"^&?\s*(mut )?[\w:]+$", first.strip()) and last_seg(first) not in INT_TYPES else None
            if cand is None or cand in ("str", "Vec", "String"):
                r_ = fn.ret
                k = find_top(r_, "<")
                if last_seg(r_) in ("Result", "Option") and k > 0:
                    r_ = split_top(r_[k + 1:match_close(r_, k)])[0]
                cand = last_seg(r_)
            if res[1] and "$" in res[1] and fn.params:
                tr = re.sub(r"\[u8; \$byte_count\]", fn.params[0][1], res[1])
            res = (cand, tr)
        self.impl_info[defname] = res
        return res

    def is_derived(self, defname):
        """the impl this def lives in comes from a #[derive(..)] (its span points into the attribute, not at an `impl` item)"""
        m = re.search(r"<impl at ([^:>]+):(\d+):(\d+): (\d+):(\d+)>", defname)
        if not m:
            return False
        self.impl_of(defname)
        hdr = self._impl_cache.get((m.group(1), int(m.group(2))), "")
        return not hdr.strip().startswith("impl")

    def resolve(self, callee):
        """call-site path -> def name or None (memoised: a pure function of the call-site text)"""
        cache = self.__dict__.setdefault("_resolve_cache", {})
        if callee in cache:
            return cache[callee]
        r = self._resolve(callee)
        cache[callee] = r
        return r

    def _resolve(self, callee):
        c = callee.strip()
        if c in self.fns:
            return c
        # <Self as Trait<..>>::method
        if c.startswith("<"):
            k = match_close(c, 0)
            inner, rest = c[1:k], c[k + 1:]
            meth = rest.lstrip(":")
            meth = re.sub(r"::<.*$", "", meth)
            a = find_top(inner, " as ")
            if a < 0:
                return None
            selfty, trait = inner[:a].strip(), inner[a + 4:].strip()
            if re.match(r"^&?\s*[A-Z]\w?$", selfty):
                return None        # a type parameter: dispatched on the run-time receiver by the engine
            if self.is_external(selfty) and (self.is_external(trait) or "::" not in trait and trait.split("<")[0] in
                                             ("Clone", "PartialEq", "PartialOrd", "Ord", "Eq", "Hash", "Debug", "Default", "From", "Into", "Iterator", "IntoIterator", "Deref", "DerefMut", "Try", "FromResidual", "Display", "ToString", "AsRef", "Borrow", "Drop", "TryFrom", "TryInto", "Fn", "FnMut", "FnOnce", "Index", "Add", "Sub", "Mul", "Div", "Rem", "Neg", "Not", "Extend", "FromIterator", "ToOwned", "Pow", "Integer", "Signed", "ToPrimitive", "Zero", "One", "Sum", "DoubleEndedIterator", "ExactSizeIterator", "Read", "Write", "Seek", "BufRead", "Error", "FromStr")):
                return None
            cands = []
            for d in self.by_method.get(meth, []):
                st, tr = self.impl_of(d)
                if st is None or tr is None:
                    continue
                if st == last_seg(selfty) and last_seg(tr) == last_seg(trait):
                    # prefer exact generic-arg match of the trait, and & vs non-& self
                    score = 0
                    # same-named traits of different crates (cbor_event::Serialize vs serde::Serialize)
                    if ("serde" in tr) != ("serde" in trait):
                        continue
                    if ("cbor_event" in trait) and ("serde" in d or "_::_serde" in d):
                        continue
                    if norm_ty(tr) == norm_ty(trait):
                        score += 4
                    elif re.match(r"^\w+<[A-Z]\w?>$", norm_ty(tr)):
                        score += 2      # blanket impl over a type parameter
                    elif "<" in tr and "<" in trait:
                        continue        # a different concrete instantiation
                    hdr = self._impl_cache.get(self._impl_key(d), "")
                    is_ref_impl = bool(re.search(r"\bfor\s+&", hdr))
                    if is_ref_impl == selfty.startswith("&"):
                        score += 1
                    cands.append((score, d))
            if cands:
                cands.sort(reverse=True)
                if len(cands) > 1 and cands[0][0] == cands[1][0]:
                    return None
                return cands[0][1]
            # blanket impl `impl<T: Bound> Trait for T`
            blanket = [d for d in self.by_method.get(meth, []) if self.impl_of(d)[1] is not None and last_seg(self.impl_of(d)[1]) == last_seg(trait)
                       and re.match(r"^[A-Z]\w?$", self.impl_of(d)[0] or "") and not re.search(r"\bfor\s+&", self._impl_cache.get(self._impl_key(d), ""))]
            if len(blanket) == 1 and not self.is_external(trait):
                return blanket[0]
            return None
        # module::<impl path::Type>::method (inherent impl written in another module)
        mi = re.match(r"^(?:[\w:]+::)?<impl ([^<>]+(?:<.*>)?)>::(\w+)(?:::<.*>)?$", c)
        if mi:
            c = last_seg(mi.group(1)) + "::" + mi.group(2)
        # Type::method or free function path
        c2 = re.sub(r"::<[^>]*>$", "", c)     # trailing turbofish on the method
        if self.is_external(c2):
            return None
        parts = split_path(c2)
        meth = parts[-1]
        cands = self.by_method.get(meth, [])
        if len(parts) >= 2:
            ty = last_seg(parts[-2])
            hits = [d for d in cands if self.impl_of(d)[0] == ty and self.impl_of(d)[1] is None]
            if len(hits) == 1:
                return hits[0]
            if len(hits) > 1:
                return None
        free = [d for d in cands if "<impl at" not in d]
        if len(parts) >= 2:
            free2 = [d for d in free if len(split_path(d)) >= 2 and split_path(d)[-2] == parts[-2]]
            if len(free2) == 1:
                return free2[0]
        if len(free) == 1:
            return free[0]
        return None

    def is_external(self, path):
        p = re.sub(r"^&(mut )?", "", path.strip())
        return p.split("::")[0].split("<")[0] in self.external

    def _impl_key(self, defname):
        m = re.search(r"<impl at ([^:>]+):(\d+):", defname)
        return (m.group(1), int(m.group(2))) if m else None

    @staticmethod
    def _owner_method(owner):
        parts = [x for x in split_top(owner, "::") if x and not x.startswith("<") or x.startswith("<impl")]
        parts = [x for x in parts if not re.match(r"^<[^i]", x)]
        return re.sub(r"#\d+$", "", parts[-1]) if parts else owner

    def _norm_owner(self, owner):
        out = []
        for x in split_top(owner, "::"):
            if not x:
                continue
            if x.startswith("<impl at"):
                out.append("<%s>" % self.impl_of(x + "::x")[0])
            elif x.startswith("<impl "):
                h = x[6:-1]
                k = find_top(h, " for ")
                out.append("<%s>" % last_seg(h[k + 5:] if k >= 0 else h))
            elif x.startswith("<"):
                continue
            else:
                out.append(x)
        return "::".join(out)

    def resolve_promoted(self, raw):
        m = re.match(r"^(.*)::promoted\[(\d+)\]$", raw)
        if not m:
            return None
        owner = m.group(1)
        cands = self.promoted.get((self._owner_method(owner), int(m.group(2))), [])
        if len(cands) == 1:
            return cands[0][1]
        # several owners share the last segment (closures, trait methods): compare the whole normalised owner path
        want_n = self._norm_owner(owner)
        def same_owner(a, b):
            # definitions are printed with a shortened path, uses with the full one
            return a == b or a.endswith("::" + b) or b.endswith("::" + a)
        exact = [fn for o, fn in cands if same_owner(want_n, self._norm_owner(o))]
        if len(exact) == 1:
            return exact[0]
        mi = re.search(r"<impl (?:.* for )?([^<>]+?)>", owner)
        if mi:
            want = last_seg(mi.group(1))
            hit = [fn for o, fn in cands if self.impl_of(o + "::x")[0] == want]
            if len(hit) == 1:
                return hit[0]
        ty = last_seg("::".join(x for x in split_top(owner, "::")[:-1] if not x.startswith("<"))) if "::" in owner else None
        hit = [fn for o, fn in cands if self.impl_of(o + "::x")[0] == ty]
        if len(hit) == 1:
            return hit[0]
        return None         # ambiguous: the caller reports the constant as unsupported rather than guessing


def split_path(p):
    """split a::b::<T>::c on top-level '::'"""
    return [x for x in split_top(p, "::") if x and not x.startswith("<")]


def norm_ty(t):
    t = re.sub(r"\b(?:[a-z_0-9]+::)+", "", t)
    return re.sub(r"\s+", "", t)


# ---------------------------------------------------------------- executor
class Frame:
    __slots__ = ("fn", "locals", "rv_cache")
    def __init__(self, fn):
        self.fn = fn
        self.locals = {}


class Outcome:
    def __init__(self, kind, value, pc, msg="", trace=None, idents=None):
        self.kind, self.value, self.pc, self.msg, self.trace = kind, value, pc, msg, trace or []
        self.idents = idents or {}
    def __repr__(self): return "Outcome(%s, %r, %s)" % (self.kind, self.value, self.msg)


class Engine:
    def __init__(self, program, opaque=(), uninterpreted=(), max_loop=8, max_depth=60, log=None, solver_timeout_ms=20000):
        self.P = program
        self.opaque = [re.compile(x) for x in opaque] + [re.compile(x) for x in DEFAULT_OPAQUE]
        self.uninterp = [re.compile(x) for x in uninterpreted]
        self.max_loop, self.max_depth = max_loop, max_depth
        self.solver = z3.Solver()
        self.solver.set("timeout", solver_timeout_ms)
        self.base = []            # global assumptions on the symbolic inputs
        self.fresh_n = 0
        self.stats = {"paths": 0, "feasibility_queries": 0, "calls_inlined": 0, "intrinsics": 0, "functions": set(), "opaque_calls": set()}
        self.log = log or (lambda *a: None)
        self.U = z3.DeclareSort("U")
        self._rv_cache = {}
        self.extra_intrinsics = {}

    # ---- symbolic inputs
    def sym_int(self, name, ty):
        t = z3.Int(name)
        self.base.append(in_range(t, ty))
        return VInt(t, ty)

    def sym_big(self, name):
        return VBig(z3.Int(name))

    def sym_bool(self, name):
        return VBool(z3.Bool(name))

    def fresh(self, prefix, sort="int"):
        self.fresh_n += 1
        n = "%s!%d" % (prefix, self.fresh_n)
        return z3.Int(n) if sort == "int" else (z3.Bool(n) if sort == "bool" else z3.Const(n, self.U))

    def assume(self, c):
        self.base.append(c)

    # ---- path exploration
    def explore(self, entry, make_args, max_paths=4000):
        """run `entry` (def name or call-site path) on every feasible path. make_args() -> list of values, called
        per path (values may hold mutable cells).  Returns [Outcome]."""
        outcomes = []
        self.decisions = []
        while True:
            self.dpos = 0
            self.pc = list(self.base)
            self.trace = []
            self.depth = 0
            self.fresh_n = 0
            self._uf_cache = {}
            self.uf_count = 0
            self.lazy_ident = {}
            self.writes = 0
            self.mk_count = 0
            try:
                args = make_args()
                v = self.call(entry, args)
                outcomes.append(Outcome("return", v, list(self.pc), trace=list(self.trace), idents=dict(self.lazy_ident)))
                outcomes[-1].args = args
            except PathAbort as e:
                outcomes.append(Outcome(e.kind, None, list(self.pc), e.msg, trace=list(self.trace), idents=dict(self.lazy_ident)))
            self.stats["paths"] += 1
            if self.stats["paths"] % 500 == 0:
                import gc
                if not gc.isenabled():
                    gc.collect()        # automatic collection is off in check processes (z3 is not thread-safe); collect here, in the owning thread
            if self.stats["paths"] > max_paths:
                raise Unsupported("more than %d paths" % max_paths)
            # next decision vector: bump the last decision that still has an alternative
            while self.decisions and self.decisions[-1][0] + 1 >= self.decisions[-1][1]:
                self.decisions.pop()
            if not self.decisions:
                break
            c, n = self.decisions[-1]
            self.decisions[-1] = (c + 1, n)
        return outcomes

    def feasible(self, cond):
        self.stats["feasibility_queries"] += 1
        self.solver.push()
        try:
            for c in self.pc:
                self.solver.add(c)
            self.solver.add(cond)
            r = self.solver.check()
        finally:
            self.solver.pop()
        if r == z3.unknown:
            return True      # keep the path: sound for "no violation on any path"
        return r == z3.sat

    def choose(self, conds, what="", trust=False):
        """conds: list of z3 Bool terms (mutually exclusive alternatives). Returns the index taken on this path;
        adds the chosen condition to the path condition."""
        simp = [z3.simplify(c) if not isinstance(c, bool) else z3.BoolVal(c) for c in conds]
        live = [i for i, c in enumerate(simp) if not z3.is_false(c)]
        if len(live) == 1 and z3.is_true(simp[live[0]]):
            return live[0]
        if self.dpos < len(self.decisions):
            # replaying: feasibility was established when this decision was first made
            k, n = self.decisions[self.dpos]
            feas = self._feas_cache[self.dpos]
            self.dpos += 1
            idx = feas[k]
            self.pc.append(simp[idx])
            return idx
        feas = list(live) if trust else [i for i in live if self.feasible(simp[i])]
        if not feas:
            raise PathAbort("infeasible", what)
        if not hasattr(self, "_feas_cache"):
            self._feas_cache = {}
        self._feas_cache[self.dpos] = feas
        self.decisions.append((0, len(feas)))
        self.dpos += 1
        self.pc.append(simp[feas[0]])
        return feas[0]

    def concretize(self, t, what=""):
        """python int if term t has exactly one value under the path condition, else None"""
        t = z3.simplify(t)
        if z3.is_int_value(t):
            return t.as_long()
        self.solver.push()
        try:
            for c in self.pc:
                self.solver.add(c)
            if self.solver.check() != z3.sat:
                return None
            v = self.solver.model().eval(t, model_completion=True)
            self.solver.add(t != v)
            if self.solver.check() == z3.unsat:
                return v.as_long()
        finally:
            self.solver.pop()
        return None

    # ---- lazy initialisation
    def materialize(self, ty, path):
        t = ty.strip()
        m = re.match(r"^&(?:'\w+ )?(mut )?(.*)$", t)
        if m:
            return VRef(Cell(self.materialize(m.group(2), path + "*"), path + "*"))
        ls = last_seg(t)
        if t in INT_TYPES or (ls in INT_TYPES and "::" not in t.replace("std::", "").replace("core::", "")):
            x = z3.Int(path)
            self.pc.append(in_range(x, ls))
            return VInt(x, ls)
        if t == "bool":
            return VBool(z3.Bool(path))
        if t == "()":
            return UNIT
        if t.startswith("(") and t.endswith(")"):
            return VStruct("()", [self.materialize(x, "%s.%d" % (path, i)) for i, x in enumerate(split_top(t[1:-1])) if x])
        return VLazy(path, t)

    def enum_variants_of(self, ty):
        ls = last_seg(ty)
        if ls in ENUM_STD:
            return ls, ENUM_STD[ls]
        if ls in self.P.enum_variants:
            return ls, self.P.enum_variants[ls]
        return ls, None

    def force_enum(self, v):
        """resolve a lazy enum object to a concrete variant on this path (forks)"""
        if not isinstance(v, VLazy):
            return v
        ls, names = self.enum_variants_of(v.ty)
        if names is None:
            raise Unsupported("discriminant of lazy non-enum %r" % (v,))
        d = z3.Int(v.path + "#d")
        i = self.choose([d == k for k in range(len(names))], "variant of " + v.path)
        e = VEnum(ls, names[i], [], origin="%s.%s" % (v.path, names[i]))
        # generic payload types of the std enums are known from the type string
        k = find_top(v.ty, "<")
        if ls in ("Option", "Result") and k > 0:
            gargs = split_top(v.ty[k + 1:match_close(v.ty, k)])
            if ls == "Option" and names[i] == "Some":
                e.fields = [self.materialize(gargs[0], e.origin + ".0")]
            if ls == "Result":
                e.fields = [self.materialize(gargs[0] if names[i] == "Ok" else gargs[1], e.origin + ".0")]
        for fi, fv in v.fields.items():
            while len(e.fields) <= fi:
                e.fields.append(None)
            e.fields[fi] = fv
        return e

    def replace_at(self, c, path, val):
        """overwrite the value at a place without counting as a program write (lazy resolution)"""
        if not path:
            c.v = val
            return
        parent = self.nav(c.v, path[:-1])
        step = path[-1]
        if isinstance(parent, VRef):
            parent = self.read_ref(parent)
        if step[0] == "downcast":
            return
        if isinstance(parent, VLazy):
            parent.fields[step[1]] = val
        elif isinstance(parent, (VStruct, VEnum)):
            parent.fields[step[1]] = val
        elif isinstance(parent, VSeq):
            parent.items[step[1]] = val

    def force_arg(self, a):
        """value behind a (possibly nested) reference with lazy enums resolved in place"""
        r = a
        while isinstance(r, VRef) and isinstance(self.read_ref(r), VRef):
            r = self.read_ref(r)
        if isinstance(r, VRef):
            v = self.read_ref(r)
            if isinstance(v, VLazy) and self.enum_variants_of(v.ty)[1] is not None:
                v = self.force_enum(v)
                self.replace_at(r.cell, r.path, v)
            return v
        if isinstance(r, VLazy) and self.enum_variants_of(r.ty)[1] is not None:
            return self.force_enum(r)
        return r

    def typed_result(self, ret_ty, name, uargs):
        """a value of Rust type ret_ty that is an uninterpreted function of uargs"""
        key = (name, ret_ty, tuple(str(a) for a in uargs))
        cache = self.__dict__.setdefault("_uf_cache", {})
        if key in cache:
            return clone(cache[key])
        self.uf_count = getattr(self, "uf_count", 0) + 1
        tag = "uf%d_%s" % (self.uf_count, re.sub(r"[^A-Za-z0-9_]", "_", name)[-40:])
        v = self._typed_result(ret_ty.strip(), tag, name, uargs)
        cache[key] = v
        return clone(v)

    def _typed_result(self, t, tag, name, uargs):
        ls = last_seg(t)
        sane = re.sub(r"[^A-Za-z0-9_]", "_", name)[-50:]
        if t == "bool":
            f = z3.Function("ufb_" + sane, *([self.U] * len(uargs) + [z3.BoolSort()]))
            return VBool(f(*uargs) if uargs else z3.Bool("ufb_" + sane))
        if t in INT_TYPES:
            f = z3.Function("ufi_" + sane, *([self.U] * len(uargs) + [z3.IntSort()]))
            x = f(*uargs) if uargs else z3.Int("ufi_" + sane)
            self.pc.append(in_range(x, t))
            return VInt(x, t)
        if t == "()":
            return UNIT
        k = find_top(t, "<")
        if ls in ("Result", "Option") and k > 0:
            gargs = split_top(t[k + 1:match_close(t, k)])
            f = z3.Function("ufb_good_" + sane, *([self.U] * len(uargs) + [z3.BoolSort()]))
            good = f(*uargs) if uargs else z3.Bool("ufb_good_" + sane)
            i = self.choose([good, z3.Not(good)], "result of " + name)
            if ls == "Result":
                return VEnum("Result", "Ok", [self._typed_result(gargs[0], tag + "_ok", name + "#ok", uargs)]) if i == 0 else \
                    VEnum("Result", "Err", [VOpaque("err:" + name)])
            return VEnum("Option", "Some", [self._typed_result(gargs[0], tag + "_some", name + "#some", uargs)]) if i == 0 else VEnum("Option", "None", [])
        if t.startswith("(") and t.endswith(")"):
            return VStruct("()", [self._typed_result(x, "%s_%d" % (tag, i), "%s#%d" % (name, i), uargs) for i, x in enumerate(split_top(t[1:-1])) if x])
        lz = VLazy(tag, t)
        # identity of the result as a function of the arguments
        f = z3.Function("ufu_" + sane, *([self.U] * len(uargs) + [self.U]))
        self.__dict__.setdefault("lazy_ident", {})[tag] = f(*uargs) if uargs else z3.Const("ufu_" + sane, self.U)
        return lz

    # ---- calls
    def call(self, callee, args):
        self.depth += 1
        if self.depth > self.max_depth:
            raise Unsupported("call depth > %d at %s" % (self.max_depth, callee))
        self.__dict__.setdefault("callstack", []).append(callee)
        try:
            return self._call(callee, args)
        except Unsupported as e:
            if not getattr(e, "stacked", False):
                e.stacked = True
                e.args = (str(e.args[0]) + " | call stack: " + " > ".join(x[-70:] for x in self.callstack[-5:]),)
            raise
        finally:
            self.callstack.pop()
            self.depth -= 1

    def mk_struct(self, name, **fields):
        """struct value with the given named fields (indices from the source declaration); others lazy"""
        names = self.P.struct_fields.get(name)
        if names is None:
            raise Unsupported("unknown struct " + name)
        for k in fields:
            if k not in names:
                raise Unsupported("struct %s has no field %s" % (name, k))
        self.mk_count = getattr(self, "mk_count", 0) + 1
        st = VStruct(name, [fields.get(n) for n in names], origin="mk%d_%s" % (self.mk_count, name))
        return st

    def _call(self, callee, args):
        c = callee.strip()
        if c.endswith(" as Clone>::clone") and args:
            a = args[0]
            while isinstance(a, VRef):
                a = self.read_ref(a)
            if isinstance(a, (VLazy, VOpaque, VSeq)) or (isinstance(a, VStruct) and a.name.startswith("#")):
                return clone(a)
        for pat, fn in self.extra_intrinsics.items():
            if re.search(pat, c):
                r = fn(self, c, args)
                if r is not NotImplemented:
                    return r
        for rx in self.uninterp:
            if rx.search(c):
                return self.uf_call(c, args)
        d = self.P.resolve(c)
        if d is None and c.startswith("<") and args:
            # call on a type parameter inside a generic body: dispatch on the run-time type of the receiver
            k = match_close(c, 0)
            a_ = find_top(c[1:k], " as ")
            if a_ > 0 and re.match(r"^&?\s*[A-Z]\w?$", c[1:k][:a_].strip()):
                rv = args[0]
                nref = 0
                while isinstance(rv, VRef):
                    rv = self.read_ref(rv); nref += 1
                rt = rv.name if isinstance(rv, VStruct) else (rv.ty if isinstance(rv, (VEnum, VLazy)) else None)
                if rt:
                    c2 = "<" + ("&" if c[1:k].strip().startswith("&") else "") + rt + c[1:k][a_:] + c[k:]
                    d = self.P.resolve(c2)
                    if d is not None:
                        c = c2
        if d is not None and d in self.P.fns:
            for rx in self.opaque:
                if rx.search(c) or rx.search(d):
                    self.stats["opaque_calls"].add(c)
                    return VOpaque(c, args)
            r_ = self._derived_cmp_on_lazies(c, d, args)
            if r_ is not None:
                return r_
            return self.run_fn(self.P.fns[d], args)
        import intrinsics
        r = intrinsics.dispatch(self, c, args)
        if r is not NotImplemented:
            self.stats["intrinsics"] += 1
            return r
        for rx in self.opaque:
            if rx.search(c):
                self.stats["opaque_calls"].add(c)
                return VOpaque(c, args)
        raise Unsupported("no model for callee: %s" % c)

    def _derived_cmp_on_lazies(self, c, d, args):
        """#[derive(PartialEq / Ord / PartialOrd)] applied to two lazily initialised (not yet unfolded) objects: structural
        equality of arbitrary values is equality of their identities, and the derived order is some strict total order on
        identities (uninterpreted) — instead of unfolding both objects field by field"""
        m = re.search(r" as (?:[\w:]*::)?(PartialEq|Ord|PartialOrd)(?:<[^>]*>)?>::(eq|ne|cmp|partial_cmp)$", c)
        if not m or len(args) != 2 or not self.P.is_derived(d):
            return None
        a, b = args
        while isinstance(a, VRef):
            a = self.read_ref(a)
        while isinstance(b, VRef):
            b = self.read_ref(b)
        if not (isinstance(a, (VLazy, VOpaque)) and isinstance(b, (VLazy, VOpaque))):
            return None
        ua, ub = self.as_u(a), self.as_u(b)
        if m.group(2) in ("eq", "ne"):
            return VBool(ua == ub if m.group(2) == "eq" else ua != ub)
        lt = z3.Function("derived_ord", self.U, self.U, z3.BoolSort())
        self.pc.append(z3.Not(z3.And(lt(ua, ub), lt(ub, ua))))
        i = self.choose([ua == ub, z3.And(ua != ub, lt(ua, ub)), z3.And(ua != ub, z3.Not(lt(ua, ub)))], "derived order")
        if i == 2:
            self.pc.append(lt(ub, ua))
        o = VEnum("Ordering", ["Equal", "Less", "Greater"][i], [])
        return o if m.group(2) == "cmp" else VEnum("Option", "Some", [o])

    def uf_call(self, name, args):
        """uninterpreted pure function of the arguments; typed by the callee's MIR signature when it is a crate fn"""
        ts = [self.as_u(a) for a in args]
        d = self.P.resolve(name)
        if not name.startswith("<"):
            name = "::".join(split_path(re.sub(r"::<[^>]*>$", "", name))[-2:])     # Type::method, module path dropped
        if d is not None and d in self.P.fns:
            self.trace.append(("uf", name, ts))
            return self.typed_result(self.P.fns[d].ret, name, ts)
        f = z3.Function("uf_" + re.sub(r"[^A-Za-z0-9_]", "_", name)[-60:], *([self.U] * len(ts) + [self.U]))
        self.trace.append(("uf", name, ts))
        return VOpaque(name, args, f(*ts) if ts else z3.Const("ufc_" + re.sub(r"[^A-Za-z0-9_]", "_", name)[-60:], self.U))

    def enter(self, outcome):
        """make the lazy identities of a finished path current again (for as_u on its result values)"""
        self.lazy_ident = dict(outcome.idents)
        self.pc = list(outcome.pc)

    def uf_good_term(self, name, uargs):
        sane = re.sub(r"[^A-Za-z0-9_]", "_", name)[-50:]
        f = z3.Function("ufb_good_" + sane, *([self.U] * len(uargs) + [z3.BoolSort()]))
        return f(*uargs) if uargs else z3.Bool("ufb_good_" + sane)

    def uf_ident_term(self, name, uargs):
        sane = re.sub(r"[^A-Za-z0-9_]", "_", name)[-50:]
        f = z3.Function("ufu_" + sane, *([self.U] * len(uargs) + [self.U]))
        return f(*uargs) if uargs else z3.Const("ufu_" + sane, self.U)

    def as_u(self, v):
        """injective-enough embedding of a value into sort U (for uninterpreted functions)"""
        if v is None:
            return z3.Const("k_none", self.U)
        if isinstance(v, z3.ExprRef):
            if v.sort() == self.U:
                return v
            if z3.is_bool(v):
                return z3.Function("bool2u", z3.BoolSort(), self.U)(v)
            return z3.Function("int2u", z3.IntSort(), self.U)(v)
        if isinstance(v, VOpaque):
            if v.t is None:
                v.t = self.fresh("op_" + re.sub(r"[^A-Za-z0-9_]", "_", v.tag)[-30:], "u")
            return v.t
        if isinstance(v, VRef):
            return self.as_u(self.read_ref(v))
        if isinstance(v, VLazy):
            ident = self.__dict__.get("lazy_ident", {}).get(v.path)
            if ident is not None and v.version == 0:
                return ident
            return z3.Const("lazy_%s@%d" % (v.path, v.version), self.U)
        if isinstance(v, (VInt, VBig)):
            return z3.Function("int2u", z3.IntSort(), self.U)(v.t)
        if isinstance(v, VBool):
            return z3.Function("bool2u", z3.BoolSort(), self.U)(v.t)
        if isinstance(v, (VStruct, VEnum)):
            fs = [self.as_u(x) for x in v.fields]
            nm = (v.name if isinstance(v, VStruct) else v.ty + "__" + str(v.variant))
            f = z3.Function("mk_" + re.sub(r"[^A-Za-z0-9_]", "_", nm)[-50:] + "_%d" % len(fs), *([self.U] * len(fs) + [self.U]))
            return f(*fs) if fs else z3.Const("k_" + re.sub(r"[^A-Za-z0-9_]", "_", nm)[-50:], self.U)
        if isinstance(v, VSeq):
            fs = [self.as_u(x) for x in v.items]
            f = z3.Function("seq_%d" % len(fs), *([self.U] * len(fs) + [self.U]))
            return f(*fs) if fs else z3.Const("seq_empty", self.U)
        if isinstance(v, VFn):
            return z3.Const("fn_" + re.sub(r"[^A-Za-z0-9_]", "_", v.name)[-50:], self.U)
        raise Unsupported("as_u of %r" % (v,))

    def run_fn(self, fn, args):
        self.stats["calls_inlined"] += 1
        self.stats["functions"].add(fn.name)
        fr = Frame(fn)
        if len(args) != len(fn.params):
            raise Unsupported("arity mismatch calling %s: %d vs %d" % (fn.name, len(args), len(fn.params)))
        for (l, _), a in zip(fn.params, args):
            fr.locals[l] = Cell(a, "%s._%d" % (fn.name[-20:], l))
        bb = "bb0"
        visits = {}
        while True:
            visits[bb] = visits.get(bb, 0) + 1
            if visits[bb] > self.max_loop + 1:
                raise PathAbort("bound", "loop bound %d exceeded in %s %s" % (self.max_loop, fn.name, bb))
            stmts, term = fn.block(bb)
            for s in stmts:
                self.exec_stmt(fr, s)
            k = term[0]
            if k == "goto":
                bb = term[1]
            elif k == "return":
                c = fr.locals.get(0)
                return c.v if c is not None and c.v is not None else UNIT
            elif k == "switch":
                v = self.eval_operand(fr, term[1])
                bb = self.do_switch(v, term[2], term[3])
            elif k == "call":
                _, dest, callee, aops, ret = term
                if re.match(r"^(copy|move) ", callee) or re.match(r"^_\d+$", callee):
                    fv = self.eval_operand(fr, ("copy", parse_place(callee.split(" ", 1)[-1])))
                    cal = fv
                else:
                    cal = callee
                avals = [self.eval_operand(fr, a) for a in aops]
                if ret is None and not isinstance(cal, V) and re.match(r"^(core|std)::(panicking|rt|option|result)::", cal):
                    raise PathAbort("panic", "diverging call " + callee + " in " + fn.name)
                if isinstance(cal, V):
                    r = self.call_value(cal, avals)
                elif ret is None:
                    try:
                        r = self.call(cal, avals)
                    except Unsupported as e:
                        if "no model for callee" not in str(e):
                            raise
                        raise PathAbort("panic", "diverging call " + callee + " in " + fn.name)
                else:
                    try:
                        r = self.call(cal, avals)
                    except Unsupported as e:
                        # opt-in: a function outside the crate without a model is an uninterpreted total function of its
                        # arguments, typed by the destination local (Result / Option fork both ways)
                        hv = getattr(self, "havoc_external", None)
                        if not hv or "no model for callee: " + cal.strip() not in str(e) or self.P.resolve(cal) is not None or dest is None or dest[0] != "local":
                            raise
                        if hv is not True and not re.search(hv, cal):
                            raise
                        dty = fn.locals.get(dest[1]) or (fn.ret if dest[1] == 0 else None)
                        if dty is None:
                            raise
                        self.trace.append(("havoc", cal))
                        # deterministic: the same external function on the same arguments yields the same result (and the same Ok / Err verdict)
                        r = self.typed_result(dty, re.sub(r"[^A-Za-z0-9_:]", "_", cal)[-50:], [self.as_u(a) for a in avals if not isinstance(a, VFn)])
                if ret is None:
                    raise PathAbort("panic", "diverging call " + callee)
                if dest is not None:
                    self.write_place(fr, dest, r)
                bb = ret
            elif k == "assert":
                _, cop, expect, msg, succ = term
                c = self.eval_operand(fr, cop)
                ok = c.t if expect else z3.Not(c.t)
                i = self.choose([ok, z3.Not(ok)], "assert " + msg)
                if i == 1:
                    raise PathAbort("panic", "MIR assert failed: " + msg + " in " + fn.name)
                bb = succ
            elif k == "drop":
                bb = term[2]
            elif k == "unreachable":
                raise PathAbort("unreachable", "unreachable in " + fn.name)
            elif k == "resume":
                raise PathAbort("panic", "resume in " + fn.name)
            else:
                raise Unsupported("terminator " + k)

    def call_value(self, f, args):
        """call a closure / fn item value"""
        if isinstance(f, VRef):
            f = self.read_ref(f)
        if isinstance(f, VFn):
            return self.call(f.name, args)
        if isinstance(f, VStruct) and f.name.startswith("{closure@"):
            loc = f.name[len("{closure@"):-1]
            d = self.P.closures.get(loc)
            allc = self.P.closures_all.get(loc, [])
            if len(allc) > 1 and f.origin:
                base = re.sub(r"#\d+$", "", f.origin)
                mk_ = re.search(r"#(\d+)$", f.origin)
                same = [x for x in allc if re.sub(r"#\d+$", "", x).startswith(base + "::{closure")]
                # the k-th instance of a macro-generated item owns the k-th instance of its closures
                pref = [x for x in same if (re.search(r"#(\d+)$", x).group(1) if re.search(r"#(\d+)$", x) else None) == (mk_.group(1) if mk_ else None)]
                if pref:
                    d = pref[0]
                elif same:
                    d = same[0]
            if d is None:
                raise Unsupported("closure body not found: " + loc)
            fn = self.P.fns[d]
            first = f
            if fn.params[0][1].startswith("&"):
                first = VRef(Cell(f, "closure"))
            return self.run_fn(fn, [first] + list(args))
        raise Unsupported("call of value %r" % (f,))

    def do_switch(self, v, cases, otherwise):
        if isinstance(v, VBool):
            t = z3.If(v.t, 1, 0)
        elif isinstance(v, VInt):
            t = v.t
            # switch values are printed as unsigned bit patterns
            if INT_TYPES.get(v.ty, (False, 0))[0]:
                bits = INT_TYPES[v.ty][1]
                cases = [((c - (1 << bits)) if c >= (1 << (bits - 1)) else c, b) for c, b in cases]
        else:
            raise Unsupported("switch on %r" % (v,))
        # concrete discriminant: no solver, no decision recorded (choose() records none for a constant-true alternative either)
        cv = None
        if isinstance(v, VBool):
            if z3.is_true(v.t): cv = 1
            elif z3.is_false(v.t): cv = 0
        elif z3.is_int_value(t):
            cv = t.as_long()
        if cv is not None:
            for c, b in cases:
                if c == cv:
                    return b
            if otherwise is not None:
                return otherwise
        conds = [t == c for c, _ in cases]
        tgts = [b for _, b in cases]
        if otherwise is not None:
            conds.append(z3.And([t != c for c, _ in cases]) if cases else z3.BoolVal(True))
            tgts.append(otherwise)
        return tgts[self.choose(conds, "switch")]

    # ---- places
    def place_ref(self, fr, p, create=False):
        """-> (cell, path)"""
        k = p[0]
        if k == "local":
            c = fr.locals.get(p[1])
            if c is None:
                c = fr.locals[p[1]] = Cell(None, "%s._%d" % (fr.fn.name[-20:], p[1]))
            return c, ()
        if k == "deref":
            v = self.read_place(fr, p[1])
            if isinstance(v, VRef):
                return v.cell, v.path
            if isinstance(v, VStruct) and v.name in ("Box", "Rc", "Arc"):
                c, path = self.place_ref(fr, p[1])
                return c, path + (("field", 0),)
            raise Unsupported("deref of %r in %s" % (v, fr.fn.name))
        if k == "field":
            c, path = self.place_ref(fr, p[1], create)
            return c, path + (("field", p[2], p[3]),)
        if k == "downcast":
            c, path = self.place_ref(fr, p[1], create)
            return c, path + (("downcast", p[2]),)
        if k == "constindex":
            c, path = self.place_ref(fr, p[1], create)
            return c, path + (("field", p[2]),)
        if k == "index":
            c, path = self.place_ref(fr, p[1], create)
            iv = self.read_place(fr, p[2])
            n = self.concretize(iv.t)
            if n is None:
                raise Unsupported("symbolic index")
            return c, path + (("field", n),)
        raise Unsupported("place kind " + k)

    def nav(self, v, path, what=""):
        for step in path:
            if step[0] == "field":
                if isinstance(v, VRef) :
                    v = self.read_ref(v)
                if isinstance(v, VLazy):
                    i = step[1]
                    if i not in v.fields:
                        if len(step) < 3 or step[2] is None:
                            raise Unsupported("untyped field %d of lazy %r" % (i, v))
                        v.fields[i] = self.materialize(step[2], "%s.%d" % (v.path, i))
                    v = v.fields[i]
                    continue
                if isinstance(v, (VStruct, VEnum)):
                    if (step[1] >= len(v.fields) or v.fields[step[1]] is None) and v.origin is not None and len(step) >= 3 and step[2]:
                        while len(v.fields) <= step[1]:
                            v.fields.append(None)
                        v.fields[step[1]] = self.materialize(step[2], "%s.%d" % (v.origin, step[1]))
                    if step[1] >= len(v.fields):
                        raise Unsupported("field %d of %r (%s)" % (step[1], v, what))
                    v = v.fields[step[1]]
                elif isinstance(v, VSeq):
                    v = v.items[step[1]]
                elif isinstance(v, VBig) and step[1] == 0:
                    pass   # newtype around the mathematical integer
                else:
                    raise Unsupported("field of %r (%s)" % (v, what))
            elif step[0] == "downcast":
                if not isinstance(v, VEnum):
                    raise Unsupported("downcast of %r" % (v,))
                if str(v.variant) != step[1] and not str(step[1]).isdigit():
                    raise PathAbort("infeasible", "downcast %s of %r" % (step[1], v))
        return v

    def read_ref(self, r):
        if r.cell.v is None:
            raise Unsupported("read of uninitialised " + r.cell.name)
        return self.nav(r.cell.v, r.path)

    def read_place(self, fr, p):
        c, path = self.place_ref(fr, p)
        if c.v is None:
            raise Unsupported("read of uninitialised local %s in %s" % (c.name, fr.fn.name))
        return self.nav(c.v, path, fr.fn.name)

    def write_at(self, c, path, val, tyhint=None):
        if not path:
            c.v = val
            return
        if c.v is None:
            c.v = VStruct(tyhint or "?", [])
        v = c.v
        for i, step in enumerate(path):
            lastp = i == len(path) - 1
            if step[0] == "downcast":
                if isinstance(v, VStruct) and v.name in ("?",) or (isinstance(v, VStruct) and not v.fields):
                    # skeleton under construction: becomes an enum
                    raise Unsupported("field-wise enum construction")
                continue
            idx = step[1]
            if isinstance(v, VRef):
                v = self.read_ref(v)
            if isinstance(v, VSeq):
                if lastp:
                    v.items[idx] = val
                    return
                v = v.items[idx]
                continue
            if isinstance(v, VLazy):
                v.version += 1
                self.writes = getattr(self, "writes", 0) + 1
                if lastp:
                    v.fields[idx] = val
                    return
                if idx not in v.fields:
                    if len(step) < 3 or not step[2]:
                        raise Unsupported("write through untyped lazy field")
                    v.fields[idx] = self.materialize(step[2], "%s.%d" % (v.path, idx))
                v = v.fields[idx]
                continue
            if not isinstance(v, (VStruct, VEnum)):
                raise Unsupported("write into %r" % (v,))
            while len(v.fields) <= idx:
                v.fields.append(None)
            if lastp:
                v.fields[idx] = val
                return
            if v.fields[idx] is None:
                v.fields[idx] = VStruct("?", [])
            v = v.fields[idx]

    def write_place(self, fr, p, val):
        c, path = self.place_ref(fr, p, create=True)
        ty = fr.fn.locals.get(p[1]) if p[0] == "local" else None
        self.write_at(c, path, val, ty)

    # ---- operands / rvalues
    def eval_const(self, fr, c):
        k = c[0]
        if k == "int":
            return VInt(c[1], c[2])
        if k == "bool":
            return VBool(c[1])
        if k == "unit":
            return UNIT
        if k in ("str", "char", "float"):
            return VOpaque("const:" + str(c[1])[:40], [], z3.Const("str_" + re.sub(r"[^A-Za-z0-9_]", "_", str(c[1]))[:40], self.U))
        raw = c[1]
        if raw.startswith("ZeroSized: "):
            raw = raw[len("ZeroSized: "):].strip()
            if raw.startswith("{closure@"):
                return VStruct(raw[:match_close(raw, 0) + 1], [], origin=fr.fn.name)
        ma = re.match(r"^\{(alloc\d+): &(u8|u16|u32|u64|usize|i32|i64|bool)\}$", raw)
        if ma:
            # a reference to an immutable integer `static`: its bytes are printed at the end of the function's MIR
            allocs = getattr(self.P, "_static_allocs", {})
            if ma.group(1) in allocs:
                ty_ = ma.group(2)
                return VRef(Cell(VBool(bool(allocs[ma.group(1)])) if ty_ == "bool" else VInt(allocs[ma.group(1)], ty_), "static"))
        if "::promoted[" in raw:
            fn = self.P.resolve_promoted(raw)
            if fn is None:
                raise Unsupported("promoted const " + raw)
            return self.run_fn(fn, [])
        m = re.match(r"^(.*)::(MAX|MIN)$", raw)
        if m:
            mm = re.search(r"(?:^|::|<impl )(u8|u16|u32|u64|u128|usize|i8|i16|i32|i64|i128|isize)>?$", m.group(1))
            if mm:
                ty = mm.group(1)
                return VInt(rng(ty)[1] if m.group(2) == "MAX" else rng(ty)[0], ty)
        mb = re.search(r"(\w+)::BYTE_COUNT$", raw)
        if mb and mb.group(1) in getattr(self.P, "byte_counts", {}):
            return VInt(self.P.byte_counts[mb.group(1)], "usize")
        if raw.endswith("SizedTypeProperties>::ALIGN"):
            return VInt(8, "usize")
        if raw.endswith("SizedTypeProperties>::SIZE"):
            return VInt(16, "usize")       # only ever compared with zero (null / ZST checks of the vec! lowering)
        cfn = self.P.resolve_const(raw)
        if cfn is not None:
            return self.run_fn(cfn, [])
        # unit-like enum variant / struct used as a constant, fn items, ZSTs
        d = self.P.resolve(raw)
        if d is not None:
            return VFn(raw)
        parts = split_path(raw)
        if len(parts) >= 2:
            ety = last_seg(parts[-2])
            if ety in ENUM_STD and parts[-1] in ENUM_STD[ety]:
                return VEnum(ety, parts[-1], [])
            if ety in self.P.enum_variants and parts[-1] in self.P.enum_variants[ety]:
                return VEnum(ety, parts[-1], [])
        # associated consts such as DataHash::BYTE_COUNT are printed by value normally; anything else:
        return VFn(raw)

    def eval_operand(self, fr, op):
        k = op[0]
        if k == "copy":
            return clone(self.read_place(fr, op[1]))
        if k == "move":
            return self.read_place(fr, op[1])
        if k == "const":
            return self.eval_const(fr, op[1])
        raise Unsupported("operand " + k)

    def exec_stmt(self, fr, s):
        k = s[0]
        if k == "nop":
            return
        if k == "assign":
            key = s[2]
            rv = self._rv_cache.get(key)
            if rv is None:
                rv = self._rv_cache[key] = parse_rvalue(key)
            v = self.eval_rvalue(fr, rv, s[1])
            self.write_place(fr, s[1], v)
            return
        if k == "setdiscr":
            raise Unsupported("SetDiscriminant")
        if k == "assume":
            v = self.eval_operand(fr, s[1])
            self.pc.append(v.t)
            return
        raise Unsupported("statement: " + str(s)[:120])

    def enum_variant_name(self, name, idx=None):
        return name

    def eval_rvalue(self, fr, rv, dest=None):
        k = rv[0]
        if k == "use":
            return self.eval_operand(fr, rv[1])
        if k == "ref":
            c, path = self.place_ref(fr, rv[1])
            return VRef(c, path)
        if k == "binop":
            return self.binop(rv[1], self.eval_operand(fr, rv[2]), self.eval_operand(fr, rv[3]))
        if k == "unop":
            a = self.eval_operand(fr, rv[2])
            if rv[1] == "Not":
                if isinstance(a, VBool):
                    return VBool(z3.Not(a.t))
                lo, hi = rng(a.ty)
                return VInt((-a.t - 1) if lo < 0 else (hi - a.t), a.ty)
            if rv[1] == "Neg":
                return VInt(wrap(-a.t, a.ty), a.ty)
            if rv[1] == "PtrMetadata":
                # the length half of a slice reference
                d = a
                while isinstance(d, VRef):
                    d = self.read_ref(d)
                if isinstance(d, VSeq):
                    return VInt(z3.IntVal(len(d.items) - d.pos), "usize")
            raise Unsupported("unop " + rv[1])
        if k == "cast":
            a = self.eval_operand(fr, rv[1])
            ty, kind = rv[2], rv[3]
            if kind == "IntToInt":
                if isinstance(a, VBool):
                    return VInt(z3.If(a.t, 1, 0), ty)
                if isinstance(a, VEnum):
                    # fieldless enum -> integer
                    names = ENUM_STD.get(a.ty) or self.P.enum_variants.get(a.ty)
                    if a.ty in ENUM_DISCR:
                        return VInt(ENUM_DISCR[a.ty][a.variant], ty)
                    return VInt(names.index(a.variant), ty)
                if ty not in INT_TYPES:
                    raise Unsupported("cast to " + ty)
                return VInt(wrap(a.t, ty), ty)
            if kind.startswith("PointerCoercion") or kind in ("Transmute", "PtrToPtr"):
                if isinstance(a, VStruct) and a.name in ("NonNull", "Unique") and len(a.fields) == 1:
                    a = a.fields[0]
                    if isinstance(a, VStruct) and a.name in ("NonNull", "Unique") and len(a.fields) == 1:
                        a = a.fields[0]
                if ty == "usize" and isinstance(a, VRef):
                    return VInt(0x10000, "usize")      # abstract address of a live allocation: non-null, aligned
                return a
            raise Unsupported("cast kind " + kind)
        if k == "discriminant":
            v = self.read_place(fr, rv[1])
            if isinstance(v, VLazy):
                c, path = self.place_ref(fr, rv[1])
                v = self.force_enum(v)
                self.replace_at(c, path, v)
            if isinstance(v, VEnum):
                if v.ty in ENUM_DISCR:
                    return VInt(ENUM_DISCR[v.ty][v.variant], "i8" if v.ty == "Ordering" else "isize")
                names = ENUM_STD.get(v.ty) or self.P.enum_variants.get(v.ty)
                if names is None or v.variant not in names:
                    raise Unsupported("discriminant of %s::%s" % (v.ty, v.variant))
                return VInt(names.index(v.variant), "isize")
            raise Unsupported("discriminant of %r" % (v,))
        if k == "aggregate":
            if rv[1] == "tuple":
                return VStruct("()", [self.eval_operand(fr, o) for o in rv[3]])
            if rv[1] == "array":
                return VSeq([self.eval_operand(fr, o) for o in rv[3]], "array")
            if rv[1] == "closure":
                return VStruct(rv[2], [self.eval_operand(fr, o) for o in rv[3]], origin=fr.fn.name)
            name = rv[2]
            vals = [self.eval_operand(fr, o) for o in rv[3]]
            parts = split_path(name)
            if len(parts) >= 2:
                ety = last_seg(parts[-2])
                var = parts[-1]
                if (ety in ENUM_STD and var in ENUM_STD[ety]) or (ety in self.P.enum_variants and var in self.P.enum_variants[ety]):
                    return VEnum(ety, var, vals)
            sn = last_seg(name)
            if len(parts) == 1:
                # bare (trimmed) variant name: the enum is the destination's declared type, else a unique owner
                ety = None
                if dest is not None and dest[0] == "local":
                    ety = last_seg(fr.fn.locals.get(dest[1], ""))
                    if ety == "Option" or ety == "Result":
                        pass
                owners = [e for e, vs in list(ENUM_STD.items()) + list(self.P.enum_variants.items()) if sn in vs]
                if ety in owners:
                    return VEnum(ety, sn, vals)
                if ety not in ENUM_STD and ety not in self.P.enum_variants and len(set(owners)) == 1:
                    return VEnum(owners[0], sn, vals)
            return VStruct(sn, vals)
        if k == "len":
            v = self.read_place(fr, rv[1])
            if isinstance(v, VSeq):
                return VInt(len(v.items) - v.pos, "usize")
            raise Unsupported("Len of %r" % (v,))
        if k == "repeat":
            # [value; N] with a literal length
            m_ = re.match(r"^(\d+)(?:_usize)?$", rv[2].replace("const ", "").strip())
            if not m_ or int(m_.group(1)) > 4096:
                raise Unsupported("array repeat with length %s" % rv[2])
            v = self.eval_operand(fr, rv[1])
            return VSeq([clone(v) for _ in range(int(m_.group(1)))], "vec")
        raise Unsupported("rvalue " + k)

    def binop(self, op, a, b):
        if isinstance(a, VBool) and isinstance(b, VBool):
            if op == "Eq": return VBool(a.t == b.t)
            if op == "Ne": return VBool(a.t != b.t)
            if op == "BitAnd": return VBool(z3.And(a.t, b.t))
            if op == "BitOr": return VBool(z3.Or(a.t, b.t))
            if op == "BitXor": return VBool(z3.Xor(a.t, b.t))
            raise Unsupported("bool binop " + op)
        if not (isinstance(a, VInt) and isinstance(b, VInt)):
            raise Unsupported("binop %s on %r, %r" % (op, a, b))
        ty = a.ty
        x, y = a.t, b.t
        if op in ("Eq", "Ne", "Lt", "Le", "Gt", "Ge"):
            return VBool({"Eq": x == y, "Ne": x != y, "Lt": x < y, "Le": x <= y, "Gt": x > y, "Ge": x >= y}[op])
        if op in ("AddWithOverflow", "SubWithOverflow", "MulWithOverflow"):
            r = {"A": x + y, "S": x - y, "M": x * y}[op[0]]
            return VStruct("()", [VInt(wrap(r, ty), ty), VBool(z3.Not(in_range(r, ty)))])
        if op in ("Add", "AddUnchecked"): return VInt(wrap(x + y, ty), ty)
        if op in ("Sub", "SubUnchecked"): return VInt(wrap(x - y, ty), ty)
        if op in ("Mul", "MulUnchecked"): return VInt(wrap(x * y, ty), ty)
        if op in ("Div", "Rem"):
            # truncating division; MIR guards y != 0 (and MIN/-1) with asserts before
            signed = INT_TYPES[ty][0]
            if not signed:
                return VInt(x / y if op == "Div" else x % y, ty)
            q = z3.If(z3.Or(z3.And(x >= 0, y > 0), z3.And(x <= 0, y < 0)), z3.Abs(x) / z3.Abs(y), -(z3.Abs(x) / z3.Abs(y)))
            return VInt(wrap(q, ty) if op == "Div" else x - q * y, ty)
        if op in ("BitAnd", "BitOr", "BitXor", "Shl", "Shr", "ShlUnchecked", "ShrUnchecked"):
            _, bits = INT_TYPES[ty]
            if op.startswith("Sh"):
                n = self.concretize(y)
                if n is None:
                    raise Unsupported("symbolic shift amount")
                if op.startswith("Shl"):
                    return VInt(wrap(x * (1 << n), ty), ty)
                return VInt(x / (1 << n), ty) if not INT_TYPES[ty][0] else VInt(z3.If(x >= 0, x / (1 << n), -((-x + (1 << n) - 1) / (1 << n))), ty)
            # masks with a constant: exact arithmetic forms (cheaper than a round trip through bit-vectors)
            cy = self.concretize(y) if not INT_TYPES[ty][0] else None
            if op == "BitAnd" and cy is not None and cy >= 0 and (cy + 1) & cy == 0:
                return VInt(x % (cy + 1), ty)                     # low mask 2^k - 1
            if op == "BitAnd" and cy is not None and cy > 0 and cy & (cy - 1) == 0:
                return VInt(((x / cy) % 2) * cy, ty)              # single bit
            if op == "BitOr":
                # (hi << k) | lo  with lo < 2^k and hi a multiple of 2^k (checked under the path condition) is hi + lo
                for lo, hi in ((x, y), (y, x)):
                    ls = z3.simplify(lo)
                    if z3.is_mod(ls) and z3.is_int_value(ls.arg(1)):
                        m_ = ls.arg(1).as_long()
                        if m_ > 0 and m_ & (m_ - 1) == 0 and not self.feasible(z3.Or(hi % m_ != 0, hi < 0)):
                            return VInt(hi + lo, ty)
            # bit operations through bit-vectors of the type's width
            bx, by = z3.Int2BV(wrap(x, "u128") if bits == 128 else x, bits), z3.Int2BV(y, bits)
            r = {"BitAnd": bx & by, "BitOr": bx | by, "BitXor": bx ^ by}[op]
            return VInt(z3.BV2Int(r, INT_TYPES[ty][0]), ty)
        if op == "Cmp":
            i = self.choose([x < y, x == y, x > y], "cmp")
            return VEnum("Ordering", ["Less", "Equal", "Greater"][i], [])
        raise Unsupported("binop " + op)


DEFAULT_OPAQUE = [
    r"JsError::from_str", r"fmt::format", r"Arguments::<", r"Argument::<", r"must_use", r"::to_str$", r"::to_string$",
    r"<std::string::String as", r"std::string::String::", r"alloc::fmt::format", r"::fmt$", r"DeserializeError::new", r"::annotate$",
    r"<str as ToString>", r"hex::encode",
]
