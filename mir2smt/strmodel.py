"""A small theory of UTF-8 string slices for totality checking: what matters for panics is the byte length and which byte
offsets are character boundaries.  A string is an opaque identity s with
    len(s) >= 0,   boundary(s, 0),   boundary(s, len(s)),   i > len(s) -> not boundary(s, i)
and  starts_with(s, L)  for an ASCII literal L of k bytes implies  len(s) >= k  and  boundary(s, j) for all j <= k
(likewise ends_with / strip_prefix).  Slicing and split_at panic exactly when an offset is not a boundary (std's documented
contract); every other str / String function met is an uninterpreted total function.  Nothing else about the content is
modelled: a panic reported here means "no guard in the code implies the offset is a boundary"."""
import re
import z3
from engine import (VInt, VBool, VStruct, VEnum, VRef, VLazy, VOpaque, VSeq, UNIT, Cell, clone, Unsupported, PathAbort, last_seg)


def install(E):
    U = E.U
    slen = z3.Function("str_len", U, z3.IntSort())
    bnd = z3.Function("str_boundary", U, z3.IntSort(), z3.BoolSort())

    def deref(v):
        while isinstance(v, VRef):
            v = E.read_ref(v)
        return v

    def ident(v):
        v = deref(v)
        if isinstance(v, VStruct) and v.name == "String" and v.fields:
            v = v.fields[0]
        u = E.as_u(v)
        key = str(u)
        seen = E.__dict__.setdefault("_str_seen", set())
        if key not in seen:
            seen.add(key)
        # axioms are path-local (pc is rebuilt on every re-execution)
        n = slen(u)
        E.pc.append(z3.And(n >= 0, bnd(u, 0), bnd(u, n)))
        lit = literal(v)
        if lit is not None:
            E.pc.append(n == len(lit.encode()))
            if all(ord(ch) < 128 for ch in lit):
                E.pc.append(z3.And([bnd(u, j) for j in range(len(lit) + 1)]))
        return u

    def literal(v):
        v = deref(v)
        if isinstance(v, VOpaque) and v.tag.startswith("const:"):
            t = v.tag[len("const:"):]
            if len(t) < 39:
                return t
        return None

    def need_boundary(u, off, what):
        n = slen(u)
        E.pc.append(z3.Implies(off > n, z3.Not(bnd(u, off))))
        if E.choose([bnd(u, off), z3.Not(bnd(u, off))], what) == 1:
            raise PathAbort("panic", "%s: byte offset is not a char boundary (or is out of range)" % what)
        E.pc.append(off <= n)

    def fresh_str(n, tag):
        o = VOpaque(tag, [], z3.FreshConst(U, tag))
        E.pc.append(z3.And(slen(o.t) == n, bnd(o.t, 0), bnd(o.t, n)))
        return o

    def f_len(E_, c, a):
        return VInt(slen(ident(a[0])), "usize")

    def f_is_empty(E_, c, a):
        return VBool(slen(ident(a[0])) == 0)

    def f_boundary(E_, c, a):
        u = ident(a[0])
        E.pc.append(z3.Implies(a[1].t > slen(u), z3.Not(bnd(u, a[1].t))))
        return VBool(bnd(u, a[1].t))

    def f_starts(E_, c, a):
        u = ident(a[0])
        lit = literal(a[1])
        b = z3.Function("str_%s" % ("starts" if "starts_with" in c else "ends"), U, U, z3.BoolSort())(u, ident(a[1]))
        if lit is not None and all(ord(ch) < 128 for ch in lit):
            k = len(lit)
            if "starts_with" in c:
                E.pc.append(z3.Implies(b, z3.And([slen(u) >= k] + [bnd(u, j) for j in range(k + 1)])))
            else:
                E.pc.append(z3.Implies(b, z3.And([slen(u) >= k] + [bnd(u, slen(u) - j) for j in range(k + 1)])))
        return VBool(b)

    def f_strip(E_, c, a):
        u = ident(a[0])
        lit = literal(a[1])
        b = z3.FreshConst(z3.BoolSort(), "stripped")
        if E.choose([b, z3.Not(b)], "strip", trust=True) == 1:
            return VEnum("Option", "None", [])
        k = len(lit.encode()) if lit is not None else z3.FreshConst(z3.IntSort(), "k")
        E.pc.append(slen(u) >= k)
        return VEnum("Option", "Some", [VRef(Cell(fresh_str(slen(u) - k, "stripped"), "stripped"))])

    def f_index(E_, c, a):
        u = ident(a[0])
        rg = a[1]
        m = re.search(r"Index<(?:std::ops::)?(RangeFrom|RangeTo|RangeInclusive|RangeToInclusive|RangeFull|Range)<?", c)
        kind = m.group(1) if m else "?"
        n = slen(u)
        if kind == "RangeFull":
            return a[0]
        fs = rg.fields if isinstance(rg, VStruct) else []
        if kind == "RangeFrom":
            need_boundary(u, fs[0].t, "str[a..]")
            return VRef(Cell(fresh_str(n - fs[0].t, "tail"), "tail"))
        if kind == "RangeTo":
            need_boundary(u, fs[0].t, "str[..b]")
            return VRef(Cell(fresh_str(fs[0].t, "head"), "head"))
        if kind == "Range":
            if E.choose([fs[0].t <= fs[1].t, fs[0].t > fs[1].t], "range order") == 1:
                raise PathAbort("panic", "str[a..b]: a > b")
            need_boundary(u, fs[0].t, "str[a..b] start")
            need_boundary(u, fs[1].t, "str[a..b] end")
            return VRef(Cell(fresh_str(fs[1].t - fs[0].t, "mid"), "mid"))
        raise Unsupported("string index by " + kind)

    def f_split_at(E_, c, a):
        u = ident(a[0])
        need_boundary(u, a[1].t, "str::split_at")
        return VStruct("()", [VRef(Cell(fresh_str(a[1].t, "left"), "left")), VRef(Cell(fresh_str(slen(u) - a[1].t, "right"), "right"))])

    def f_as_bytes(E_, c, a):
        u = ident(a[0])
        o = VOpaque("bytes_of_str", [], z3.Function("bytes_of_str", U, U)(u))
        E.pc.append(z3.Function("container_len", U, z3.IntSort())(o.t) == slen(u))
        return VRef(Cell(o, "bytes"))

    def f_eq(E_, c, a):
        ua, ub = ident(a[0]), ident(a[1])
        b = z3.Function("str_eq", U, U, z3.BoolSort())(ua, ub)
        E.pc.append(z3.Implies(b, slen(ua) == slen(ub)))
        E.pc.append(z3.Implies(ua == ub, b))
        neg = c.endswith("::ne")
        return VBool(z3.Not(b) if neg else b)

    def f_string_cut(E_, c, a):
        # String::remove / insert / truncate / split_off / drain: the offset must be a boundary
        u = ident(a[0])
        need_boundary(u, a[1].t, c.split("::")[-1])
        return NotImplemented

    X = E.extra_intrinsics
    X[r"(^|::)<impl str>::len$|^std::string::String::len$"] = f_len
    X[r"(^|::)<impl str>::is_empty$|^std::string::String::is_empty$"] = f_is_empty
    X[r"(^|::)<impl str>::is_char_boundary$"] = f_boundary
    X[r"(^|::)<impl str>::(starts_with|ends_with)::<&str>$"] = f_starts
    X[r"(^|::)<impl str>::(strip_prefix|strip_suffix)::<&str>$"] = f_strip
    X[r"^<(str|std::string::String) as (std::ops::)?Index<.*>>::index$"] = f_index
    X[r"(^|::)<impl str>::split_at$"] = f_split_at
    X[r"(^|::)<impl str>::as_bytes$|^std::string::String::as_bytes$"] = f_as_bytes
    X[r"^<(str|&str|std::string::String) as (std::cmp::)?PartialEq(<.*>)?>::(eq|ne)$"] = f_eq
    X[r"^std::string::String::(remove|insert|insert_str|truncate|split_off)$"] = f_string_cut
    X[r"^<std::string::String as (std::ops::)?Deref>::deref$|^std::string::String::as_str$|^<std::string::String as AsRef<str>>::as_ref$"] = lambda E_, c, a: a[0]
