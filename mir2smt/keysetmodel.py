"""Pointwise abstraction of key-hash sets (Ed25519KeyHashes / RequiredSigners) for C18: a set is tracked by the
membership of ONE arbitrary but fixed key hash K (a z3 Bool). Union becomes disjunction, insertion of h becomes
(h == K).  Because K is arbitrary, a membership equivalence proved for K holds for every key: the set is exactly the
union claimed.  That the real container de-duplicates (so that len() counts DISTINCT members) is C16's business."""
import z3
from engine import VStruct, VBool, VInt, VRef, VLazy, VOpaque, UNIT, Cell, Unsupported


def deref(E, v):
    while isinstance(v, VRef):
        v = E.read_ref(v)
    return v


def K(E):
    return z3.Const("arbitrary_key_hash", E.U)


def mk(member):
    return VStruct("#KeySet", [VBool(member)])


def member_of(E, s):
    s = deref(E, s)
    if isinstance(s, VStruct) and s.name == "#KeySet":
        return s.fields[0].t
    # lazy / opaque set: membership of K is an uninterpreted predicate of the set's identity
    return z3.Function("key_member", E.U, z3.BoolSort())(E.as_u(s))


def install(E, record_len=True):
    def s_new(E_, c, args):
        return mk(z3.BoolVal(False))
    def s_add(E_, c, args):
        r = args[0]
        cur = member_of(E_, r)
        h = E_.as_u(args[1])
        E_.write_at(r.cell, r.path, mk(z3.Or(cur, h == K(E_))))
        return VBool(True) if c.endswith("::add") else UNIT
    def s_extend(E_, c, args):
        r = args[0]
        E_.write_at(r.cell, r.path, mk(z3.Or(member_of(E_, r), member_of(E_, args[1]))))
        return UNIT
    def s_len(E_, c, args):
        E_.trace.append(("keyset_len", member_of(E_, args[0])))
        n = E_.fresh("distinct_keys")
        E_.pc.append(z3.And(n >= 0, n < (1 << 32)))
        return VInt(n, "usize")
    E.extra_intrinsics[r"Ed25519KeyHashes::new$"] = s_new
    E.extra_intrinsics[r"Ed25519KeyHashes::(add|add_move)$"] = s_add
    E.extra_intrinsics[r"Ed25519KeyHashes::(extend|extend_move)$"] = s_extend
    if record_len:
        E.extra_intrinsics[r"Ed25519KeyHashes::len$"] = s_len
