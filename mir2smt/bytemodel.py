"""Byte-level model of cbor_event's Deserializer over a buffer of concrete length and symbolic content, for the crate helpers that
walk raw bytes themselves (read_bounded_bytes, read_nint).  Only the reader methods those helpers call are modelled, each by
cbor_event's documented behaviour on a Cursor<Vec<u8>>: reads past the end fail with an error (they never panic), `advance` /
`consume` move the position without a check, `take(n).read_to_end` copies min(n, remaining) bytes, `fill_buf` lends the rest."""
import re
import z3
from engine import VInt, VBool, VStruct, VEnum, VRef, VOpaque, VSeq, UNIT, Cell, Unsupported, PathAbort

TYPES = ["UnsignedInteger", "NegativeInteger", "Bytes", "Text", "Array", "Map", "Tag", "Special"]


class VDeB(VStruct):
    def __init__(self, bts):
        VStruct.__init__(self, "#ByteDeserializer", [])
        self.bts, self.pos = list(bts), 0
    def __repr__(self): return "ByteDe(@%d/%d)" % (self.pos, len(self.bts))


def deref(E, v):
    while isinstance(v, VRef):
        v = E.read_ref(v)
    return v


def ok(v): return VEnum("Result", "Ok", [v])
def err(t): return VEnum("Result", "Err", [VOpaque("cbor_error:" + t)])


def install(E):
    def rd(args):
        d = deref(E, args[0])
        while isinstance(d, VStruct) and d.name == "#Take":
            d = deref(E, d.fields[0])
        return d if isinstance(d, VDeB) else None

    def head_len(E_, d):
        """(kind, value term or None, header size) of the item header at d.pos, forking on the additional-information class;
        kind in 'len' | 'indef' | 'err'"""
        if d.pos >= len(d.bts):
            return "err", None, 0
        ai = d.bts[d.pos] % 32
        k = E_.choose([ai < 24, ai == 24, ai == 25, ai == 26, ai == 27, z3.And(ai >= 28, ai <= 30), ai == 31], "additional information")
        if k == 0:
            return "len", ai, 0
        if k in (1, 2, 3, 4):
            w = {1: 1, 2: 2, 3: 4, 4: 8}[k]
            if d.pos + 1 + w > len(d.bts):
                return "err", None, 0
            v = z3.IntVal(0)
            for j in range(w):
                v = v * 256 + d.bts[d.pos + 1 + j]
            return "len", v, w
        if k == 5:
            return "err", None, 0
        return "indef", None, 0

    def cbor_type(E_, c, a):
        d = rd(a)
        if d is None:
            return NotImplemented
        if d.pos >= len(d.bts):
            return err("not enough")
        mj = d.bts[d.pos] / 32
        k = E_.choose([mj == j for j in range(8)], "major type")
        return ok(VEnum("Type", TYPES[k], []))
    E.extra_intrinsics[r"Deserializer::<R>::cbor_type$"] = cbor_type

    def cbor_len(E_, c, a):
        d = rd(a)
        if d is None:
            return NotImplemented
        kind, v, w = head_len(E_, d)
        if kind == "err":
            return err("bad length")
        ln = VEnum("Len", "Indefinite", []) if kind == "indef" else VEnum("Len", "Len", [VInt(v, "u64")])
        return ok(VStruct("()", [ln, VInt(z3.IntVal(w), "usize")]))
    E.extra_intrinsics[r"Deserializer::<R>::cbor_len$"] = cbor_len

    def take_bytes(E_, d, want):
        """the next `want` (symbolic) bytes as a list, forking on the concrete count; None when the buffer is too short"""
        rest = max(len(d.bts) - d.pos, 0)
        k = E_.choose([want == j for j in range(rest + 1)] + [want > rest], "byte count")
        if k > rest:
            return None
        out = d.bts[d.pos:d.pos + k]
        d.pos += k
        return out

    def bytes_(E_, c, a):
        d = rd(a)
        if d is None:
            return NotImplemented
        if d.pos >= len(d.bts):
            return err("not enough")
        if E_.choose([d.bts[d.pos] / 32 == 2, d.bts[d.pos] / 32 != 2], "is bytes") == 1:
            return err("expected bytes")
        kind, v, w = head_len(E_, d)
        if kind == "err":
            return err("bad length")
        if kind == "indef":
            raise Unsupported("Deserializer::bytes on an indefinite string (not used by the helpers)")
        d.pos += 1 + w
        got = take_bytes(E_, d, v)
        if got is None:
            return err("not enough")
        return ok(VSeq([VInt(b, "u8") for b in got], "vec"))
    E.extra_intrinsics[r"Deserializer::<R>::bytes$"] = bytes_

    def advance(E_, c, a):
        d = rd(a)
        if d is None:
            return NotImplemented
        n = E_.concretize(deref(E_, a[1]).t)
        if n is None:
            raise Unsupported("symbolic advance")
        d.pos += n
        return ok(UNIT) if c.endswith("advance") else UNIT
    E.extra_intrinsics[r"Deserializer::<R>::advance$"] = advance
    E.extra_intrinsics[r"^<R as (std::io::)?BufRead>::consume$"] = advance

    def special(E_, c, a):
        d = rd(a)
        if d is None:
            return NotImplemented
        if d.pos >= len(d.bts):
            return err("not enough")
        b = d.bts[d.pos]
        k = E_.choose([b == 0xff, z3.And(b / 32 == 7, b != 0xff), b / 32 != 7], "special")
        if k == 2:
            return err("expected special")
        d.pos += 1
        return ok(VEnum("Special", "Break" if k == 0 else "Undefined", []))
    E.extra_intrinsics[r"Deserializer::<R>::special$"] = special

    E.extra_intrinsics[r"Deserializer::<R>::as_mut_ref$"] = lambda E_, c, a: a[0] if rd(a) is not None else NotImplemented
    E.extra_intrinsics[r"^<R as (std::io::)?Read>::by_ref$|(^|::)Read::by_ref$"] = lambda E_, c, a: a[0] if rd(a) is not None else NotImplemented
    E.extra_intrinsics[r"(^|::)Read::take$|^<&mut R as (std::io::)?Read>::take$"] = lambda E_, c, a: VStruct("#Take", [a[0], deref(E_, a[1])]) if rd(a) is not None else NotImplemented

    def read_to_end(E_, c, a):
        t = deref(E_, a[0])
        if not (isinstance(t, VStruct) and t.name == "#Take"):
            return NotImplemented
        d = rd([t.fields[0]])
        rest = max(len(d.bts) - d.pos, 0)
        want = t.fields[1].t
        k = E_.choose([want == j for j in range(rest)] + [want >= rest], "take")
        got = d.bts[d.pos:d.pos + k]
        d.pos += k
        E_.read_ref(a[1]).items.extend(VInt(b, "u8") for b in got)
        return ok(VInt(z3.IntVal(k), "usize"))
    E.extra_intrinsics[r"Take<&mut R> as (std::io::)?Read>::read_to_end$"] = read_to_end

    def fill_buf(E_, c, a):
        d = rd(a)
        if d is None:
            return NotImplemented
        return ok(VRef(Cell(VSeq([VInt(b, "u8") for b in d.bts[d.pos:]], "vec"), "buffer")))
    E.extra_intrinsics[r"^<R as (std::io::)?BufRead>::fill_buf$"] = fill_buf

    def extend_from_slice(E_, c, a):
        dst, src = E_.read_ref(a[0]), deref(E_, a[1])
        if isinstance(dst, VSeq) and isinstance(src, VSeq):
            dst.items.extend(src.items[src.pos:])
            return UNIT
        return NotImplemented
    E.extra_intrinsics[r"Vec::<u8>::extend_from_slice$"] = extend_from_slice
