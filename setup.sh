#!/bin/bash
# Builds everything the checks reuse: pooled Kani target dirs (dependencies only), the native replay binary,
# the dependency build used for the MIR dump. Offline; everything comes from the cargo cache on disk.
cd "$(dirname "$0")"
export CARGO_NET_OFFLINE=true
mkdir -p .build/logs evidence/replays
( cd kani && cargo build --offline --bin replay --target-dir ../.build/replay >/dev/null 2>&1 ) &
for i in 0 1 2 3 4 5; do
  ( cd kani && cargo kani --lib -Z stubbing --target-dir ../.build/kani$i --harness c14_bignum_arith --exact >/dev/null 2>&1 ) &
done
wait
python3-vt - <<'PY'
import sys
sys.path.insert(0, "runner")
import e2_run
e2_run.ensure_mir(print)
PY
echo "setup done"
