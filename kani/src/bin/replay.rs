//! Native replay of a Kani counterexample: `replay <harness> <hex>,<hex>,...` (one hex string per
//! kani::any() draw, little endian, in draw order; "-" for no values).
//! Prints one JSON line: {"harness":..,"outcome":"pass|panic|assume_violated|out_of_values","message":..,"location":..}
use csl_verif_kani::*;
use std::panic;
use std::sync::Mutex;

static LAST: Mutex<Option<(String, String)>> = Mutex::new(None);

fn unhex(s: &str) -> Vec<u8> {
    (0..s.len() / 2).map(|i| u8::from_str_radix(&s[2 * i..2 * i + 2], 16).unwrap()).collect()
}
fn esc(s: &str) -> String {
    s.chars().flat_map(|c| match c { '"' => "\\\"".chars().collect::<Vec<_>>(), '\\' => "\\\\".chars().collect(), '\n' => "\\n".chars().collect(), c if (c as u32) < 0x20 => " ".chars().collect(), c => vec![c] }).collect()
}

fn main() {
    let args: Vec<String> = std::env::args().collect();
    if args.len() >= 2 && args[1] == "--list" {
        for (n, _) in REGISTRY { println!("{}", n); }
        return;
    }
    if args.len() < 3 { eprintln!("usage: replay <harness> <hex,hex,..|->"); std::process::exit(2); }
    let name = &args[1];
    let vals: Vec<Vec<u8>> = if args[2] == "-" { vec![] } else { args[2].split(',').map(unhex).collect() };
    let f = match REGISTRY.iter().find(|(n, _)| n == name) { Some((_, f)) => *f, None => { eprintln!("unknown harness {}", name); std::process::exit(2); } };
    panic::set_hook(Box::new(|info| {
        let msg = if let Some(s) = info.payload().downcast_ref::<&str>() { s.to_string() } else if let Some(s) = info.payload().downcast_ref::<String>() { s.clone() } else { "<non-string panic>".to_string() };
        let loc = info.location().map(|l| format!("{}:{}:{}", l.file(), l.line(), l.column())).unwrap_or_default();
        let mut g = LAST.lock().unwrap();
        if g.is_none() { *g = Some((msg, loc)); }
    }));
    let r = panic::catch_unwind(move || { let mut s = NativeSrc::new(vals); f(&mut s); });
    let profile = if cfg!(debug_assertions) { "dev" } else { "release" };
    match r {
        Ok(()) => println!("{{\"harness\":\"{}\",\"profile\":\"{}\",\"outcome\":\"pass\"}}", name, profile),
        Err(_) => {
            let (msg, loc) = LAST.lock().unwrap().clone().unwrap_or_default();
            let outcome = if msg.starts_with(ASSUME_VIOLATED) { "assume_violated" } else if msg.starts_with(OUT_OF_VALUES) { "out_of_values" } else { "panic" };
            println!("{{\"harness\":\"{}\",\"profile\":\"{}\",\"outcome\":\"{}\",\"message\":\"{}\",\"location\":\"{}\"}}", name, profile, outcome, esc(&msg), esc(&loc));
        }
    }
}
