//! Harness crate for solver-based checking of cardano-serialization-lib (engine E1 = Kani/CBMC).
//!
//! Every scenario is an ordinary generic function `fn(&mut impl Src)` that draws its inputs
//! from a `Src`.  Under `cfg(kani)` the source is `KaniSrc` (each draw is `kani::any()`, i.e. a
//! solver variable) and the scenario is wrapped in a `#[kani::proof]`; natively the source is
//! `NativeSrc`, which replays the byte vectors printed by Kani's concrete playback, so that the
//! *same* scenario code re-executes a counterexample against the real library (bin `replay`).
#![allow(unused, deprecated)]
extern crate alloc;
pub use cardano_serialization_lib as csl;

pub trait Src {
    fn u8(&mut self) -> u8;
    fn u16(&mut self) -> u16;
    fn u32(&mut self) -> u32;
    fn u64(&mut self) -> u64;
    fn bool(&mut self) -> bool;
    /// Constrain the inputs. Natively a violated assumption aborts the replay as "not a valid
    /// counterexample".
    fn assume(&mut self, c: bool);
    fn bytes<const N: usize>(&mut self) -> [u8; N] {
        let mut a = [0u8; N];
        let mut i = 0;
        while i < N {
            a[i] = self.u8();
            i += 1;
        }
        a
    }
    fn below(&mut self, n: u64) -> u64 {
        let v = self.u64();
        self.assume(v < n);
        v
    }
}

#[cfg(kani)]
pub struct KaniSrc;
#[cfg(kani)]
impl Src for KaniSrc {
    #[inline(always)]
    fn u8(&mut self) -> u8 { kani::any() }
    #[inline(always)]
    fn u16(&mut self) -> u16 { kani::any() }
    #[inline(always)]
    fn u32(&mut self) -> u32 { kani::any() }
    #[inline(always)]
    fn u64(&mut self) -> u64 { kani::any() }
    #[inline(always)]
    fn bool(&mut self) -> bool { kani::any() }
    #[inline(always)]
    fn assume(&mut self, c: bool) { kani::assume(c) }
    #[inline(always)]
    fn bytes<const N: usize>(&mut self) -> [u8; N] { kani::any() }
}

pub const ASSUME_VIOLATED: &str = "VERIF_ASSUMPTION_VIOLATED";
pub const OUT_OF_VALUES: &str = "VERIF_OUT_OF_VALUES";

pub struct NativeSrc {
    pub vals: Vec<Vec<u8>>,
    pub pos: usize,
}
impl NativeSrc {
    pub fn new(vals: Vec<Vec<u8>>) -> Self { NativeSrc { vals, pos: 0 } }
    fn take(&mut self, n: usize) -> u64 {
        if self.pos >= self.vals.len() { panic!("{}", OUT_OF_VALUES); }
        let v = &self.vals[self.pos];
        self.pos += 1;
        if v.len() != n { panic!("{}: width {} != {}", OUT_OF_VALUES, v.len(), n); }
        let mut r = 0u64;
        for (i, b) in v.iter().enumerate() { r |= (*b as u64) << (8 * i); }
        r
    }
}
impl Src for NativeSrc {
    fn u8(&mut self) -> u8 { self.take(1) as u8 }
    fn u16(&mut self) -> u16 { self.take(2) as u16 }
    fn u32(&mut self) -> u32 { self.take(4) as u32 }
    fn u64(&mut self) -> u64 { self.take(8) }
    fn bool(&mut self) -> bool { self.take(1) != 0 }
    fn assume(&mut self, c: bool) { if !c { panic!("{}", ASSUME_VIOLATED); } }
}

#[cfg(kani)]
pub fn fmt_stub(_args: core::fmt::Arguments<'_>) -> alloc::string::String {
    alloc::string::String::new()
}

/// Stub for harnesses whose inputs exclude the Byron header nibble (0b1000): reaching the Byron parser is
/// then a harness error and is reported as a failed assertion, never silently assumed away.
#[cfg(kani)]
pub fn byron_from_bytes_unreachable(_b: Vec<u8>) -> Result<csl::ByronAddress, csl::JsError> {
    panic!("Byron parser reached although the harness excludes Byron headers")
}

/// Vacuity witness: under Kani a `cover!`, natively a no-op.
#[macro_export]
macro_rules! vcover {
    ($c:expr, $m:literal) => {
        #[cfg(kani)]
        kani::cover!($c, $m);
    };
}

/// Forget a heap-owning value (drop glue of error values multiplies symex cost 4-10x).
#[inline(always)]
pub fn fg<T>(t: T) { core::mem::forget(t) }

pub type NativeFn = fn(&mut NativeSrc);

/// Declares harnesses: for each entry a `#[kani::proof]` (format! stubbed unless `nostub`) and an
/// entry in the native replay registry.
macro_rules! harnesses {
    ($( $name:ident [ $kind:ident $unwind:literal ] => $f:path ; )*) => {
        $( harnesses!(@one $name $kind $unwind $f); )*
        #[cfg(not(kani))]
        pub const REGISTRY: &[(&str, NativeFn)] = &[ $( (stringify!($name), $f as NativeFn), )* ];
    };
    (@one $name:ident stub $unwind:literal $f:path) => {
        #[cfg(kani)]
        #[kani::proof]
        #[kani::unwind($unwind)]
        #[kani::stub(alloc::fmt::format, crate::fmt_stub)]
        pub fn $name() { let mut s = KaniSrc; $f(&mut s); }
    };
    (@one $name:ident native $unwind:literal $f:path) => {};
    (@one $name:ident stubbyron $unwind:literal $f:path) => {
        #[cfg(kani)]
        #[kani::proof]
        #[kani::unwind($unwind)]
        #[kani::stub(alloc::fmt::format, crate::fmt_stub)]
        #[kani::stub(cardano_serialization_lib::ByronAddress::from_bytes, crate::byron_from_bytes_unreachable)]
        pub fn $name() { let mut s = KaniSrc; $f(&mut s); }
    };
    (@one $name:ident nostub $unwind:literal $f:path) => {
        #[cfg(kani)]
        #[kani::proof]
        #[kani::unwind($unwind)]
        pub fn $name() { let mut s = KaniSrc; $f(&mut s); }
    };
}

pub mod refcbor;
pub mod refcbor_dec;
pub mod common;
pub mod c03;
pub mod c04;
pub mod wellformed;
pub mod c11;
pub mod c02k;
pub mod c14;
#[cfg(not(kani))]
pub mod e2n;
#[cfg(not(kani))]
pub mod battery;
#[cfg(not(kani))]
pub mod c02;
#[cfg(not(kani))]
pub mod c03n;

harnesses! {
    c04_datum_prefix_5 [stub 8] => c04::datum_prefix_5;
    c04_datum_prefix_7 [stub 10] => c04::datum_prefix_7;
    c03_tx_input [stub 5] => c03::tx_input;
    c03_value_ada [stub 5] => c03::value_ada;
    c03_value_1x2 [stub 5] => c03::value_1x2;
    c03_value_2x1 [stub 5] => c03::value_2x1;
    c03_output_legacy [stub 5] => c03::output_legacy;
    c03_output_legacy_datahash [stub 5] => c03::output_legacy_datahash;
    c03_output_inline_datum [stub 5] => c03::output_inline_datum;
    c03_output_script_ref_and_datahash [stub 5] => c03::output_script_ref_and_datahash;
    c03_small_structs [stub 5] => c03::small_structs;
    c03_cert_stake_reg_dereg [stub 5] => c03::cert_stake_reg_dereg;
    c03_cert_delegations [stub 5] => c03::cert_delegations;
    c03_cert_votes [stub 5] => c03::cert_votes;
    c03_cert_governance [stub 5] => c03::cert_governance;
    c03_withdrawals_and_mint [stub 5] => c03::withdrawals_and_mint;
    c03_redeemer_enc [stub 5] => c03::redeemer_enc;
    c03_size_bounds [stub 5] => c03::size_bounds;
    e2n_min_fee_for_size [native 0] => e2n::min_fee_for_size;
    e2n_ex_units_cost [native 0] => e2n::ex_units_cost;
    e2n_ref_script_fee [native 0] => e2n::ref_script_fee;
    e2n_script_fee [native 0] => e2n::script_fee;
    e2n_c20_tables [native 0] => e2n::c20_tables;
    e2n_c05_gate [native 0] => e2n::c05_gate;
    e2n_c07_min_ada [native 0] => e2n::c07_min_ada;
    e2n_c19_collateral [native 0] => e2n::c19_collateral;
    e2n_bigint_narrowing [native 0] => e2n::bigint_narrowing;
    e2n_bigint_form [native 0] => e2n::bigint_form;
    e2n_c03_struct_forms [native 0] => c03n::c03_struct_forms;
    e2n_c03_change_zero_quantities [native 0] => battery::c03_change_zero_quantities;
    e2n_value_compare [native 0] => e2n::value_compare;
    e2n_c11_byron_attributes [native 0] => e2n::c11_byron_attributes;
    e2n_c11_varnat [native 0] => e2n::c11_varnat;
    e2n_value_arith [native 0] => e2n::value_arith;
    e2n_c14_mint_builder_range [native 0] => e2n::c14_mint_builder_range;
    e2n_c14_decimal_strings [native 0] => e2n::c14_decimal_strings;
    e2n_c18_cert_signers [native 0] => e2n::c18_cert_signers;
    e2n_builder_battery [native 0] => battery::builder_battery;
    e2n_c09_battery [native 0] => battery::c09_battery;
    e2n_c09_aux_battery [native 0] => battery::c09_aux_battery;
    e2n_c09_ref_script_languages [native 0] => battery::c09_ref_script_languages;
    e2n_c10_pointers [native 0] => battery::c10_pointers;
    e2n_c01_struct_roundtrip [native 0] => battery::c01_battery;
    e2n_c01_plutus_variants [native 0] => battery::c01_plutus_variants;
    e2n_c04_fixed_tx [native 0] => battery::c04_fixed_tx;
    e2n_c13_send_all [native 0] => battery::c13_send_all;
    e2n_c13_spend_all [native 0] => battery::c13_spend_all;
    e2n_c16_sets [native 0] => battery::c16_sets;
    e2n_c18_declared_signers [native 0] => battery::c18_declared_signers;
    e2n_c18_ref_inputs [native 0] => battery::c18_ref_inputs;
    e2n_c18_shared_keys [native 0] => battery::c18_shared_keys;
    e2n_c18_many_signers [native 0] => battery::c18_many_signers;
    e2n_c07_add_output [native 0] => battery::c07_add_output;
    e2n_c07_change_min_ada [native 0] => battery::c07_change_min_ada;
    e2n_c05_change_step [native 0] => battery::c05_change_step;
    e2n_c06_change_fee_widths [native 0] => battery::c06_change_fee_widths;
    e2n_c06_ref_script_sizes [native 0] => battery::c06_ref_script_sizes;
    e2n_c16_hash_eq [native 0] => battery::c16_hash_eq;
    e2n_c16_ord_eq [native 0] => battery::c16_ord_eq;
    e2n_c08_first_input_fee [native 0] => battery::c08_first_input_fee;
    e2n_c19_return_min_ada [native 0] => battery::c19_return_min_ada;
    e2n_c16_repeat_build [native 0] => battery::c16_repeat_build;
    e2n_c08_largest_first [native 0] => battery::c08_largest_first;
    e2n_c08_random_improve [native 0] => battery::c08_random_improve;
    e2n_c19_helper_failed [native 0] => battery::c19_helper_failed;
    e2n_c02_decode [native 0] => c02::c02_decode;
    e2n_c02_accepts [native 0] => c02::c02_accepts;
    e2n_c02_reser [native 0] => c02::c02_reser;
    e2n_c02_lenient [native 0] => c02::c02_lenient;
    e2n_c02_lenient_probe [native 0] => c02::c02_lenient_probe;
    e2n_c02_battery [native 0] => c02::c02_battery;
    e2n_c02_wrappers [native 0] => c02::c02_wrappers;
    e2n_c02_text_battery [native 0] => c02::c02_text_battery;
    e2n_c02_text [native 0] => c02::c02_text;
    c02_hash_from_bytes [stub 36] => c02k::hash_from_bytes;
    c11_enc_base [stub 4] => c11::enc_base;
    c11_enc_enterprise [stub 4] => c11::enc_enterprise;
    c11_enc_reward [stub 4] => c11::enc_reward;
    c11_rt_base [stubbyron 4] => c11::rt_base;
    c11_rt_enterprise [stubbyron 4] => c11::rt_enterprise;
    c11_rt_reward [stubbyron 4] => c11::rt_reward;
    c11_pointer_enc_slot [stub 12] => c11::pointer_enc_slot;
    c11_pointer_enc_tx [stub 12] => c11::pointer_enc_tx;
    c11_pointer_enc_cert [stub 12] => c11::pointer_enc_cert;
    c11_ref_varnat_inverse [stub 12] => c11::ref_varnat_inverse;
    c11_strict_parse_ptr_long [stubbyron 14] => c11::strict_parse_ptr_long;
    c11_strict_parse_short [stubbyron 8] => c11::strict_parse_short;
    c11_strict_parse_base [stubbyron 4] => c11::strict_parse_base;
    c11_embedded_verbatim_short [stubbyron 36] => c11::embedded_verbatim_short;
    c14_bignum_arith [stub 3] => c14::bignum_arith;
    c14_bignum_encode [stub 12] => c14::bignum_encode;
    c14_bignum_decode [stub 12] => c14::bignum_decode;
    c14_int_ctor_access [stub 3] => c14::int_ctor_access;
    c14_int_encode [stub 12] => c14::int_encode;
    c14_int_decode [stub 12] => c14::int_decode;
    c14_int_decode_fixed [stub 9] => c14::int_decode_fixed;
    c14_bigint_min_i64_concrete [stub 3] => c14::bigint_min_i64_concrete;
}
