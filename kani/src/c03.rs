//! C03 (CDDL conformance, differential vs the reference encoder) and the encode half of C01.
//! Every scenario builds a value of a concrete SHAPE through public constructors with symbolic leaves and compares
//! `to_bytes()` with bytes written by refcbor (RFC 8949 + Conway CDDL keys/arities/tags), which shares no code with CSL.
use crate::common::*;
use crate::csl::*;
use crate::refcbor::Buf;
use crate::{fg, Src};

fn ref_cred(r: &mut Buf, is_script: bool, h: &[u8; 28]) { r.array(2); r.uint(is_script as u64); r.bytes(h); }
fn ent(b: &[u8; 28]) -> (Address, [u8; 29]) {
    let mut raw = [0u8; 29];
    raw[0] = 0x60;
    raw[1..].copy_from_slice(b);
    (EnterpriseAddress::new(0, &cred(false, *b)).to_address(), raw)
}

pub fn tx_input<S: Src>(s: &mut S) {
    let h: [u8; 32] = s.bytes();
    let i = s.u32();
    let v = TransactionInput::new(&TransactionHash::from(h), i).to_bytes();
    let mut r = Buf::new();
    r.array(2); r.bytes(&h); r.uint(i as u64);
    assert!(r.eq_vec(&v));
    vcover!(i >= 65536, "index in the 5-byte class");
}

pub fn value_ada<S: Src>(s: &mut S) {
    let c = s.u64();
    let v = Value::new(&BigNum::from(c)).to_bytes();
    let mut r = Buf::new();
    r.uint(c);
    assert!(r.eq_vec(&v));
    // an empty bundle is written as absent
    let mut e = Value::new(&BigNum::from(c));
    e.set_multiasset(&MultiAsset::new());
    let v2 = e.to_bytes();
    assert!(r.eq_vec(&v2));
}

/// coin + one policy + two asset names of lengths 1 and 2 (canonical key order: shorter name first), inserted in
/// BOTH orders; all amounts over all u64
pub fn value_1x2<S: Src>(s: &mut S) {
    let c = s.u64();
    let p: [u8; 28] = s.bytes();
    let (n1, n2a, n2b) = (s.u8(), s.u8(), s.u8());
    let (a1, a2) = (s.u64(), s.u64());
    let first_long = s.bool();
    let name1 = AssetName::new([n1].to_vec()).unwrap();
    let name2 = AssetName::new([n2a, n2b].to_vec()).unwrap();
    let mut assets = Assets::new();
    if first_long { assets.insert(&name2, &BigNum::from(a2)); assets.insert(&name1, &BigNum::from(a1)); }
    else { assets.insert(&name1, &BigNum::from(a1)); assets.insert(&name2, &BigNum::from(a2)); }
    let mut ma = MultiAsset::new();
    ma.insert(&ScriptHash::from(p), &assets);
    let v = Value::new_with_assets(&BigNum::from(c), &ma).to_bytes();
    let mut r = Buf::new();
    r.array(2); r.uint(c); r.map(1); r.bytes(&p); r.map(2);
    r.bytes(&[n1]); r.uint(a1); r.bytes(&[n2a, n2b]); r.uint(a2);
    assert!(r.eq_vec(&v));
    vcover!(first_long && a1 > 0xffff_ffff, "long name inserted first");
}

/// two policies whose first byte is symbolic (rest fixed): canonical order is bytewise, whatever the insertion order
pub fn value_2x1<S: Src>(s: &mut S) {
    let c = s.u64();
    let (b0, b1) = (s.u8(), s.u8());
    s.assume(b0 != b1);
    let (a0, a1) = (s.u64(), s.u64());
    let (mut p0, mut p1) = ([7u8; 28], [7u8; 28]);
    p0[0] = b0; p1[0] = b1;
    let name = AssetName::new([1u8, 2, 3].to_vec()).unwrap();
    let mut ma = MultiAsset::new();
    ma.set_asset(&ScriptHash::from(p0), &name, &BigNum::from(a0));
    ma.set_asset(&ScriptHash::from(p1), &name, &BigNum::from(a1));
    let v = Value::new_with_assets(&BigNum::from(c), &ma).to_bytes();
    let mut r = Buf::new();
    r.array(2); r.uint(c); r.map(2);
    let (fp, fa, sp, sa) = if b0 < b1 { (&p0, a0, &p1, a1) } else { (&p1, a1, &p0, a0) };
    r.bytes(fp); r.map(1); r.bytes(&[1, 2, 3]); r.uint(fa);
    r.bytes(sp); r.map(1); r.bytes(&[1, 2, 3]); r.uint(sa);
    assert!(r.eq_vec(&v));
    vcover!(b0 > b1, "inserted in non-canonical order");
}

pub fn output_legacy<S: Src>(s: &mut S) {
    let h: [u8; 28] = s.bytes();
    let c = s.u64();
    let (a, raw) = ent(&h);
    let o = TransactionOutput::new(&a, &Value::new(&BigNum::from(c)));
    let v = o.to_bytes();
    let mut r = Buf::new();
    r.array(2); r.bytes(&raw); r.uint(c);
    assert!(r.eq_vec(&v));
    // size lemma used by C07 (E2): len = K + head(coin), K independent of the coin
    assert!(v.len() == 32 + crate::refcbor::head_len(c));
    vcover!(c >= 0x1_0000_0000, "9-byte coin");
    fg(o);
}

pub fn output_legacy_datahash<S: Src>(s: &mut S) {
    let h: [u8; 28] = s.bytes();
    let d: [u8; 32] = s.bytes();
    let c = s.u64();
    let (a, raw) = ent(&h);
    let mut o = TransactionOutput::new(&a, &Value::new(&BigNum::from(c)));
    o.set_data_hash(&DataHash::from(d));
    let v = o.to_bytes();
    let mut r = Buf::new();
    r.array(3); r.bytes(&raw); r.uint(c); r.bytes(&d);
    assert!(r.eq_vec(&v));
    assert!(v.len() == 66 + crate::refcbor::head_len(c));
    fg(o);
}

pub fn output_inline_datum<S: Src>(s: &mut S) {
    let h: [u8; 28] = s.bytes();
    let d: [u8; 3] = s.bytes();
    let c = s.u64();
    let (a, raw) = ent(&h);
    let mut o = TransactionOutput::new(&a, &Value::new(&BigNum::from(c)));
    o.set_plutus_data(&PlutusData::new_bytes(d.to_vec()));
    let v = o.to_bytes();
    let mut r = Buf::new();
    r.map(3); r.uint(0); r.bytes(&raw); r.uint(1); r.uint(c);
    r.uint(2); r.array(2); r.uint(1); r.tag(24); r.bytes_head(4); r.bytes(&d);
    assert!(r.eq_vec(&v));
    fg(o);
}

pub fn output_script_ref_and_datahash<S: Src>(s: &mut S) {
    let h: [u8; 28] = s.bytes();
    let k: [u8; 28] = s.bytes();
    let d: [u8; 32] = s.bytes();
    let c = s.u64();
    let (a, raw) = ent(&h);
    let mut o = TransactionOutput::new(&a, &Value::new(&BigNum::from(c)));
    o.set_data_hash(&DataHash::from(d));
    o.set_script_ref(&ScriptRef::new_native_script(&NativeScript::new_script_pubkey(&ScriptPubkey::new(&Ed25519KeyHash::from(k)))));
    let v = o.to_bytes();
    let mut r = Buf::new();
    r.map(4); r.uint(0); r.bytes(&raw); r.uint(1); r.uint(c);
    r.uint(2); r.array(2); r.uint(0); r.bytes(&d);
    r.uint(3); r.tag(24); r.bytes_head(35); r.array(2); r.uint(0); r.array(2); r.uint(0); r.bytes(&k);
    assert!(r.eq_vec(&v));
    fg(o);
}

pub fn small_structs<S: Src>(s: &mut S) {
    let (n, d) = (s.u64(), s.u64());
    let ui = UnitInterval::new(&BigNum::from(n), &BigNum::from(d));
    let mut r = Buf::new();
    r.tag(30); r.array(2); r.uint(n); r.uint(d);
    assert!(r.eq_vec(&ui.to_bytes()));
    let ex = ExUnits::new(&BigNum::from(n), &BigNum::from(d));
    let mut r = Buf::new();
    r.array(2); r.uint(n); r.uint(d);
    assert!(r.eq_vec(&ex.to_bytes()));
    let (a, b) = (s.u32(), s.u32());
    let pv = ProtocolVersion::new(a, b);
    let mut r = Buf::new();
    r.array(2); r.uint(a as u64); r.uint(b as u64);
    assert!(r.eq_vec(&pv.to_bytes()));
    let pr = ExUnitPrices::new(&ui, &UnitInterval::new(&BigNum::from(d), &BigNum::from(n)));
    let mut r = Buf::new();
    r.array(2); r.tag(30); r.array(2); r.uint(n); r.uint(d); r.tag(30); r.array(2); r.uint(d); r.uint(n);
    assert!(r.eq_vec(&pr.to_bytes()));
}

// ---------------------------------------------------------------- certificates (Conway indices and arities)
fn cert_common<S: Src>(s: &mut S) -> (bool, [u8; 28], [u8; 28], u64) { (s.bool(), s.bytes(), s.bytes(), s.u64()) }

pub fn cert_stake_reg_dereg<S: Src>(s: &mut S) {
    let (sc, h, _p, c) = cert_common(s);
    let cr = cred(sc, h);
    let mut r = Buf::new();
    r.array(2); r.uint(0); ref_cred(&mut r, sc, &h);
    assert!(r.eq_vec(&Certificate::new_stake_registration(&StakeRegistration::new(&cr)).to_bytes()));
    let mut r = Buf::new();
    r.array(3); r.uint(7); ref_cred(&mut r, sc, &h); r.uint(c);
    assert!(r.eq_vec(&Certificate::new_stake_registration(&StakeRegistration::new_with_explicit_deposit(&cr, &BigNum::from(c))).to_bytes()));
    let mut r = Buf::new();
    r.array(2); r.uint(1); ref_cred(&mut r, sc, &h);
    assert!(r.eq_vec(&Certificate::new_stake_deregistration(&StakeDeregistration::new(&cr)).to_bytes()));
    let mut r = Buf::new();
    r.array(3); r.uint(8); ref_cred(&mut r, sc, &h); r.uint(c);
    assert!(r.eq_vec(&Certificate::new_stake_deregistration(&StakeDeregistration::new_with_explicit_refund(&cr, &BigNum::from(c))).to_bytes()));
}

pub fn cert_delegations<S: Src>(s: &mut S) {
    let (sc, h, p, c) = cert_common(s);
    let cr = cred(sc, h);
    let pool = Ed25519KeyHash::from(p);
    let mut r = Buf::new();
    r.array(3); r.uint(2); ref_cred(&mut r, sc, &h); r.bytes(&p);
    assert!(r.eq_vec(&Certificate::new_stake_delegation(&StakeDelegation::new(&cr, &pool)).to_bytes()));
    let mut r = Buf::new();
    r.array(4); r.uint(11); ref_cred(&mut r, sc, &h); r.bytes(&p); r.uint(c);
    assert!(r.eq_vec(&Certificate::new_stake_registration_and_delegation(&StakeRegistrationAndDelegation::new(&cr, &pool, &BigNum::from(c))).to_bytes()));
    let e = s.u32();
    let mut r = Buf::new();
    r.array(3); r.uint(4); r.bytes(&p); r.uint(e as u64);
    assert!(r.eq_vec(&Certificate::new_pool_retirement(&PoolRetirement::new(&pool, e)).to_bytes()));
}

pub fn cert_votes<S: Src>(s: &mut S) {
    let (sc, h, p, c) = cert_common(s);
    let cr = cred(sc, h);
    let pool = Ed25519KeyHash::from(p);
    let dk = s.u8();
    s.assume(dk < 4);
    let dh: [u8; 28] = s.bytes();
    let drep = match dk { 0 => DRep::new_key_hash(&Ed25519KeyHash::from(dh)), 1 => DRep::new_script_hash(&ScriptHash::from(dh)), 2 => DRep::new_always_abstain(), _ => DRep::new_always_no_confidence() };
    let ref_drep = |r: &mut Buf| { if dk < 2 { r.array(2); r.uint(dk as u64); r.bytes(&dh); } else { r.array(1); r.uint(dk as u64); } };
    let mut r = Buf::new();
    r.array(3); r.uint(9); ref_cred(&mut r, sc, &h); ref_drep(&mut r);
    assert!(r.eq_vec(&Certificate::new_vote_delegation(&VoteDelegation::new(&cr, &drep)).to_bytes()));
    let mut r = Buf::new();
    r.array(4); r.uint(10); ref_cred(&mut r, sc, &h); r.bytes(&p); ref_drep(&mut r);
    assert!(r.eq_vec(&Certificate::new_stake_and_vote_delegation(&StakeAndVoteDelegation::new(&cr, &pool, &drep)).to_bytes()));
    let mut r = Buf::new();
    r.array(4); r.uint(12); ref_cred(&mut r, sc, &h); ref_drep(&mut r); r.uint(c);
    assert!(r.eq_vec(&Certificate::new_vote_registration_and_delegation(&VoteRegistrationAndDelegation::new(&cr, &drep, &BigNum::from(c))).to_bytes()));
    let mut r = Buf::new();
    r.array(5); r.uint(13); ref_cred(&mut r, sc, &h); r.bytes(&p); ref_drep(&mut r); r.uint(c);
    assert!(r.eq_vec(&Certificate::new_stake_vote_registration_and_delegation(&StakeVoteRegistrationAndDelegation::new(&cr, &pool, &drep, &BigNum::from(c))).to_bytes()));
    vcover!(dk == 3, "always-no-confidence drep");
}

pub fn cert_governance<S: Src>(s: &mut S) {
    let (sc, h, p, c) = cert_common(s);
    let cr = cred(sc, h);
    let hot = cred(!sc, p);
    let mut r = Buf::new();
    r.array(3); r.uint(14); ref_cred(&mut r, sc, &h); ref_cred(&mut r, !sc, &p);
    assert!(r.eq_vec(&Certificate::new_committee_hot_auth(&CommitteeHotAuth::new(&cr, &hot)).to_bytes()));
    let mut r = Buf::new();
    r.array(3); r.uint(15); ref_cred(&mut r, sc, &h); r.null();
    assert!(r.eq_vec(&Certificate::new_committee_cold_resign(&CommitteeColdResign::new(&cr)).to_bytes()));
    let mut r = Buf::new();
    r.array(4); r.uint(16); ref_cred(&mut r, sc, &h); r.uint(c); r.null();
    assert!(r.eq_vec(&Certificate::new_drep_registration(&DRepRegistration::new(&cr, &BigNum::from(c))).to_bytes()));
    let mut r = Buf::new();
    r.array(3); r.uint(17); ref_cred(&mut r, sc, &h); r.uint(c);
    assert!(r.eq_vec(&Certificate::new_drep_deregistration(&DRepDeregistration::new(&cr, &BigNum::from(c))).to_bytes()));
    let mut r = Buf::new();
    r.array(3); r.uint(18); ref_cred(&mut r, sc, &h); r.null();
    assert!(r.eq_vec(&Certificate::new_drep_update(&DRepUpdate::new(&cr)).to_bytes()));
}

pub fn withdrawals_and_mint<S: Src>(s: &mut S) {
    let (h1, h2): ([u8; 28], [u8; 28]) = (s.bytes(), s.bytes());
    s.assume(h1[0] != h2[0]);
    let (c1, c2) = (s.u64(), s.u64());
    let mut w = Withdrawals::new();
    w.insert(&RewardAddress::new(1, &cred(false, h1)), &BigNum::from(c1));
    w.insert(&RewardAddress::new(1, &cred(true, h2)), &BigNum::from(c2));
    let mut r = Buf::new();
    r.map(2);
    r.bytes_head(29); r.put(0xe1); r.raw(&h1); r.uint(c1);
    r.bytes_head(29); r.put(0xf1); r.raw(&h2); r.uint(c2);
    assert!(r.eq_vec(&w.to_bytes()));
    // mint: one policy, one asset, signed amount over -(2^64-1)..2^64-1 \ {0}
    let neg = s.bool();
    let a = s.u64();
    s.assume(a != 0);
    let amount = if neg { Int::new_negative(&BigNum::from(a)) } else { Int::new(&BigNum::from(a)) };
    let ma = MintAssets::new_from_entry(&AssetName::new([9u8].to_vec()).unwrap(), &amount).unwrap();
    let m = Mint::new_from_entry(&ScriptHash::from(h1), &ma);
    let mut r = Buf::new();
    r.map(1); r.bytes(&h1); r.map(1); r.bytes(&[9]);
    if neg { r.nint_arg(a - 1) } else { r.uint(a) }
    assert!(r.eq_vec(&m.to_bytes()));
    vcover!(neg && a > (1u64 << 63), "burn beyond i64");
}

pub fn redeemer_enc<S: Src>(s: &mut S) {
    let tag = s.u8();
    s.assume(tag < 6);
    let (idx, mem, steps) = (s.u64(), s.u64(), s.u64());
    let d: [u8; 2] = s.bytes();
    let t = match tag { 0 => RedeemerTag::new_spend(), 1 => RedeemerTag::new_mint(), 2 => RedeemerTag::new_cert(), 3 => RedeemerTag::new_reward(), 4 => RedeemerTag::new_vote(), _ => RedeemerTag::new_voting_proposal() };
    let rd = Redeemer::new(&t, &BigNum::from(idx), &PlutusData::new_bytes(d.to_vec()), &ExUnits::new(&BigNum::from(mem), &BigNum::from(steps)));
    let mut r = Buf::new();
    r.array(4); r.uint(tag as u64); r.uint(idx); r.bytes(&d); r.array(2); r.uint(mem); r.uint(steps);
    assert!(r.eq_vec(&rd.to_bytes()));
    fg(rd);
}

/// validating constructors accept exactly the CDDL size bounds
pub fn size_bounds<S: Src>(s: &mut S) {
    let buf: [u8; 34] = s.bytes();
    let len = s.below(35) as usize;
    let r = AssetName::new(vec_upto(&buf, len));
    assert!(r.is_ok() == (len <= 32));
    fg(r);
    let ip4 = Ipv4::new(vec_upto(&buf, len));
    assert!(ip4.is_ok() == (len == 4));
    fg(ip4);
    let ip6 = Ipv6::new(vec_upto(&buf, len));
    assert!(ip6.is_ok() == (len == 16));
    fg(ip6);
    vcover!(len == 33, "33-byte asset name rejected");
}
