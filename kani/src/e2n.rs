//! Native confirmation of E2 (mir2smt) counterexamples: each scenario takes the model's concrete values,
//! calls the real public function and compares with an independent exact computation (num-bigint / u128).
//! These are never Kani proofs; they are the "replay before reporting" step of engine E2.
use crate::csl::*;
use crate::Src;
use num_bigint::BigInt as NB;
use num_integer::Integer;
use num_traits::{One, ToPrimitive, Zero};

fn ui(n: u64, d: u64) -> UnitInterval { UnitInterval::new(&BigNum::from(n), &BigNum::from(d)) }

pub fn min_fee_for_size<S: Src>(s: &mut S) {
    let (size, a, b) = (s.u64(), s.u64(), s.u64());
    let lf = LinearFee::new(&BigNum::from(a), &BigNum::from(b));
    let r = crate::csl::min_fee_for_size(size as usize, &lf);
    let exact = (a as u128) * (size as u128) + b as u128;
    match r {
        Ok(v) => assert!(exact <= u64::MAX as u128 && u64::from(v) as u128 == exact),
        Err(_) => assert!(exact > u64::MAX as u128),
    }
}

pub fn ex_units_cost<S: Src>(s: &mut S) {
    let (mem, steps, n1, d1, n2, d2) = (s.u64(), s.u64(), s.u64(), s.u64(), s.u64(), s.u64());
    s.assume(d1 > 0 && d2 > 0);
    let r = calculate_ex_units_ceil_cost(&ExUnits::new(&BigNum::from(mem), &BigNum::from(steps)), &ExUnitPrices::new(&ui(n1, d1), &ui(n2, d2)));
    let num = NB::from(mem) * NB::from(n1) * NB::from(d2) + NB::from(steps) * NB::from(n2) * NB::from(d1);
    let den = NB::from(d1) * NB::from(d2);
    let exact = Integer::div_ceil(&num, &den);
    match r {
        Ok(v) => assert!(exact.to_u64() == Some(u64::from(v))),
        Err(_) => assert!(exact.to_u64().is_none()),
    }
}

pub fn ref_script_fee<S: Src>(s: &mut S) {
    let (size, pa, pb) = (s.u64(), s.u64(), s.u64());
    s.assume(pb > 0);
    let r = min_ref_script_fee(size as usize, &ui(pa, pb));
    // ledger recursion, tier by tier, in exact rationals num/den
    let (mut num, mut den) = (NB::zero(), NB::one());
    let (mut pn, mut pd) = (NB::from(pa), NB::from(pb));     // current per-byte price
    let mut left = size;
    loop {
        let chunk = if left >= 25_600 { 25_600 } else { left };
        // acc += chunk * price
        num = num * &pd + NB::from(chunk) * &pn * &den;
        den = den * &pd;
        left -= chunk;
        if left == 0 { break; }
        pn = pn * 6; pd = pd * 5;
    }
    let exact = Integer::div_floor(&num, &den);
    match r {
        Ok(v) => assert!(exact.to_u64() == Some(u64::from(v))),
        Err(_) => assert!(exact.to_u64().is_none()),
    }
}

// ---------------------------------------------------------------- C20: deposits / refunds
fn ckh(b: u8) -> Ed25519KeyHash { Ed25519KeyHash::from([b; 28]) }
fn ccred(b: u8) -> Credential { Credential::from_keyhash(&ckh(b)) }
fn cdrep(b: u8) -> DRep { DRep::new_key_hash(&ckh(b)) }

/// certificate of shape `sh` (same numbering as mir2smt/obl/c20.py) and the ledger's (deposit, refund) for it
pub fn c20_cert(sh: u8, coin: u64, key: u64, pool: u64, b: u8) -> (Certificate, u128, u128) {
    let c = BigNum::from(coin);
    let (k, p, cc) = (key as u128, pool as u128, coin as u128);
    match sh {
        0 => (Certificate::new_stake_registration(&StakeRegistration::new(&ccred(b))), k, 0),
        1 => (Certificate::new_stake_registration(&StakeRegistration::new_with_explicit_deposit(&ccred(b), &c)), cc, 0),
        2 => (Certificate::new_stake_deregistration(&StakeDeregistration::new(&ccred(b))), 0, k),
        3 => (Certificate::new_stake_deregistration(&StakeDeregistration::new_with_explicit_refund(&ccred(b), &c)), 0, cc),
        4 => (Certificate::new_stake_delegation(&StakeDelegation::new(&ccred(b), &ckh(b))), 0, 0),
        5 => {
            let pp = PoolParams::new(&ckh(b), &VRFKeyHash::from([b; 32]), &BigNum::from(1u64), &BigNum::from(2u64),
                &UnitInterval::new(&BigNum::from(1u64), &BigNum::from(2u64)), &RewardAddress::new(0, &ccred(b)),
                &Ed25519KeyHashes::new(), &Relays::new(), None);
            (Certificate::new_pool_registration(&PoolRegistration::new(&pp)), p, 0)
        }
        6 => (Certificate::new_pool_retirement(&PoolRetirement::new(&ckh(b), 5)), 0, 0),
        7 => (Certificate::new_genesis_key_delegation(&GenesisKeyDelegation::new(&GenesisHash::from([b; 28]), &GenesisDelegateHash::from([b; 28]), &VRFKeyHash::from([b; 32]))), 0, 0),
        8 => (Certificate::new_move_instantaneous_rewards_cert(&MoveInstantaneousRewardsCert::new(&MoveInstantaneousReward::new_to_other_pot(MIRPot::Reserves, &c))), 0, 0),
        9 => (Certificate::new_committee_hot_auth(&CommitteeHotAuth::new(&ccred(b), &ccred(b.wrapping_add(1)))), 0, 0),
        10 => (Certificate::new_committee_cold_resign(&CommitteeColdResign::new(&ccred(b))), 0, 0),
        11 => (Certificate::new_drep_deregistration(&DRepDeregistration::new(&ccred(b), &c)), 0, cc),
        12 => (Certificate::new_drep_registration(&DRepRegistration::new(&ccred(b), &c)), cc, 0),
        13 => (Certificate::new_drep_update(&DRepUpdate::new(&ccred(b))), 0, 0),
        14 => (Certificate::new_stake_and_vote_delegation(&StakeAndVoteDelegation::new(&ccred(b), &ckh(b), &cdrep(b))), 0, 0),
        15 => (Certificate::new_stake_registration_and_delegation(&StakeRegistrationAndDelegation::new(&ccred(b), &ckh(b), &c)), cc, 0),
        16 => (Certificate::new_stake_vote_registration_and_delegation(&StakeVoteRegistrationAndDelegation::new(&ccred(b), &ckh(b), &cdrep(b), &c)), cc, 0),
        17 => (Certificate::new_vote_delegation(&VoteDelegation::new(&ccred(b), &cdrep(b))), 0, 0),
        _ => (Certificate::new_vote_registration_and_delegation(&VoteRegistrationAndDelegation::new(&ccred(b), &cdrep(b), &c)), cc, 0),
    }
}

fn proposal(dep: u64, b: u8) -> VotingProposal {
    let anchor = Anchor::new(&URL::new("https://x.y".to_string()).unwrap(), &AnchorDataHash::from([b; 32]));
    VotingProposal::new(&GovernanceAction::new_info_action(&InfoAction::new()), &anchor, &RewardAddress::new(0, &ccred(b)), &BigNum::from(dep))
}

/// draws: key, pool, n, (shape, coin)*n, nwd, wd*nwd, nprop, prop*nprop.  The certificate list is evaluated twice: with a
/// different credential per certificate, and with ONE credential shared by all of them (refunds and deposits are per certificate)
pub fn c20_tables<S: Src>(s: &mut S) {
    let (key, pool) = (s.u64(), s.u64());
    let n = s.u8();
    s.assume(n <= 4);
    let mut draws: Vec<(u8, u64)> = Vec::new();
    for _ in 0..n { let sh = s.u8(); s.assume(sh <= 18); let coin = s.u64(); draws.push((sh, coin)); }
    let nwd = s.u8();
    s.assume(nwd <= 3);
    let wdraws: Vec<u64> = (0..nwd).map(|_| s.u64()).collect();
    let nprop = s.u8();
    s.assume(nprop <= 2);
    let pdraws: Vec<u64> = (0..nprop).map(|_| s.u64()).collect();
    for shared in [false, true] { c20_tables_eval(key, pool, &draws, &wdraws, &pdraws, shared); }
}

fn c20_tables_eval(key: u64, pool: u64, draws: &[(u8, u64)], wdraws: &[u64], pdraws: &[u64], shared: bool) {
    let (nwd, nprop) = (wdraws.len() as u8, pdraws.len() as u8);
    let mut certs = Certificates::new();
    let mut cb = CertificatesBuilder::new();
    let (mut dep, mut refund) = (0u128, 0u128);
    for (j, (sh, coin)) in draws.iter().enumerate() {
        let (c, d, r) = c20_cert(*sh, *coin, key, pool, if shared { 10 } else { 10 + j as u8 });
        if !certs.add(&c) { continue; }            // the same certificate twice is one certificate (set semantics)
        if cb.add(&c).is_err() { return; }
        dep += d; refund += r;
    }
    let mut wds = Withdrawals::new();
    let mut wb = WithdrawalsBuilder::new();
    let mut wd_sum = 0u128;
    for (j, w) in wdraws.iter().enumerate() {
        let w = *w;
        let j = j as u8;
        wds.insert(&RewardAddress::new(0, &ccred(100 + j)), &BigNum::from(w));
        wb.add(&RewardAddress::new(0, &ccred(100 + j)), &BigNum::from(w)).unwrap();
        wd_sum += w as u128;
    }
    let mut props = VotingProposals::new();
    let mut pb = VotingProposalBuilder::new();
    let mut prop_sum = 0u128;
    for (j, d) in pdraws.iter().enumerate() {
        let d = *d;
        let j = j as u8;
        props.add(&proposal(d, 50 + j));
        pb.add(&proposal(d, 50 + j)).unwrap();
        prop_sum += d as u128;
    }
    let mut body = TransactionBody::new_tx_body(&TransactionInputs::new(), &TransactionOutputs::new(), &BigNum::from(0u64));
    body.set_certs(&certs);
    if nwd > 0 { body.set_withdrawals(&wds); }
    if nprop > 0 { body.set_voting_proposals(&props); }
    let (k, p) = (BigNum::from(key), BigNum::from(pool));
    let max = u64::MAX as u128;
    // stand-alone helpers vs ledger table
    match get_deposit(&body, &p, &k) {
        Ok(v) => assert!(u64::from(v) as u128 == dep + prop_sum, "get_deposit differs from the ledger's deposit"),
        Err(_) => assert!(dep + prop_sum > max, "get_deposit errs although the sum fits"),
    }
    match get_implicit_input(&body, &p, &k) {
        Ok(v) => assert!(u64::from(v.coin()) as u128 == refund + wd_sum && v.multiasset().is_none(), "get_implicit_input differs from withdrawals + in-transaction refunds"),
        Err(_) => assert!(refund + wd_sum > max, "get_implicit_input errs although the sum fits"),
    }
    // the builder's own figures
    let cfg = TransactionBuilderConfigBuilder::new()
        .fee_algo(&LinearFee::new(&BigNum::from(0u64), &BigNum::from(0u64)))
        .pool_deposit(&p).key_deposit(&k).max_value_size(5000).max_tx_size(16384)
        .coins_per_utxo_byte(&BigNum::from(0u64)).build().unwrap();
    let mut tb = TransactionBuilder::new(&cfg);
    tb.set_certs_builder(&cb);
    if nwd > 0 { tb.set_withdrawals_builder(&wb); }
    if nprop > 0 { tb.set_voting_proposal_builder(&pb); }
    match tb.get_deposit() {
        Ok(v) => assert!(u64::from(v) as u128 == dep + prop_sum, "TransactionBuilder::get_deposit differs from the ledger's deposit"),
        Err(_) => assert!(dep + prop_sum > max, "TransactionBuilder::get_deposit errs although the sum fits"),
    }
    match tb.get_implicit_input() {
        Ok(v) => assert!(u64::from(v.coin()) as u128 == refund + wd_sum && v.multiasset().is_none(), "TransactionBuilder::get_implicit_input differs from withdrawals + refunds"),
        Err(_) => assert!(refund + wd_sum > max, "TransactionBuilder::get_implicit_input errs although the sum fits"),
    }
    match cb.get_certificates_deposit(&p, &k) {
        Ok(v) => assert!(u64::from(v) as u128 == dep, "get_certificates_deposit differs from the ledger's figure"),
        Err(_) => assert!(dep > max),
    }
    match cb.get_certificates_refund(&p, &k) {
        Ok(v) => assert!(u64::from(v.coin()) as u128 == refund, "get_certificates_refund differs from the ledger's figure"),
        Err(_) => assert!(refund > max),
    }
}

// ---------------------------------------------------------------- C05 / C06: the release gate, through the public API
fn cfg_zero_cost() -> TransactionBuilderConfig {
    TransactionBuilderConfigBuilder::new()
        .fee_algo(&LinearFee::new(&BigNum::from(0u64), &BigNum::from(0u64)))
        .pool_deposit(&BigNum::from(0u64)).key_deposit(&BigNum::from(0u64))
        .max_value_size(5000).max_tx_size(16384)
        .coins_per_utxo_byte(&BigNum::from(0u64))
        .build().unwrap()
}
fn val(coin: u64, q: u64) -> Value {
    let mut v = Value::new(&BigNum::from(coin));
    if q > 0 {
        let mut ma = MultiAsset::new();
        let mut a = Assets::new();
        a.insert(&AssetName::new(vec![1, 2, 3]).unwrap(), &BigNum::from(q));
        ma.insert(&ScriptHash::from([7u8; 28]), &a);
        v.set_multiasset(&ma);
    }
    v
}
fn ent_addr(b: u8) -> Address { EnterpriseAddress::new(0, &ccred(b)).to_address() }

/// draws: in_coin, out_coin, fee, in_q, out_q. One input, one output, fixed fee, zero-cost parameters:
/// build_tx must succeed only if in == out + fee in lovelace and in the asset.
pub fn c05_gate<S: Src>(s: &mut S) {
    let (ic, oc, fee, iq, oq) = (s.u64(), s.u64(), s.u64(), s.u64(), s.u64());
    let mut b = TransactionBuilder::new(&cfg_zero_cost());
    let txin = TransactionInput::new(&TransactionHash::from([1u8; 32]), 0);
    if b.add_regular_input(&ent_addr(1), &txin, &val(ic, iq)).is_err() { s.assume(false); }
    if b.add_output(&TransactionOutput::new(&ent_addr(2), &val(oc, oq))).is_err() { s.assume(false); }
    b.set_fee(&BigNum::from(fee));
    if let Ok(tx) = b.build_tx() {
        let f = u64::from(tx.body().fee());
        assert!(f == fee, "a fixed fee must be used exactly");
        assert!(ic as u128 == oc as u128 + f as u128 && iq == oq, "build_tx released an unbalanced transaction");
    }
}

// ---------------------------------------------------------------- C07: min-ADA bound
fn head_len(v: u64) -> u64 { if v < 24 { 1 } else if v < 0x100 { 2 } else if v < 0x1_0000 { 3 } else if v < 0x1_0000_0000 { 5 } else { 9 } }

/// draws: coin, coins_per_byte, K.  Builds a legacy output whose serialized size is K + head(coin) (an address byte
/// string of the right length, kept verbatim as a malformed address) and checks the min-ADA bound on real bytes.
pub fn c07_min_ada<S: Src>(s: &mut S) {
    let (coin, cpb, k) = (s.u64(), s.u64(), s.u64());
    s.assume(k >= 3 && k <= 70_000);
    // K = 1 (array head) + head(L) + L
    let mut l = None;
    for cand in k.saturating_sub(6)..k { if 1 + head_len(cand) + cand == k { l = Some(cand); } }
    let l = match l { Some(l) => l, None => { s.assume(false); 0 } };
    let addr = vec![0x97u8; l as usize];              // header nibble 0b1001 is no address kind -> malformed, kept verbatim
    let mut bytes = vec![0x82u8];
    let mut r = crate::refcbor::Buf::new();
    r.bytes_head(l); bytes.extend_from_slice(r.as_slice()); bytes.extend_from_slice(&addr);
    bytes.push(0);                                        // coin 0, replaced below
    let mut out = TransactionOutput::from_bytes(bytes).expect("crafted output decodes");
    out = TransactionOutput::new(&out.address(), &Value::new(&BigNum::from(coin)));
    assert!(out.to_bytes().len() as u64 == k + head_len(coin), "size lemma: len == K + head(coin)");
    let dc = DataCost::new_coins_per_byte(&BigNum::from(cpb));
    let widest = (cpb as u128) * (160 + k as u128 + 9);
    match min_ada_for_output(&out, &dc) {
        Ok(c) => {
            let c = u64::from(c);
            let funded = if c > coin { c } else { coin };
            let o2 = TransactionOutput::new(&out.address(), &Value::new(&BigNum::from(funded)));
            let need = (cpb as u128) * (160 + o2.to_bytes().len() as u128);
            assert!(funded as u128 >= need, "output funded with max(c, coin) is below coins_per_byte*(160+size)");
            assert!(c as u128 <= widest, "c exceeds the bound at the widest coin encoding");
        }
        Err(_) => assert!(widest > u64::MAX as u128, "min_ada_for_output errs although the widest bound fits u64"),
    }
}

/// draws: n, (mem, steps)*n, n1, d1, n2, d2 — script fee of a transaction with n redeemers vs the ledger definition
pub fn script_fee<S: Src>(s: &mut S) {
    let n = s.u8();
    s.assume(n <= 6);
    let mut reds = Redeemers::new();
    let (mut m, mut st) = (NB::zero(), NB::zero());
    for i in 0..n {
        let (a, b) = (s.u64(), s.u64());
        reds.add(&Redeemer::new(&RedeemerTag::new_spend(), &BigNum::from(i as u64), &PlutusData::new_integer(&BigInt::from_str("1").unwrap()), &ExUnits::new(&BigNum::from(a), &BigNum::from(b))));
        m += NB::from(a); st += NB::from(b);
    }
    let (n1, d1, n2, d2) = (s.u64(), s.u64(), s.u64(), s.u64());
    s.assume(d1 > 0 && d2 > 0);
    let mut ws = TransactionWitnessSet::new();
    ws.set_redeemers(&reds);
    let body = TransactionBody::new_tx_body(&TransactionInputs::new(), &TransactionOutputs::new(), &BigNum::from(0u64));
    let tx = Transaction::new(&body, &ws, None);
    let r = min_script_fee(&tx, &ExUnitPrices::new(&ui(n1, d1), &ui(n2, d2)));
    let num = &m * NB::from(n1) * NB::from(d2) + &st * NB::from(n2) * NB::from(d1);
    let den = NB::from(d1) * NB::from(d2);
    let exact = Integer::div_ceil(&num, &den);
    match r {
        Ok(v) => assert!(exact.to_u64() == Some(u64::from(v)) && m.to_u64().is_some() && st.to_u64().is_some(), "script fee differs from ceil(price of the summed units)"),
        Err(_) => assert!(exact.to_u64().is_none() || m.to_u64().is_none() || st.to_u64().is_none(), "script fee errs although everything fits"),
    }
}

// ---------------------------------------------------------------- C19: collateral
/// draws: mode (0: explicit return -> total, 1: explicit total -> return), inputs_coin, inputs_q, ret_coin, ret_q, total, stale
/// With zero-cost parameters (min ADA 0) the body-level equation  collateral inputs == return + total  (lovelace and the
/// asset) must hold whenever the setter reports success.
pub fn c19_collateral<S: Src>(s: &mut S) {
    let mode = s.u8();
    let (ic, iq, rc, rq, total) = (s.u64(), s.u64(), s.u64(), s.u64(), s.u64());
    let stale = s.u8();
    let mut tb = TransactionBuilder::new(&cfg_zero_cost());
    let mut col = TxInputsBuilder::new();
    col.add_regular_input(&ent_addr(1), &TransactionInput::new(&TransactionHash::from([2u8; 32]), 0), &val(ic, iq)).unwrap();
    tb.set_collateral(&col);
    if mode == 0 {
        let ret = TransactionOutput::new(&ent_addr(3), &val(rc, rq));
        if tb.set_collateral_return_and_total(&ret).is_ok() {
            let b = tb.build_tx_unsafe_parts();
            let (r, t) = (b.0.expect("return set"), b.1.expect("total set"));
            let (rv, tv) = (r.amount(), u64::from(t));
            let rqv = asset_q(&rv);
            assert!(ic as u128 == u64::from(rv.coin()) as u128 + tv as u128 && iq == rqv,
                "collateral inputs != collateral return + total collateral (inputs {}+{} asset, return {}+{} asset, total {})", ic, iq, u64::from(rv.coin()), rqv, tv);
        }
    } else {
        if stale != 0 {
            // an earlier call left a return output behind
            tb.set_collateral_return(&TransactionOutput::new(&ent_addr(3), &val(5, 0)));
        }
        if tb.set_total_collateral_and_return(&BigNum::from(total), &ent_addr(3)).is_ok() {
            let b = tb.build_tx_unsafe_parts();
            let t = u64::from(b.1.expect("total set"));
            let (rcoin, rqv) = match b.0 { Some(r) => (u64::from(r.amount().coin()), asset_q(&r.amount())), None => (0, 0) };
            assert!(ic as u128 == rcoin as u128 + t as u128 && iq == rqv,
                "collateral inputs != collateral return + total collateral (inputs {}+{} asset, return {}+{} asset, total {})", ic, iq, rcoin, rqv, t);
        }
    }
}
fn asset_q(v: &Value) -> u64 {
    match v.multiasset() {
        None => 0,
        Some(ma) => u64::from(ma.get_asset(&ScriptHash::from([7u8; 28]), &AssetName::new(vec![1, 2, 3]).unwrap())),
    }
}
trait CollateralParts { fn build_tx_unsafe_parts(&self) -> (Option<TransactionOutput>, Option<BigNum>); }
impl CollateralParts for TransactionBuilder {
    /// (collateral_return, total_collateral) as the body would carry them — read through the public build() path
    fn build_tx_unsafe_parts(&self) -> (Option<TransactionOutput>, Option<BigNum>) {
        let mut b = self.clone();
        b.set_fee(&BigNum::from(0u64));
        let body = b.build().expect("body builds");
        (body.collateral_return(), body.total_collateral())
    }
}

// ---------------------------------------------------------------- C18: certificate signer table
/// draws: shape (numbering of c20_cert). One key input (key 1) plus the certificate (key credentials filled with byte 10):
/// the size the builder predicts must equal the size of the transaction signed by exactly the distinct keys the
/// ledger requires (C18's statement, observed through the public API).
pub fn c18_cert_signers<S: Src>(s: &mut S) {
    let sh = s.u8();
    s.assume(sh <= 18);
    let (cert, _, _) = c20_cert(sh, 7, 2_000_000, 500_000_000, 10);
    let mut cb = CertificatesBuilder::new();
    cb.add(&cert).unwrap();
    let n_cert_signers: usize = match sh { 0 | 8 => 0, _ => 1 };
    let mut tb = TransactionBuilder::new(&cfg_zero_cost());
    tb.add_key_input(&ckh(1), &TransactionInput::new(&TransactionHash::from([1u8; 32]), 0), &val(5_000_000_000, 0));
    tb.set_certs_builder(&cb);
    tb.add_output(&TransactionOutput::new(&ent_addr(2), &val(1_000_000, 0))).unwrap();
    tb.set_fee(&BigNum::from(1_000_000u64));
    let predicted = tb.full_size().unwrap();
    let tx = tb.build_tx_unsafe().unwrap();
    let mut ws = tx.witness_set();
    let mut vk = Vkeywitnesses::new();
    for i in 0..(1 + n_cert_signers) {
        let mut b = [9u8; 32]; b[31] = i as u8;
        vk.add(&Vkeywitness::new(&Vkey::new(&PublicKey::from_bytes(&b).unwrap()), &Ed25519Signature::from_bytes(vec![7u8; 64]).unwrap()));
    }
    ws.set_vkeys(&vk);
    let signed = Transaction::new(&tx.body(), &ws, tx.auxiliary_data()).to_bytes().len();
    assert!(predicted >= signed && predicted - signed < 101,
        "certificate shape {}: predicted size {} vs {} bytes when signed by the {} required keys", sh, predicted, signed, 1 + n_cert_signers);
}

// ---------------------------------------------------------------- C14: big integer narrowing
/// draws: negative?, three 64-bit limbs (little endian) of the magnitude
pub fn bigint_narrowing<S: Src>(s: &mut S) {
    let neg = s.u8() != 0;
    let (l0, l1, l2) = (s.u64(), s.u64(), s.u64());
    let mag: NB = NB::from(l0) + (NB::from(l1) << 64) + (NB::from(l2) << 128);
    let x = if neg { -mag.clone() } else { mag.clone() };
    let b = BigInt::from_str(&x.to_string()).unwrap();
    let fits64 = mag.to_u64().is_some();
    match b.as_u64() {
        Some(v) => assert!(!x.is_negative_nb() && fits64 && NB::from(u64::from(v)) == x, "as_u64 returned a different number"),
        None => assert!(x.is_negative_nb() || !fits64, "as_u64 refused a value that fits"),
    }
    match b.as_int() {
        Some(i) => {
            assert!(i.to_str() == x.to_string(), "as_int returned a different number");
            assert!(fits64 || (neg && mag == (NB::from(u64::MAX) + 1)), "as_int returned an Int outside -2^64..2^64-1");
            // and the Int behaves: its accessors and CBOR form are exact
            if !neg { assert!(i.as_positive().map(u64::from) == mag.to_u64()); }
            let back = Int::from_bytes(i.to_bytes()).unwrap();
            assert!(back.to_str() == x.to_string(), "Int CBOR round trip changed the value");
        }
        None => assert!(!fits64, "as_int refused a value within range"),
    }
}
trait NegNb { fn is_negative_nb(&self) -> bool; }
impl NegNb for NB { fn is_negative_nb(&self) -> bool { self.sign() == num_bigint::Sign::Minus } }

/// C03: BigInt (and a Plutus-data integer) is written as uint / nint with the shortest head inside -2^64..2^64-1, as a
/// tag-2 / tag-3 byte string outside. Draws: sign, three little-endian 64-bit limbs of the magnitude.
pub fn bigint_form<S: Src>(s: &mut S) {
    let neg = s.u8() != 0;
    let (l0, l1, l2) = (s.u64(), s.u64(), s.u64());
    let mag: NB = NB::from(l0) + (NB::from(l1) << 64) + (NB::from(l2) << 128);
    let x = if neg { -mag.clone() } else { mag.clone() };
    let b = BigInt::from_str(&x.to_string()).unwrap();
    let bytes = b.to_bytes();
    let pd = PlutusData::new_integer(&b).to_bytes();
    let mut r = crate::refcbor::Buf::new();
    let small_pos = !neg && mag.to_u64().is_some();
    let small_neg = neg && mag != NB::from(0u8) && (mag.clone() - NB::from(1u8)).to_u64().is_some();
    if small_pos { r.uint(mag.to_u64().unwrap()); assert!(r.eq_vec(&bytes), "BigInt {} is not written as the shortest unsigned integer: {:02x?}", x, bytes); }
    else if small_neg { r.nint_arg((mag.clone() - NB::from(1u8)).to_u64().unwrap()); assert!(r.eq_vec(&bytes), "BigInt {} is not written as the shortest negative integer: {:02x?}", x, bytes); }
    else { assert!(bytes[0] == if neg { 0xc3 } else { 0xc2 }, "BigInt {} outside the 64-bit range is not a tagged byte string: {:02x?}", x, bytes); }
    assert!(pd == bytes, "a Plutus-data integer is written differently from the BigInt it wraps");
}

/// C14: Value comparison agrees with the component-wise order. Draws: shape index of each side (as in obl/c14.py SHAPES),
/// the two coins, then 4 quantities per side for (p0,a0) (p0,a1) (p1,a0) (p1,a1).
pub fn value_compare<S: Src>(s: &mut S) {
    let (si, sj) = (s.u8() as usize, s.u8() as usize);
    let (cl, cr) = (s.u64(), s.u64());
    let mut q = [[0u64; 4]; 2];
    for side in 0..2 { for k in 0..4 { q[side][k] = s.u64(); } }
    // shapes: None, empty, {p0:{}}, {p0:{a0}}, {p0:{a0,a1}}, {p0:{a0},p1:{a0}}, {p1:{a1}}
    let shapes: [Option<&[(usize, &[usize])]>; 7] = [None, Some(&[]), Some(&[(0, &[])]), Some(&[(0, &[0])]), Some(&[(0, &[0, 1])]), Some(&[(0, &[0]), (1, &[0])]), Some(&[(1, &[1])])];
    let pol = |p: usize| ScriptHash::from([10 + p as u8; 28]);
    let name = |a: usize| AssetName::new(vec![a as u8 + 1; 1 + a]).unwrap();
    let mut comps: Vec<(u64, u64)> = vec![(cl, cr)];
    let mut eff = [[0u64; 4]; 2];
    let build = |side: usize, shape: Option<&[(usize, &[usize])]>, coin: u64, eff: &mut [[u64; 4]; 2]| -> Value {
        match shape {
            None => Value::new(&BigNum::from(coin)),
            Some(pols) => {
                let mut ma = MultiAsset::new();
                for (p, names) in pols.iter() {
                    let mut assets = Assets::new();
                    for a in names.iter() { assets.insert(&name(*a), &BigNum::from(q[side][p * 2 + a])); eff[side][p * 2 + a] = q[side][p * 2 + a]; }
                    ma.insert(&pol(*p), &assets);
                }
                Value::new_with_assets(&BigNum::from(coin), &ma)
            }
        }
    };
    let l = build(0, shapes[si % 7], cl, &mut eff);
    let r = build(1, shapes[sj % 7], cr, &mut eff);
    for k in 0..4 { comps.push((eff[0][k], eff[1][k])); }
    let all_le = comps.iter().all(|(a, b)| a <= b);
    let all_ge = comps.iter().all(|(a, b)| a >= b);
    let want = if all_le && all_ge { Some(0i8) } else if all_le { Some(-1) } else if all_ge { Some(1) } else { None };
    assert!(l.compare(&r) == want, "Value::compare returns {:?}, the component-wise order is {:?} (shapes {} / {}, components {:?})", l.compare(&r), want, si, sj, comps);
    let pc = l.partial_cmp(&r).map(|o| o as i8);
    assert!(pc == want, "Value::partial_cmp returns {:?}, the component-wise order is {:?}", pc, want);
}

/// C14: Value::checked_add / checked_sub / clamped_sub are component-wise exact (or fail / clamp as documented).
/// Draws: op (0 add, 1 checked_sub, 2 clamped_sub), the two shape indices, the two coins, 4 quantities per side.
pub fn value_arith<S: Src>(s: &mut S) {
    let op = s.u8();
    let (si, sj) = (s.u8() as usize, s.u8() as usize);
    let (cl, cr) = (s.u64(), s.u64());
    let mut q = [[0u64; 4]; 2];
    for side in 0..2 { for k in 0..4 { q[side][k] = s.u64(); } }
    let shapes: [Option<&[(usize, &[usize])]>; 7] = [None, Some(&[]), Some(&[(0, &[])]), Some(&[(0, &[0])]), Some(&[(0, &[0, 1])]), Some(&[(0, &[0]), (1, &[0])]), Some(&[(1, &[1])])];
    let pol = |p: usize| ScriptHash::from([10 + p as u8; 28]);
    let name = |a: usize| AssetName::new(vec![a as u8 + 1; 1 + a]).unwrap();
    let mut eff = [[0u64; 4]; 2];
    let mut build = |side: usize, shape: Option<&[(usize, &[usize])]>, coin: u64| -> Value {
        match shape {
            None => Value::new(&BigNum::from(coin)),
            Some(pols) => {
                let mut ma = MultiAsset::new();
                for (p, names) in pols.iter() {
                    let mut assets = Assets::new();
                    for a in names.iter() { assets.insert(&name(*a), &BigNum::from(q[side][p * 2 + a])); eff[side][p * 2 + a] = q[side][p * 2 + a]; }
                    ma.insert(&pol(*p), &assets);
                }
                Value::new_with_assets(&BigNum::from(coin), &ma)
            }
        }
    };
    let l = build(0, shapes[si % 7], cl);
    let r = build(1, shapes[sj % 7], cr);
    let mut comps: Vec<(u64, u64)> = vec![(cl, cr)];
    for k in 0..4 { comps.push((eff[0][k], eff[1][k])); }
    let component = |v: &Value, k: usize| -> u64 {
        if k == 0 { return u64::from(v.coin()); }
        let (p, a) = ((k - 1) / 2, (k - 1) % 2);
        v.multiasset().and_then(|m| m.get(&pol(p))).and_then(|x| x.get(&name(a))).map(u64::from).unwrap_or(0)
    };
    match op {
        0 => match l.checked_add(&r) {
            Ok(v) => for (k, (a, b)) in comps.iter().enumerate() { assert!(a.checked_add(*b) == Some(component(&v, k)), "checked_add: component {} is {} for {} + {}", k, component(&v, k), a, b); },
            Err(_) => assert!(comps.iter().any(|(a, b)| a.checked_add(*b).is_none()), "checked_add fails although every component has an exact sum"),
        },
        1 => match l.checked_sub(&r) {
            Ok(v) => for (k, (a, b)) in comps.iter().enumerate() { assert!(a.checked_sub(*b) == Some(component(&v, k)), "checked_sub returns Ok with component {} = {} for {} - {} (silently clamped)", k, component(&v, k), a, b); },
            Err(_) => assert!(comps.iter().any(|(a, b)| a < b), "checked_sub fails although every component has an exact difference"),
        },
        _ => { let v = l.clamped_sub(&r); for (k, (a, b)) in comps.iter().enumerate() { assert!(a.saturating_sub(*b) == component(&v, k), "clamped_sub: component {} is {} for {} - {}", k, component(&v, k), a, b); } }
    }
}

/// C11: a Byron address whose attribute map carries an explicit protocol magic (any u32) converts to bytes and back
/// unchanged and reports that magic. Draw: the magic (u32). The address is assembled by hand (root hash 01.., type 0).
pub fn c11_byron_attributes<S: Src>(s: &mut S) {
    let magic = s.u32();
    fn crc32(data: &[u8]) -> u32 {
        let mut c: u32 = 0xffff_ffff;
        for b in data { c ^= *b as u32; for _ in 0..8 { c = if c & 1 != 0 { (c >> 1) ^ 0xedb8_8320 } else { c >> 1 }; } }
        !c
    }
    let mut r = crate::refcbor::Buf::new();
    r.uint(magic as u64);
    let inner: Vec<u8> = r.b[..r.n].to_vec();
    for with_path in [false, true] {
        let mut payload: Vec<u8> = vec![0x83, 0x58, 0x1c];
        payload.extend([1u8; 28]);
        payload.push(if with_path { 0xa2 } else { 0xa1 });
        if with_path { payload.extend([0x01, 0x45, 0x44, 0x01, 0x02, 0x03, 0x04]); }
        payload.push(0x02);
        payload.push(0x40 + inner.len() as u8);
        payload.extend(&inner);
        payload.push(0x00);
        let mut addr: Vec<u8> = vec![0x82, 0xd8, 0x18, 0x58, payload.len() as u8];
        addr.extend(&payload);
        addr.push(0x1a);
        addr.extend(crc32(&payload).to_be_bytes());
        let a = ByronAddress::from_bytes(addr.clone()).expect("a well-formed Byron address is refused");
        assert!(a.to_bytes() == addr, "Byron address with explicit protocol magic {} does not convert to bytes and back unchanged", magic);
        assert!(a.byron_protocol_magic() == magic, "Byron address reports protocol magic {} instead of {}", a.byron_protocol_magic(), magic);
        let b58 = a.to_base58();
        assert!(ByronAddress::from_base58(&b58).unwrap().to_bytes() == addr, "Base58 round trip changes the address");
        let generic = Address::from_bytes(addr.clone()).unwrap();
        assert!(generic.to_bytes() == addr, "Address::from_bytes / to_bytes changes a Byron address with explicit magic {}", magic);
    }
}

// ---------------------------------------------------------------- C14: amounts accumulated by the mint builder stay inside Int's range
fn int_of(v: i128) -> Int {
    if v >= 0 { Int::new(&BigNum::from(v as u64)) }
    else if v == -(1i128 << 64) { Int::from_bytes(vec![0x3b, 0xff, 0xff, 0xff, 0xff, 0xff, 0xff, 0xff, 0xff]).unwrap() }
    else { Int::new_negative(&BigNum::from((-v) as u64)) }
}
pub fn c14_mint_builder_range<S: Src>(s: &mut S) {
    let (func, pre) = (s.u8(), s.u8());
    let mut rd = |s: &mut S| -> i128 {
        let (neg, mag, hi) = (s.u8(), s.u64(), s.u8());
        let m = mag as i128 + if hi != 0 { 1i128 << 64 } else { 0 };
        if neg != 0 { -m } else { m }
    };
    let (old, off) = (rd(s), rd(s));
    let (lo, hi) = (-(1i128 << 64), (1i128 << 64) - 1);
    s.assume(old >= lo && old <= hi && off >= lo && off <= hi);
    let name = AssetName::new(vec![1, 2, 3]).unwrap();
    let native = NativeScript::new_script_pubkey(&ScriptPubkey::new(&Ed25519KeyHash::from([7u8; 28])));
    let plutus = PlutusScript::new(vec![1, 2, 3, 4]);
    let red = Redeemer::new(&RedeemerTag::new_mint(), &BigNum::from(0u64), &PlutusData::new_bytes(vec![1]), &ExUnits::new(&BigNum::from(1u64), &BigNum::from(1u64)));
    let (wit, policy) = if pre == 2 { (MintWitness::new_plutus_script(&PlutusScriptSource::new(&plutus), &red), plutus.hash()) }
                        else { (MintWitness::new_native_script(&NativeScriptSource::new(&native)), native.hash()) };
    let mut mb = MintBuilder::new();
    let mut expect = 0i128;
    if pre != 0 {
        s.assume(old != 0);
        if mb.add_asset(&wit, &name, &int_of(old)).is_err() { return; }
        expect = old;
    }
    if func == 2 {
        // build() refuses a zero amount: reach zero by cancelling
        if mb.add_asset(&wit, &name, &int_of(-old)).is_err() { return; }
        if let Ok(m) = mb.build() {
            let got = m.get(&policy).and_then(|l| l.get(0)).and_then(|a| a.get(&name));
            assert!(got.map(|i| i.to_str() != "0").unwrap_or(true), "MintBuilder::build hands out a mint entry with quantity 0");
        }
        return;
    }
    let r = if func == 0 { mb.add_asset(&wit, &name, &int_of(off)) } else { mb.set_asset(&wit, &name, &int_of(off)) };
    if r.is_err() { return; }
    expect = if func == 0 { expect + off } else { off };
    let mint = match mb.build() { Ok(m) => m, Err(_) => return };       // refuses only a zero amount
    let got = mint.get(&policy).and_then(|l| l.get(0)).and_then(|a| a.get(&name)).expect("asset stored");
    let v: i128 = got.to_str().parse().expect("decimal form of the stored amount");
    assert!(v == expect, "MintBuilder stores {} for {} {} {}", v, old, if func == 0 { "+" } else { "set to" }, off);
    assert!(v >= lo && v <= hi, "MintBuilder hands out the signed amount {} outside -2^64..2^64-1 (its CBOR form truncates to {})", v, Int::from_bytes(got.to_bytes()).map(|i| i.to_str()).unwrap_or("undecodable".to_string()));
}

// ---------------------------------------------------------------- C14: decimal strings are read exactly or refused
pub fn c14_decimal_strings<S: Src>(s: &mut S) {
    let (neg, lo, hi) = (s.u8(), s.u64(), s.u64());
    let mag: u128 = ((hi as u128) << 64) | lo as u128;
    let text = if neg != 0 { format!("-{}", mag) } else { format!("{}", mag) };
    let exact: Option<i128> = if neg != 0 { if mag <= (1u128 << 127) { Some((mag as i128).wrapping_neg()) } else { None } } else if mag < (1u128 << 127) { Some(mag as i128) } else { None };
    let (rlo, rhi) = (-(1i128 << 64), (1i128 << 64) - 1);
    for via_json in [false, true] {
        let r = if via_json { Int::from_json(&format!("\"{}\"", text)).ok() } else { Int::from_str(&text).ok() };
        if let Some(i) = r {
            let back: i128 = i.to_str().parse().expect("to_str is a decimal number");
            assert!(Some(back) == exact, "Int::{}({}) reads {}", if via_json { "from_json" } else { "from_str" }, text, back);
            assert!(back >= rlo && back <= rhi, "Int::{}({}) hands out an Int outside -2^64..2^64-1 (its CBOR form is {:02x?})", if via_json { "from_json" } else { "from_str" }, text, i.to_bytes());
        }
    }
    if neg == 0 {
        if let Ok(b) = BigNum::from_str(&text) {
            assert!(mag <= u64::MAX as u128 && u64::from(b) as u128 == mag, "BigNum::from_str({}) reads {}", text, u64::from(b));
        }
    }
}

// ---------------------------------------------------------------- C11: variable-length naturals of a pointer address (strict parser)
/// a pointer address whose three naturals are 1, 2 and then the given tail bytes: the strict parser accepts exactly when the tail is
/// ONE terminated natural (last byte with a clear high bit, no byte after it), and then re-encodes to the same bytes
pub fn c11_varnat<S: Src>(s: &mut S) {
    let n = s.u8() as usize;
    let tail: Vec<u8> = (0..n).map(|_| s.u8()).collect();
    let mut bytes: Vec<u8> = vec![0x41];
    bytes.extend([7u8; 28]);
    bytes.extend([0x01, 0x02]);
    bytes.extend(&tail);
    let terminated_once = !tail.is_empty() && tail[tail.len() - 1] < 0x80 && tail[..tail.len() - 1].iter().all(|b| *b >= 0x80);
    match Address::from_bytes(bytes.clone()) {
        Ok(a) => {
            assert!(terminated_once, "Address::from_bytes accepts a pointer address whose last natural {:02x?} is not one terminated number", tail);
            if tail.len() <= 9 && (tail.len() == 1 || tail[0] != 0x80) { assert!(a.to_bytes() == bytes, "pointer address does not convert to bytes and back unchanged"); }
        }
        Err(_) => assert!(!terminated_once || tail.len() > 9, "Address::from_bytes refuses a well-formed pointer address with the natural {:02x?}", tail),
    }
    // embedded in an output: bytes that are not a valid address are kept verbatim
    let mut out: Vec<u8> = vec![0x82, 0x58, bytes.len() as u8];
    out.extend(&bytes);
    out.push(0x00);
    if let Ok(o) = TransactionOutput::from_bytes(out.clone()) {
        if !terminated_once { assert!(o.to_bytes() == out, "an output whose address bytes are not a valid address is not written back unchanged"); }
    }
}
