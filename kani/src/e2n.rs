//! Native confirmation of E2 (mir2smt) counterexamples: each scenario takes the model's concrete values,
//! calls the real public function and compares with an independent exact computation (num-bigint / u128).
//! These are never Kani proofs; they are the "replay before reporting" step of engine E2.
use crate::csl::*;
use crate::Src;
use num_bigint::BigInt as NB;
use num_integer::Integer;
use num_traits::{One, ToPrimitive, Zero};

fn ui(n: u64, d: u64) -> UnitInterval { UnitInterval::new(&BigNum::from(n), &BigNum::from(d)) }

pub fn min_fee_for_size<S: Src>(s: &mut S) {
    let (size, a, b) = (s.u64(), s.u64(), s.u64());
    let lf = LinearFee::new(&BigNum::from(a), &BigNum::from(b));
    let r = crate::csl::min_fee_for_size(size as usize, &lf);
    let exact = (a as u128) * (size as u128) + b as u128;
    match r {
        Ok(v) => assert!(exact <= u64::MAX as u128 && u64::from(v) as u128 == exact),
        Err(_) => assert!(exact > u64::MAX as u128),
    }
}

pub fn ex_units_cost<S: Src>(s: &mut S) {
    let (mem, steps, n1, d1, n2, d2) = (s.u64(), s.u64(), s.u64(), s.u64(), s.u64(), s.u64());
    s.assume(d1 > 0 && d2 > 0);
    let r = calculate_ex_units_ceil_cost(&ExUnits::new(&BigNum::from(mem), &BigNum::from(steps)), &ExUnitPrices::new(&ui(n1, d1), &ui(n2, d2)));
    let num = NB::from(mem) * NB::from(n1) * NB::from(d2) + NB::from(steps) * NB::from(n2) * NB::from(d1);
    let den = NB::from(d1) * NB::from(d2);
    let exact = Integer::div_ceil(&num, &den);
    match r {
        Ok(v) => assert!(exact.to_u64() == Some(u64::from(v))),
        Err(_) => assert!(exact.to_u64().is_none()),
    }
}

pub fn ref_script_fee<S: Src>(s: &mut S) {
    let (size, pa, pb) = (s.u64(), s.u64(), s.u64());
    s.assume(pb > 0);
    let r = min_ref_script_fee(size as usize, &ui(pa, pb));
    // ledger recursion, tier by tier, in exact rationals num/den
    let (mut num, mut den) = (NB::zero(), NB::one());
    let (mut pn, mut pd) = (NB::from(pa), NB::from(pb));     // current per-byte price
    let mut left = size;
    loop {
        let chunk = if left >= 25_600 { 25_600 } else { left };
        // acc += chunk * price
        num = num * &pd + NB::from(chunk) * &pn * &den;
        den = den * &pd;
        left -= chunk;
        if left == 0 { break; }
        pn = pn * 6; pd = pd * 5;
    }
    let exact = Integer::div_floor(&num, &den);
    match r {
        Ok(v) => assert!(exact.to_u64() == Some(u64::from(v))),
        Err(_) => assert!(exact.to_u64().is_none()),
    }
}
