//! C11: address encodings lossless and classified by their header.
use crate::common::*;
use crate::csl::*;
use crate::refcbor::Buf;
use crate::{fg, Src};

fn check_built(addr: &Address, kind: u8, net: u8, ps: bool, ss: bool, h1: &[u8; 28], h2: &[u8; 28], p: (u64, u64, u64)) {
    // reference bytes from the CDDL header table
    let mut r = Buf::new();
    match kind {
        0 => { r.put(((ss as u8) << 5) | ((ps as u8) << 4) | net); r.raw(h1); r.raw(h2); }
        1 => { r.put(0x40 | ((ps as u8) << 4) | net); r.raw(h1); ref_varnat(&mut r, p.0); ref_varnat(&mut r, p.1); ref_varnat(&mut r, p.2); }
        2 => { r.put(0x60 | ((ps as u8) << 4) | net); r.raw(h1); }
        _ => { r.put(0xe0 | ((ps as u8) << 4) | net); r.raw(h1); }
    }
    let b = addr.to_bytes();
    assert!(r.eq_vec(&b));
    let k = addr.kind();
    assert!(match kind { 0 => k == AddressKind::Base, 1 => k == AddressKind::Pointer, 2 => k == AddressKind::Enterprise, _ => k == AddressKind::Reward });
    assert!(addr.network_id().unwrap() == net);
    let pc = addr.payment_cred().unwrap();
    assert!(pc.has_script_hash() == ps);
    let hb = if ps { pc.to_scripthash().unwrap().to_bytes() } else { pc.to_keyhash().unwrap().to_bytes() };
    assert!(eq28(&hb, h1));
    assert!(!addr.is_malformed());
}

fn build<S: Src>(s: &mut S, kind: u8) -> (Address, u8, bool, bool, [u8; 28], [u8; 28], (u64, u64, u64)) {
    let net = s.u8();
    s.assume(net < 16);
    let ps = s.bool();
    let ss = s.bool();
    let h1: [u8; 28] = s.bytes();
    let h2: [u8; 28] = s.bytes();
    let p = if kind == 1 { (s.u64(), s.u64(), s.u64()) } else { (0, 0, 0) };
    let a = match kind {
        0 => BaseAddress::new(net, &cred(ps, h1), &cred(ss, h2)).to_address(),
        1 => PointerAddress::new(net, &cred(ps, h1), &Pointer::new_pointer(&BigNum::from(p.0), &BigNum::from(p.1), &BigNum::from(p.2))).to_address(),
        2 => EnterpriseAddress::new(net, &cred(ps, h1)).to_address(),
        _ => RewardAddress::new(net, &cred(ps, h1)).to_address(),
    };
    (a, net, ps, ss, h1, h2, p)
}

/// value -> bytes: header/payload per CDDL, accessors as built (base, enterprise, reward)
pub fn enc_base<S: Src>(s: &mut S) { shelley_encode_fixed(s, 0) }
pub fn enc_enterprise<S: Src>(s: &mut S) { shelley_encode_fixed(s, 2) }
pub fn enc_reward<S: Src>(s: &mut S) { shelley_encode_fixed(s, 3) }
pub fn rt_base<S: Src>(s: &mut S) { shelley_roundtrip_fixed(s, 0) }
pub fn rt_enterprise<S: Src>(s: &mut S) { shelley_roundtrip_fixed(s, 2) }
pub fn rt_reward<S: Src>(s: &mut S) { shelley_roundtrip_fixed(s, 3) }

fn shelley_encode_fixed<S: Src>(s: &mut S, kind: u8) {
    let (a, net, ps, ss, h1, h2, p) = build(s, kind);
    check_built(&a, kind, net, ps, ss, &h1, &h2, p);
    vcover!(ps && net == 15, "script credential, network 15");
}

/// accessor-level agreement of a decoded address with the bytes it came from (no re-encoding of a value whose
/// variant is symbolic: that makes CBMC explore all six encoders)
fn check_against_bytes(a: &Address, d: &[u8]) {
    let hi = d[0] >> 4;
    let k = a.kind();
    assert!(match hi { 0 | 1 | 2 | 3 => k == AddressKind::Base, 4 | 5 => k == AddressKind::Pointer, 6 | 7 => k == AddressKind::Enterprise, _ => k == AddressKind::Reward });
    assert!(!a.is_malformed());
    assert!(a.network_id().unwrap() == d[0] & 0x0f);
    let pc = a.payment_cred().unwrap();
    assert!(pc.has_script_hash() == (d[0] & 0x10 != 0));
    let hb = if pc.has_script_hash() { pc.to_scripthash().unwrap().to_bytes() } else { pc.to_keyhash().unwrap().to_bytes() };
    let mut h1 = [0u8; 28];
    h1.copy_from_slice(&d[1..29]);
    assert!(eq28(&hb, &h1));
    if hi <= 3 {
        let ba = BaseAddress::from_address(a).unwrap();
        let sc = ba.stake_cred();
        assert!(sc.has_script_hash() == (d[0] & 0x20 != 0));
        let sb = if sc.has_script_hash() { sc.to_scripthash().unwrap().to_bytes() } else { sc.to_keyhash().unwrap().to_bytes() };
        let mut h2 = [0u8; 28];
        h2.copy_from_slice(&d[29..57]);
        assert!(eq28(&sb, &h2));
        fg(ba);
    }
}

/// value -> bytes -> value for the three fixed-size kinds: the decoded value equals the original
fn shelley_roundtrip_fixed<S: Src>(s: &mut S, kind: u8) {
    let (a, net, ps, ss, h1, h2, p) = build(s, kind);
    let b = a.to_bytes();
    let a2 = Address::from_bytes(b).unwrap();
    assert!(a2 == a);
    fg(a2); fg(a);
}

/// pointer addresses, encode side: one natural of the triple ranges over all u64, the other two are fixed; the
/// bytes equal the reference (header, hash, three big-endian base-128 naturals). The decode side is
/// `strict_parse_ptr_long` / `strict_parse_short`; that the reference decoder inverts the reference encoder is
/// `ref_varnat_inverse`. (A single harness doing encode and decode of a symbolic natural exhausts CBMC's memory.)
fn pointer_encode_at<S: Src>(s: &mut S, pos: u8) {
    let net = s.u8();
    s.assume(net < 16);
    let ps = s.bool();
    let h1: [u8; 28] = s.bytes();
    let x = s.u64();
    let p = match pos { 0 => (x, 300u64, 5u64), 1 => (7u64, x, 16384u64), _ => (129u64, 0u64, x) };
    let a = PointerAddress::new(net, &cred(ps, h1), &Pointer::new_pointer(&BigNum::from(p.0), &BigNum::from(p.1), &BigNum::from(p.2))).to_address();
    check_built(&a, 1, net, ps, false, &h1, &h1, p);
    vcover!(x == u64::MAX, "10-byte natural");
    vcover!(x < 128, "1-byte natural");
    fg(a);
}
pub fn pointer_enc_slot<S: Src>(s: &mut S) { pointer_encode_at(s, 0) }
pub fn pointer_enc_tx<S: Src>(s: &mut S) { pointer_encode_at(s, 1) }
pub fn pointer_enc_cert<S: Src>(s: &mut S) { pointer_encode_at(s, 2) }

/// the harness's reference decoder inverts its reference encoder for every u64 (pure harness-side lemma)
pub fn ref_varnat_inverse<S: Src>(s: &mut S) {
    let n = s.u64();
    let mut b = Buf::new();
    ref_varnat(&mut b, n);
    let r = ref_varnat_dec(b.as_slice(), 0);
    assert!(r == Some((n, b.n)));
    assert!(b.n >= 1 && b.n <= 10);
}

/// pointer addresses, decode side with long naturals: 29 + 12 bytes, every content: accepted iff three terminated
/// naturals that fit u64 end exactly at the end; values as the reference decoder says
pub fn strict_parse_ptr_long<S: Src>(s: &mut S) {
    let buf: [u8; 41] = s.bytes();
    s.assume(buf[0] >> 4 == 4 || buf[0] >> 4 == 5);
    let exp = match ref_addr_end(&buf) { Some(e) => e == 41, None => false };
    let r = Address::from_bytes(buf.to_vec());
    match r {
        Ok(a) => {
            assert!(exp);
            let pa = PointerAddress::from_address(&a).unwrap();
            let sp = pa.stake_pointer();
            let (v1, p1) = ref_varnat_dec(&buf, 29).unwrap();
            let (v2, p2) = ref_varnat_dec(&buf, p1).unwrap();
            let (v3, _) = ref_varnat_dec(&buf, p2).unwrap();
            assert!(u64::from(sp.slot_bignum()) == v1 && u64::from(sp.tx_index_bignum()) == v2 && u64::from(sp.cert_index_bignum()) == v3);
            assert!(pa.network_id() == buf[0] & 0x0f);
            fg(pa); fg(a);
        }
        Err(e) => { assert!(!exp); fg(e); }
    }
    vcover!(exp && buf[29] == 0x81 && buf[38] & 0x80 == 0, "10-byte first natural accepted");
    vcover!(!exp && buf[29] == 0x82 && buf[30] & 0x80 != 0 && buf[31] & 0x80 != 0 && buf[32] & 0x80 != 0 && buf[33] & 0x80 != 0 && buf[34] & 0x80 != 0 && buf[35] & 0x80 != 0 && buf[36] & 0x80 != 0 && buf[37] & 0x80 != 0 && buf[38] & 0x80 == 0, "natural above u64 rejected");
}

// ---------------------------------------------------------------- bytes -> value
/// reference strict validity of a non-Byron Shelley address byte string
fn ref_varnat_dec(d: &[u8], mut pos: usize) -> Option<(u64, usize)> {
    let mut out: u128 = 0;
    while pos < d.len() {
        let b = d[pos];
        out = (out << 7) | (b & 0x7f) as u128;
        if out > u64::MAX as u128 { return None; }
        pos += 1;
        if b & 0x80 == 0 { return Some((out as u64, pos)); }
    }
    None
}
/// Some(end) if d starts with a valid address of its kind that ends at `end`
fn ref_addr_end(d: &[u8]) -> Option<usize> {
    if d.len() == 0 { return None; }
    match d[0] >> 4 {
        0 | 1 | 2 | 3 => if d.len() >= 57 { Some(57) } else { None },
        6 | 7 | 14 | 15 => if d.len() >= 29 { Some(29) } else { None },
        4 | 5 => {
            if d.len() < 32 { return None; }
            let (_, p1) = ref_varnat_dec(d, 29)?;
            let (_, p2) = ref_varnat_dec(d, p1)?;
            let (_, p3) = ref_varnat_dec(d, p2)?;
            Some(p3)
        }
        _ => None,
    }
}

/// strict stand-alone parser on every byte string of length <= 34 whose header is not Byron:
/// never panics; accepts iff the kind's exact length (pointer: three terminated naturals that fit u64 and nothing
/// after them); an accepted address reports kind, network and credentials exactly as header and payload say —
/// covers truncated payloads, trailing bytes, unterminated naturals and the empty string.
pub fn strict_parse_short<S: Src>(s: &mut S) {
    let buf: [u8; 34] = s.bytes();
    let len = s.below(35) as usize;
    s.assume(buf[0] >> 4 != 8);
    let data = vec_upto(&buf, len);
    let exp = match ref_addr_end(&buf[..len]) { Some(e) => e == len, None => false };
    let r = Address::from_bytes(data);
    match r {
        Ok(a) => {
            assert!(exp);
            check_against_bytes(&a, &buf);
            if buf[0] >> 4 == 4 || buf[0] >> 4 == 5 {
                let pa = PointerAddress::from_address(&a).unwrap();
                let sp = pa.stake_pointer();
                let (v1, p1) = ref_varnat_dec(&buf[..len], 29).unwrap();
                let (v2, p2) = ref_varnat_dec(&buf[..len], p1).unwrap();
                let (v3, _) = ref_varnat_dec(&buf[..len], p2).unwrap();
                assert!(u64::from(sp.slot_bignum()) == v1 && u64::from(sp.tx_index_bignum()) == v2 && u64::from(sp.cert_index_bignum()) == v3);
                fg(pa);
            }
            fg(a);
        }
        Err(e) => { assert!(!exp); fg(e); }
    }
    vcover!(len == 0, "empty input");
    vcover!(exp && buf[0] >> 4 == 4 && len == 34, "pointer with multi-byte naturals accepted");
    vcover!(exp && buf[0] >> 4 == 7, "enterprise accepted");
    vcover!(!exp && len == 30 && buf[0] >> 4 == 6, "enterprise with trailing byte rejected");
}

/// base addresses (57 bytes) with up to 3 missing or trailing bytes, strict parser
pub fn strict_parse_base<S: Src>(s: &mut S) {
    let buf: [u8; 60] = s.bytes();
    let len = s.below(61) as usize;
    s.assume(len >= 55);
    s.assume(buf[0] >> 4 <= 3);
    let data = vec_upto(&buf, len);
    let r = Address::from_bytes(data);
    match r {
        Ok(a) => { assert!(len == 57); check_against_bytes(&a, &buf); fg(a); }
        Err(e) => { assert!(len != 57); fg(e); }
    }
    vcover!(len == 57, "accepted");
    vcover!(len == 58, "trailing byte");
}

/// embedded (lenient) parser: `Address::deserialize` as used inside outputs. For every byte string of length
/// <= 34 carried in a CBOR bytes item the decoder returns either the strictly valid address the bytes denote,
/// or a malformed address that keeps the carried bytes verbatim. (Together with the encode harnesses this is
/// "to_bytes() returns the carried string".)
pub fn embedded_verbatim_short<S: Src>(s: &mut S) {
    let buf: [u8; 34] = s.bytes();
    let len = s.below(35) as usize;
    s.assume(len == 0 || buf[0] >> 4 != 8);
    let mut w = [0u8; 36];
    let off = if len < 24 { w[0] = 0x40 | len as u8; 1 } else { w[0] = 0x58; w[1] = len as u8; 2 };
    let mut i = 0;
    while i < 34 { w[off + i] = buf[i]; i += 1; }
    let data = vec_upto(&w, off + len);
    let r = crate::csl::from_bytes::<Address>(&data);
    let a = r.unwrap();
    let strict_ok = match ref_addr_end(&buf[..len]) { Some(e) => e == len, None => false };
    if strict_ok {
        check_against_bytes(&a, &buf);
    } else {
        let m = MalformedAddress::from_address(&a).unwrap();
        let ob = m.original_bytes();
        assert!(ob.len() == len);
        let mut i = 0;
        while i < len { assert!(ob[i] == buf[i]); i += 1; }
        fg(m);
    }
    vcover!(len == 0, "empty embedded address");
    vcover!(len == 30 && buf[0] >> 4 == 6, "enterprise + 1 trailing byte");
    vcover!(strict_ok && buf[0] >> 4 == 14, "valid reward embedded");
    fg(a);
}


/// the same for carried strings of length <= 6 (every such string is malformed or a Byron candidate; the harness that
/// covers <= 34 bytes does not finish within 30 minutes and is not part of any claim)
pub fn embedded_verbatim_tiny<S: Src>(s: &mut S) {
    let buf: [u8; 6] = s.bytes();
    let len = s.below(7) as usize;
    s.assume(len == 0 || buf[0] >> 4 != 8);
    let mut w = [0u8; 8];
    w[0] = 0x40 | len as u8;
    let mut i = 0;
    while i < 6 { w[1 + i] = buf[i]; i += 1; }
    let data = vec_upto(&w, 1 + len);
    let r = crate::csl::from_bytes::<Address>(&data);
    let a = r.unwrap();
    let m = MalformedAddress::from_address(&a).unwrap();
    let ob = m.original_bytes();
    assert!(ob.len() == len);
    let mut i = 0;
    while i < len { assert!(ob[i] == buf[i]); i += 1; }
    fg(m);
    vcover!(len == 0, "empty embedded address");
    vcover!(len == 6 && buf[0] >> 4 == 6, "short enterprise header");
    fg(a);
}
