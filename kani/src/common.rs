//! Shared value builders (all from stack arrays, never `vec![b; n]`) and small loop-free helpers.
use crate::csl::*;
use crate::Src;

pub fn kh<S: Src>(s: &mut S) -> ([u8; 28], Ed25519KeyHash) {
    let a: [u8; 28] = s.bytes();
    (a, Ed25519KeyHash::from(a))
}
pub fn sh<S: Src>(s: &mut S) -> ([u8; 28], ScriptHash) {
    let a: [u8; 28] = s.bytes();
    (a, ScriptHash::from(a))
}
pub fn h32<S: Src>(s: &mut S) -> [u8; 32] { s.bytes() }

pub fn cred(is_script: bool, h: [u8; 28]) -> Credential {
    if is_script { Credential::from_scripthash(&ScriptHash::from(h)) } else { Credential::from_keyhash(&Ed25519KeyHash::from(h)) }
}

/// loop-free equality of a slice with a 28-byte array
pub fn eq28(v: &[u8], a: &[u8; 28]) -> bool {
    if v.len() != 28 { return false; }
    let w = |i: usize| u32::from_le_bytes([v[i], v[i + 1], v[i + 2], v[i + 3]]);
    let x = |i: usize| u32::from_le_bytes([a[i], a[i + 1], a[i + 2], a[i + 3]]);
    w(0) == x(0) && w(4) == x(4) && w(8) == x(8) && w(12) == x(12) && w(16) == x(16) && w(20) == x(20) && w(24) == x(24)
}
pub fn eq32(v: &[u8], a: &[u8; 32]) -> bool {
    if v.len() != 32 { return false; }
    let w = |i: usize| u64::from_le_bytes([v[i], v[i + 1], v[i + 2], v[i + 3], v[i + 4], v[i + 5], v[i + 6], v[i + 7]]);
    let x = |i: usize| u64::from_le_bytes([a[i], a[i + 1], a[i + 2], a[i + 3], a[i + 4], a[i + 5], a[i + 6], a[i + 7]]);
    w(0) == x(0) && w(8) == x(8) && w(16) == x(16) && w(24) == x(24)
}

/// a Vec of symbolic length <= N without a symbolic-size memcpy: copy N, then truncate
pub fn vec_upto<const N: usize>(buf: &[u8; N], len: usize) -> Vec<u8> {
    let mut v = buf.to_vec();
    v.truncate(len);
    v
}

/// reference variable-length natural (big-endian base 128, high bit = continuation)
pub fn ref_varnat(out: &mut crate::refcbor::Buf, n: u64) {
    let mut groups = 1;
    let mut t = n >> 7;
    while t > 0 { groups += 1; t >>= 7; }
    let mut i = groups;
    while i > 0 {
        i -= 1;
        let g = ((n >> (7 * i)) & 0x7f) as u8;
        out.put(if i > 0 { g | 0x80 } else { g });
    }
}
