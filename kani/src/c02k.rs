//! C02 (E1 part): byte-level totality and exactness of the raw hash decoders (one instantiation per digest size of
//! the impl_hash_type! macro: Ed25519KeyHash = 28 bytes, TransactionHash = 32 bytes).
use crate::csl::*;
use crate::{fg, Src};

/// every byte string of length 26..=34 (content symbolic, each length in turn): Ok exactly at the digest size, and
/// then the bytes are carried verbatim; every other length is an error, never a panic
pub fn hash_from_bytes<S: Src>(s: &mut S) {
    let buf: [u8; 34] = s.bytes();
    let mut len = 26usize;
    while len <= 34 {
        let r = Ed25519KeyHash::from_bytes(buf[..len].to_vec());
        if len == 28 {
            let h = r.unwrap();
            let out = h.to_bytes();
            let mut i = 0;
            while i < 28 { assert!(out[i] == buf[i]); i += 1; }
        } else { assert!(r.is_err()); fg(r); }
        let r = TransactionHash::from_bytes(buf[..len].to_vec());
        if len == 32 {
            let h = r.unwrap();
            let out = h.to_bytes();
            let mut i = 0;
            while i < 32 { assert!(out[i] == buf[i]); i += 1; }
        } else { assert!(r.is_err()); fg(r); }
        len += 1;
    }
    let r = Ed25519KeyHash::from_bytes(Vec::new());
    assert!(r.is_err());
    fg(r);
    vcover!(buf[27] == 0xff && buf[0] == 1, "arbitrary content reaches the accept branch");
}
