//! Independent reference CBOR writer used as the oracle of the encode-side harnesses.
//! Shares no code with CSL or cbor_event: heads are written from RFC 8949 section 3.
pub const CAP: usize = 256;

#[derive(Clone, Copy)]
pub struct Buf {
    pub b: [u8; CAP],
    pub n: usize,
}

impl Buf {
    pub fn new() -> Self { Buf { b: [0u8; CAP], n: 0 } }
    #[inline(always)]
    pub fn put(&mut self, x: u8) { self.b[self.n] = x; self.n += 1; }
    /// shortest-form head for major type `mt` and argument `v`
    pub fn head(&mut self, mt: u8, v: u64) {
        let m = mt << 5;
        if v < 24 {
            self.put(m | v as u8);
        } else if v < 0x100 {
            self.put(m | 24); self.put(v as u8);
        } else if v < 0x1_0000 {
            self.put(m | 25); self.put((v >> 8) as u8); self.put(v as u8);
        } else if v < 0x1_0000_0000 {
            self.put(m | 26);
            self.put((v >> 24) as u8); self.put((v >> 16) as u8); self.put((v >> 8) as u8); self.put(v as u8);
        } else {
            self.put(m | 27);
            self.put((v >> 56) as u8); self.put((v >> 48) as u8); self.put((v >> 40) as u8); self.put((v >> 32) as u8);
            self.put((v >> 24) as u8); self.put((v >> 16) as u8); self.put((v >> 8) as u8); self.put(v as u8);
        }
    }
    pub fn uint(&mut self, v: u64) { self.head(0, v) }
    /// negative integer -1-n
    pub fn nint_arg(&mut self, n: u64) { self.head(1, n) }
    pub fn bytes_head(&mut self, len: u64) { self.head(2, len) }
    pub fn text_head(&mut self, len: u64) { self.head(3, len) }
    pub fn array(&mut self, len: u64) { self.head(4, len) }
    pub fn map(&mut self, len: u64) { self.head(5, len) }
    pub fn tag(&mut self, t: u64) { self.head(6, t) }
    pub fn null(&mut self) { self.put(0xf6) }
    pub fn brk(&mut self) { self.put(0xff) }
    pub fn indef_array(&mut self) { self.put(0x9f) }
    pub fn indef_map(&mut self) { self.put(0xbf) }
    pub fn indef_bytes(&mut self) { self.put(0x5f) }
    pub fn raw(&mut self, s: &[u8]) {
        let mut i = 0;
        while i < s.len() { self.put(s[i]); i += 1; }
    }
    pub fn bytes(&mut self, s: &[u8]) { self.bytes_head(s.len() as u64); self.raw(s); }
    /// compare with a library-produced byte vector
    pub fn eq_vec(&self, v: &[u8]) -> bool {
        if v.len() != self.n { return false; }
        let mut i = 0;
        while i < self.n {
            if v[i] != self.b[i] { return false; }
            i += 1;
        }
        true
    }
    pub fn as_slice(&self) -> &[u8] { &self.b[..self.n] }
}

/// number of bytes of the shortest head for argument v
pub fn head_len(v: u64) -> usize {
    if v < 24 { 1 } else if v < 0x100 { 2 } else if v < 0x1_0000 { 3 } else if v < 0x1_0000_0000 { 5 } else { 9 }
}
