//! Independent CBOR well-formedness scanner (RFC 8949 appendix C style), used as oracle by C02/C04 harnesses.
/// end offset of the data item starting at `pos`, or None if it is not well formed / truncated / deeper than `depth`
pub fn item_end(b: &[u8], pos: usize, depth: u32) -> Option<usize> {
    if pos >= b.len() { return None; }
    let ib = b[pos];
    let (mt, ai) = (ib >> 5, ib & 0x1f);
    let (arg, mut p, indef): (u64, usize, bool) = if ai < 24 { (ai as u64, pos + 1, false) }
        else if ai == 24 { if pos + 2 > b.len() { return None; } (b[pos + 1] as u64, pos + 2, false) }
        else if ai == 25 { if pos + 3 > b.len() { return None; } (((b[pos + 1] as u64) << 8) | b[pos + 2] as u64, pos + 3, false) }
        else if ai == 26 { if pos + 5 > b.len() { return None; } (((b[pos + 1] as u64) << 24) | ((b[pos + 2] as u64) << 16) | ((b[pos + 3] as u64) << 8) | b[pos + 4] as u64, pos + 5, false) }
        else if ai == 27 { if pos + 9 > b.len() { return None; } (u64::MAX, pos + 9, false) }
        else if ai == 31 { (0, pos + 1, true) }
        else { return None; };
    match mt {
        0 | 1 => if indef { None } else { Some(p) },
        2 | 3 => {
            if indef {
                loop {
                    if p >= b.len() { return None; }
                    if b[p] == 0xff { return Some(p + 1); }
                    if b[p] >> 5 != mt || b[p] & 0x1f == 31 { return None; }
                    p = item_end(b, p, 0)?;
                }
            } else {
                if arg > (b.len() - p) as u64 { return None; }
                Some(p + arg as usize)
            }
        }
        4 | 5 => {
            if depth == 0 { return None; }
            let per = if mt == 5 { 2 } else { 1 };
            if indef {
                loop {
                    if p >= b.len() { return None; }
                    if b[p] == 0xff { return Some(p + 1); }
                    let mut k = 0;
                    while k < per { p = item_end(b, p, depth - 1)?; k += 1; }
                }
            } else {
                if arg > b.len() as u64 { return None; }
                let mut n = 0u64;
                while n < arg * per { p = item_end(b, p, depth - 1)?; n += 1; }
                Some(p)
            }
        }
        6 => { if indef || depth == 0 { None } else { item_end(b, p, depth - 1) } }
        _ => { if ai == 31 { None } else { Some(p) } }
    }
}
