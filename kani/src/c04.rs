//! C04: a Plutus datum decoded from bytes re-encodes to exactly the bytes it was read from.
use crate::common::*;
use crate::csl::*;
use crate::{fg, Src};

/// every byte string of exactly N bytes: if the datum parser accepts a prefix of it, re-encoding the datum gives exactly
/// that prefix (so hash_plutus_data hashes the original bytes). Covers non-minimal heads, indefinite lists and maps,
/// general-form constructors (tag 102), chunked byte strings, as far as they fit N bytes.
fn datum_prefix<S: Src, const N: usize>(s: &mut S) {
    let buf: [u8; N] = s.bytes();
    let r = PlutusData::from_bytes(buf.to_vec());
    match r {
        Ok(d) => {
            let out = d.to_bytes();
            assert!(out.len() <= N);
            let mut i = 0;
            while i < out.len() { assert!(out[i] == buf[i]); i += 1; }
            // the bytes after the datum are not part of it: the datum must end where a well-formed item ends
            assert!(crate::wellformed::item_end(&buf, 0, 4) == Some(out.len()));
            fg(d);
        }
        Err(e) => fg(e),
    }
    vcover!(buf[0] == 0xd8 && buf[1] == 0x66 && buf[2] == 0x9f, "general-form constructor with indefinite pair");
}
pub fn datum_prefix_7<S: Src>(s: &mut S) { datum_prefix::<S, 7>(s) }
pub fn datum_prefix_5<S: Src>(s: &mut S) { datum_prefix::<S, 5>(s) }
