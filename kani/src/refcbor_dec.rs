//! Independent reference reader for CBOR heads (RFC 8949 section 3), used as decode oracle.

/// Parse one head of major type `mt` at the start of `b`. Returns (argument, bytes used) or None
/// if `b` does not start with a complete definite head of that major type.
pub fn uint_head(b: &[u8], mt: u8) -> Option<(u64, usize)> {
    if b.len() == 0 { return None; }
    if b[0] >> 5 != mt { return None; }
    let ai = b[0] & 0x1f;
    if ai < 24 { return Some((ai as u64, 1)); }
    let n = match ai { 24 => 1usize, 25 => 2, 26 => 4, 27 => 8, _ => return None };
    if b.len() < 1 + n { return None; }
    let mut v = 0u64;
    let mut i = 0;
    while i < n { v = (v << 8) | b[1 + i] as u64; i += 1; }
    Some((v, 1 + n))
}
