//! Native end-to-end battery over the transaction builder (public API only). It is the API-level confirmation step
//! for E2 counterexamples in builder bookkeeping functions (C05, C06, C18): the solver names the defective function
//! from symbolic execution of its MIR; this battery then has to exhibit a released transaction that violates
//! conservation of value or fee sufficiency. It decides nothing by itself and never makes a check pass.
use crate::csl::*;
use crate::Src;

const BYRON: &str = "Ae2tdPwUPEZ6r6zbg4ibhFrNnyKHg7SYuPSfDpjKxgvwFX9LquRep7gj7FQ";
fn kh(b: u8) -> Ed25519KeyHash { Ed25519KeyHash::from([b; 28]) }
fn kc(b: u8) -> Credential { Credential::from_keyhash(&kh(b)) }
fn bn(x: u64) -> BigNum { BigNum::from(x) }
fn pubkey(i: u8) -> PublicKey { let mut b = [9u8; 32]; b[31] = i; PublicKey::from_bytes(&b).unwrap() }
fn sig() -> Ed25519Signature { Ed25519Signature::from_bytes(vec![7u8; 64]).unwrap() }

fn addr(kind: u8, b: u8) -> Address {
    match kind {
        0 => BaseAddress::new(0, &kc(b), &kc(b.wrapping_add(100))).to_address(),
        1 => EnterpriseAddress::new(0, &kc(b)).to_address(),
        2 => PointerAddress::new(0, &kc(b), &Pointer::new_pointer(&bn(1), &bn(2), &bn(3))).to_address(),
        _ => ByronAddress::from_base58(BYRON).unwrap().to_address(),
    }
}
fn native_script(b: u8) -> NativeScript { NativeScript::new_script_pubkey(&ScriptPubkey::new(&kh(b))) }

fn config(price: bool) -> TransactionBuilderConfig {
    let mut c = TransactionBuilderConfigBuilder::new()
        .fee_algo(&LinearFee::new(&bn(44), &bn(155381)))
        .pool_deposit(&bn(500_000_000)).key_deposit(&bn(2_000_000))
        .max_value_size(5000).max_tx_size(16384)
        .coins_per_utxo_byte(&bn(4310));
    if price { c = c.ref_script_coins_per_byte(&UnitInterval::new(&bn(15), &bn(1))); }
    c.build().unwrap()
}

pub struct Violation(pub String);

/// one scenario; returns Err(description) when a released transaction violates conservation or fee sufficiency
fn scenario(kind: u8, with_ref: bool, extra: u8, fee_mode: u8) -> Result<bool, String> {
    let tag = format!("input kind {} ref_script {} extra {} fee_mode {}", kind, with_ref, extra, fee_mode);
    let mut tb = TransactionBuilder::new(&config(true));
    let in_coin: u64 = 3_000_000_000;
    // ---- inputs
    let mut out = TransactionOutput::new(&addr(kind, 1), &Value::new(&bn(in_coin)));
    let mut ref_size = 0usize;
    if with_ref {
        let sr = ScriptRef::new_native_script(&native_script(77));
        ref_size = sr.to_unwrapped_bytes().len();
        out.set_script_ref(&sr);
    }
    let utxo = TransactionUnspentOutput::new(&TransactionInput::new(&TransactionHash::from([3u8; 32]), 1), &out);
    let mut ib = TxInputsBuilder::new();
    ib.add_regular_utxo(&utxo).map_err(|_| format!("{}: add_regular_utxo failed", tag))?;
    tb.set_inputs(&ib);
    let mut signers: Vec<u8> = if kind == 3 { vec![] } else { vec![1] };
    let bootstraps = if kind == 3 { 1 } else { 0 };
    let (mut consumed, mut produced) = (in_coin as u128, 0u128);
    let (mut minted, mut burned) = (0u128, 0u128);
    // ---- extras
    if extra == 1 || extra == 5 {
        let mut cb = CertificatesBuilder::new();
        cb.add(&Certificate::new_stake_registration(&StakeRegistration::new_with_explicit_deposit(&kc(20), &bn(2_500_000)))).unwrap();
        cb.add(&Certificate::new_stake_delegation(&StakeDelegation::new(&kc(21), &kh(22)))).unwrap();
        tb.set_certs_builder(&cb);
        signers.push(21);
        produced += 2_500_000;
        let mut pb = VotingProposalBuilder::new();
        let anchor = Anchor::new(&URL::new("https://x.y".to_string()).unwrap(), &AnchorDataHash::from([5u8; 32]));
        pb.add(&VotingProposal::new(&GovernanceAction::new_info_action(&InfoAction::new()), &anchor, &RewardAddress::new(0, &kc(23)), &bn(100_000_000))).unwrap();
        tb.set_voting_proposal_builder(&pb);
        produced += 100_000_000;
    }
    if extra == 2 || extra == 5 {
        let mut wb = WithdrawalsBuilder::new();
        wb.add(&RewardAddress::new(0, &kc(30)), &bn(7_000_000)).unwrap();
        tb.set_withdrawals_builder(&wb);
        signers.push(30);
        consumed += 7_000_000;
        if extra == 2 {
            let mut cb = CertificatesBuilder::new();
            cb.add(&Certificate::new_stake_deregistration(&StakeDeregistration::new(&kc(31)))).unwrap();
            cb.add(&Certificate::new_pool_retirement(&PoolRetirement::new(&kh(32), 10))).unwrap();
            tb.set_certs_builder(&cb);
            signers.push(31); signers.push(32);
            consumed += 2_000_000;
        }
    }
    if extra == 3 {
        let mut mb = MintBuilder::new();
        let w = MintWitness::new_native_script(&NativeScriptSource::new(&native_script(40)));
        mb.add_asset(&w, &AssetName::new(vec![1]).unwrap(), &Int::new_i32(500)).unwrap();
        tb.set_mint_builder(&mb);
        signers.push(40);
        minted += 500;
    }
    if extra == 4 {
        tb.set_donation(&bn(9_000_000));
        produced += 9_000_000;
    }
    if extra == 6 {
        // two more inputs locked by the SAME native script whose sources declare DIFFERENT required signers
        let script = native_script(70);
        let mut ib2 = ib.clone();
        for (n, signer) in [(0u8, 70u8), (1u8, 71u8)] {
            let mut src = NativeScriptSource::new(&script);
            let mut ks = Ed25519KeyHashes::new();
            ks.add(&kh(signer));
            src.set_required_signers(&ks);
            ib2.add_native_script_input(&src, &TransactionInput::new(&TransactionHash::from([4u8; 32]), n as u32), &Value::new(&bn(50_000_000)));
            signers.push(signer);
            consumed += 50_000_000;
        }
        tb.set_inputs(&ib2);
    }
    tb.add_output(&TransactionOutput::new(&addr(0, 50), &Value::new(&bn(10_000_000)))).map_err(|_| format!("{}: add_output failed", tag))?;
    if fee_mode == 1 { tb.set_min_fee(&bn(2_000_000)); }
    if tb.add_change_if_needed(&addr(1, 60)).is_err() { return Ok(false); }
    let tx = match tb.build_tx() { Ok(t) => t, Err(_) => return Ok(false) };
    // ---- conservation on the released transaction, from the parts put in
    let body = tx.body();
    let fee = u64::from(body.fee());
    let outs = body.outputs();
    let mut out_coin = 0u128;
    let mut out_asset = 0u128;
    for i in 0..outs.len() {
        let v = outs.get(i).amount();
        out_coin += u64::from(v.coin()) as u128;
        if let Some(ma) = v.multiasset() {
            let pols = ma.keys();
            for p in 0..pols.len() {
                let assets = ma.get(&pols.get(p)).unwrap();
                let names = assets.keys();
                for n in 0..names.len() { out_asset += u64::from(assets.get(&names.get(n)).unwrap()) as u128; }
            }
        }
    }
    if consumed != out_coin + fee as u128 + produced {
        return Err(format!("{}: released transaction does not conserve lovelace: consumed {} != outputs {} + fee {} + deposits/donation {}", tag, consumed, out_coin, fee, produced));
    }
    if minted != out_asset + burned {
        return Err(format!("{}: released transaction does not conserve assets: minted {} != outputs {}", tag, minted, out_asset));
    }
    if fee_mode == 1 && fee < 2_000_000 { return Err(format!("{}: requested minimum fee not honoured ({})", tag, fee)); }
    // ---- fee sufficiency for the transaction signed by exactly the distinct required keys
    signers.sort(); signers.dedup();
    let mut ws = tx.witness_set();
    if !signers.is_empty() {
        let mut vk = Vkeywitnesses::new();
        for s in &signers { vk.add(&Vkeywitness::new(&Vkey::new(&pubkey(*s)), &sig())); }
        ws.set_vkeys(&vk);
    }
    if bootstraps > 0 {
        let mut bw = BootstrapWitnesses::new();
        let ba = ByronAddress::from_base58(BYRON).unwrap();
        bw.add(&BootstrapWitness::new(&Vkey::new(&pubkey(200)), &sig(), vec![1u8; 32], ba.attributes()));
        ws.set_bootstraps(&bw);
    }
    let signed = Transaction::new(&body, &ws, tx.auxiliary_data());
    let lin = u64::from(min_fee(&signed, &LinearFee::new(&bn(44), &bn(155381))).map_err(|_| "min_fee failed".to_string())?);
    let refs = u64::from(min_ref_script_fee(ref_size, &UnitInterval::new(&bn(15), &bn(1))).map_err(|_| "ref fee failed".to_string())?);
    if (fee as u128) < lin as u128 + refs as u128 {
        return Err(format!("{}: fee {} is below the ledger minimum {} (linear {} for {} bytes + reference scripts {})", tag, fee, lin + refs, lin, signed.to_bytes().len(), refs));
    }
    Ok(true)
}

pub fn builder_battery<S: Src>(_s: &mut S) {
    let mut failures = Vec::new();
    let mut released = 0;
    for kind in 0..4u8 {
        for with_ref in [false, true] {
            for extra in 0..7u8 {
                for fee_mode in 0..2u8 {
                    match scenario(kind, with_ref, extra, fee_mode) { Ok(true) => released += 1, Ok(false) => (), Err(e) => failures.push(e) }
                }
            }
        }
    }
    assert!(failures.is_empty(), "{} of 112 builder scenarios violate the property; first: {}", failures.len(), failures[0]);
    if std::env::var("VERIF_BATTERY_VERBOSE").is_ok() { eprintln!("battery: {} of 112 scenarios released a transaction", released); }
}
