//! Native end-to-end battery over the transaction builder (public API only). It is the API-level confirmation step
//! for E2 counterexamples in builder bookkeeping functions (C05, C06, C18): the solver names the defective function
//! from symbolic execution of its MIR; this battery then has to exhibit a released transaction that violates
//! conservation of value or fee sufficiency. It decides nothing by itself and never makes a check pass.
use crate::csl::*;
use crate::Src;

const BYRON: &str = "Ae2tdPwUPEZ6r6zbg4ibhFrNnyKHg7SYuPSfDpjKxgvwFX9LquRep7gj7FQ";
fn kh(b: u8) -> Ed25519KeyHash { Ed25519KeyHash::from([b; 28]) }
fn kc(b: u8) -> Credential { Credential::from_keyhash(&kh(b)) }
fn bn(x: u64) -> BigNum { BigNum::from(x) }
fn pubkey(i: u8) -> PublicKey { let mut b = [9u8; 32]; b[31] = i; PublicKey::from_bytes(&b).unwrap() }
fn sig() -> Ed25519Signature { Ed25519Signature::from_bytes(vec![7u8; 64]).unwrap() }

fn addr(kind: u8, b: u8) -> Address {
    match kind {
        0 => BaseAddress::new(0, &kc(b), &kc(b.wrapping_add(100))).to_address(),
        1 => EnterpriseAddress::new(0, &kc(b)).to_address(),
        2 => PointerAddress::new(0, &kc(b), &Pointer::new_pointer(&bn(1), &bn(2), &bn(3))).to_address(),
        _ => ByronAddress::from_base58(BYRON).unwrap().to_address(),
    }
}
fn native_script(b: u8) -> NativeScript { NativeScript::new_script_pubkey(&ScriptPubkey::new(&kh(b))) }

fn config(price: bool) -> TransactionBuilderConfig {
    let mut c = TransactionBuilderConfigBuilder::new()
        .fee_algo(&LinearFee::new(&bn(44), &bn(155381)))
        .pool_deposit(&bn(500_000_000)).key_deposit(&bn(2_000_000))
        .max_value_size(5000).max_tx_size(16384)
        .coins_per_utxo_byte(&bn(4310));
    if price { c = c.ref_script_coins_per_byte(&UnitInterval::new(&bn(15), &bn(1))); }
    c.build().unwrap()
}

pub struct Violation(pub String);

/// one scenario; returns Err(description) when a released transaction violates conservation or fee sufficiency
fn scenario(kind: u8, with_ref: bool, extra: u8, fee_mode: u8) -> Result<bool, String> {
    let tag = format!("input kind {} ref_script {} extra {} fee_mode {}", kind, with_ref, extra, fee_mode);
    let mut tb = TransactionBuilder::new(&config(true));
    let in_coin: u64 = 3_000_000_000;
    // ---- inputs
    let mut out = TransactionOutput::new(&addr(kind, 1), &Value::new(&bn(in_coin)));
    let mut ref_size = 0usize;
    if with_ref {
        let sr = ScriptRef::new_native_script(&native_script(77));
        ref_size = sr.to_unwrapped_bytes().len();
        out.set_script_ref(&sr);
    }
    let utxo = TransactionUnspentOutput::new(&TransactionInput::new(&TransactionHash::from([3u8; 32]), 1), &out);
    let mut ib = TxInputsBuilder::new();
    ib.add_regular_utxo(&utxo).map_err(|_| format!("{}: add_regular_utxo failed", tag))?;
    tb.set_inputs(&ib);
    let mut signers: Vec<u8> = if kind == 3 { vec![] } else { vec![1] };
    let bootstraps = if kind == 3 { 1 } else { 0 };
    let (mut consumed, mut produced) = (in_coin as u128, 0u128);
    let (mut minted, mut burned) = (0u128, 0u128);
    // ---- extras
    if extra == 1 || extra == 5 {
        let mut cb = CertificatesBuilder::new();
        cb.add(&Certificate::new_stake_registration(&StakeRegistration::new_with_explicit_deposit(&kc(20), &bn(2_500_000)))).unwrap();
        cb.add(&Certificate::new_stake_delegation(&StakeDelegation::new(&kc(21), &kh(22)))).unwrap();
        tb.set_certs_builder(&cb);
        signers.push(21);
        produced += 2_500_000;
        let mut pb = VotingProposalBuilder::new();
        let anchor = Anchor::new(&URL::new("https://x.y".to_string()).unwrap(), &AnchorDataHash::from([5u8; 32]));
        pb.add(&VotingProposal::new(&GovernanceAction::new_info_action(&InfoAction::new()), &anchor, &RewardAddress::new(0, &kc(23)), &bn(100_000_000))).unwrap();
        tb.set_voting_proposal_builder(&pb);
        produced += 100_000_000;
    }
    if extra == 2 || extra == 5 {
        let mut wb = WithdrawalsBuilder::new();
        wb.add(&RewardAddress::new(0, &kc(30)), &bn(7_000_000)).unwrap();
        tb.set_withdrawals_builder(&wb);
        signers.push(30);
        consumed += 7_000_000;
        if extra == 2 {
            let mut cb = CertificatesBuilder::new();
            cb.add(&Certificate::new_stake_deregistration(&StakeDeregistration::new(&kc(31)))).unwrap();
            cb.add(&Certificate::new_pool_retirement(&PoolRetirement::new(&kh(32), 10))).unwrap();
            tb.set_certs_builder(&cb);
            signers.push(31); signers.push(32);
            consumed += 2_000_000;
        }
    }
    if extra == 3 {
        let mut mb = MintBuilder::new();
        let w = MintWitness::new_native_script(&NativeScriptSource::new(&native_script(40)));
        mb.add_asset(&w, &AssetName::new(vec![1]).unwrap(), &Int::new_i32(500)).unwrap();
        tb.set_mint_builder(&mb);
        signers.push(40);
        minted += 500;
    }
    if extra == 4 {
        tb.set_donation(&bn(9_000_000));
        produced += 9_000_000;
    }
    if extra == 6 {
        // two more inputs locked by the SAME native script whose sources declare DIFFERENT required signers
        let script = native_script(70);
        let mut ib2 = ib.clone();
        for (n, signer) in [(0u8, 70u8), (1u8, 71u8)] {
            let mut src = NativeScriptSource::new(&script);
            let mut ks = Ed25519KeyHashes::new();
            ks.add(&kh(signer));
            src.set_required_signers(&ks);
            ib2.add_native_script_input(&src, &TransactionInput::new(&TransactionHash::from([4u8; 32]), n as u32), &Value::new(&bn(50_000_000)));
            signers.push(signer);
            consumed += 50_000_000;
        }
        tb.set_inputs(&ib2);
    }
    tb.add_output(&TransactionOutput::new(&addr(0, 50), &Value::new(&bn(10_000_000)))).map_err(|_| format!("{}: add_output failed", tag))?;
    if fee_mode == 1 { tb.set_min_fee(&bn(2_000_000)); }
    if tb.add_change_if_needed(&addr(1, 60)).is_err() { return Ok(false); }
    let tx = match tb.build_tx() { Ok(t) => t, Err(_) => return Ok(false) };
    // ---- conservation on the released transaction, from the parts put in
    let body = tx.body();
    let fee = u64::from(body.fee());
    let outs = body.outputs();
    let mut out_coin = 0u128;
    let mut out_asset = 0u128;
    for i in 0..outs.len() {
        let v = outs.get(i).amount();
        out_coin += u64::from(v.coin()) as u128;
        if let Some(ma) = v.multiasset() {
            let pols = ma.keys();
            for p in 0..pols.len() {
                let assets = ma.get(&pols.get(p)).unwrap();
                let names = assets.keys();
                for n in 0..names.len() { out_asset += u64::from(assets.get(&names.get(n)).unwrap()) as u128; }
            }
        }
    }
    if consumed != out_coin + fee as u128 + produced {
        return Err(format!("{}: released transaction does not conserve lovelace: consumed {} != outputs {} + fee {} + deposits/donation {}", tag, consumed, out_coin, fee, produced));
    }
    if minted != out_asset + burned {
        return Err(format!("{}: released transaction does not conserve assets: minted {} != outputs {}", tag, minted, out_asset));
    }
    if fee_mode == 1 && fee < 2_000_000 { return Err(format!("{}: requested minimum fee not honoured ({})", tag, fee)); }
    // ---- fee sufficiency for the transaction signed by exactly the distinct required keys
    signers.sort(); signers.dedup();
    let mut ws = tx.witness_set();
    if !signers.is_empty() {
        let mut vk = Vkeywitnesses::new();
        for s in &signers { vk.add(&Vkeywitness::new(&Vkey::new(&pubkey(*s)), &sig())); }
        ws.set_vkeys(&vk);
    }
    if bootstraps > 0 {
        let mut bw = BootstrapWitnesses::new();
        let ba = ByronAddress::from_base58(BYRON).unwrap();
        bw.add(&BootstrapWitness::new(&Vkey::new(&pubkey(200)), &sig(), vec![1u8; 32], ba.attributes()));
        ws.set_bootstraps(&bw);
    }
    let signed = Transaction::new(&body, &ws, tx.auxiliary_data());
    let lin = u64::from(min_fee(&signed, &LinearFee::new(&bn(44), &bn(155381))).map_err(|_| "min_fee failed".to_string())?);
    let refs = u64::from(min_ref_script_fee(ref_size, &UnitInterval::new(&bn(15), &bn(1))).map_err(|_| "ref fee failed".to_string())?);
    if (fee as u128) < lin as u128 + refs as u128 {
        return Err(format!("{}: fee {} is below the ledger minimum {} (linear {} for {} bytes + reference scripts {})", tag, fee, lin + refs, lin, signed.to_bytes().len(), refs));
    }
    Ok(true)
}

/// explicitly declared reference scripts, also on an outpoint that is spent by the same transaction (with and without the
/// de-duplication option): the ledger prices the scripts on spent AND referenced outputs, each outpoint once
fn ref_inputs_scenario(dedup: bool, same: bool, both: bool, size: usize) -> Result<bool, String> {
    let tag = format!("declared reference script: dedup {} on the spent outpoint {} plus another {} size {}", dedup, same, both, size);
    let cfg = TransactionBuilderConfigBuilder::new()
        .fee_algo(&LinearFee::new(&bn(44), &bn(155381))).pool_deposit(&bn(500_000_000)).key_deposit(&bn(2_000_000))
        .max_value_size(5000).max_tx_size(16384).coins_per_utxo_byte(&bn(4310))
        .ref_script_coins_per_byte(&UnitInterval::new(&bn(15), &bn(1)))
        .deduplicate_explicit_ref_inputs_with_regular_inputs(dedup)
        .build().map_err(|_| "config".to_string())?;
    let mut tb = TransactionBuilder::new(&cfg);
    let spent = TransactionInput::new(&TransactionHash::from([3u8; 32]), 1);
    let other = TransactionInput::new(&TransactionHash::from([6u8; 32]), 0);
    let mut ib = TxInputsBuilder::new();
    ib.add_regular_input(&addr(1, 1), &spent, &Value::new(&bn(3_000_000_000))).map_err(|_| format!("{}: add_regular_input failed", tag))?;
    tb.set_inputs(&ib);
    let mut total = 0usize;
    if same { tb.add_script_reference_input(&spent, size); total += size; }
    if both { tb.add_script_reference_input(&other, size + 100); total += size + 100; }
    tb.add_output(&TransactionOutput::new(&addr(0, 50), &Value::new(&bn(10_000_000)))).map_err(|_| format!("{}: add_output failed", tag))?;
    if tb.add_change_if_needed(&addr(1, 60)).is_err() { return Ok(false); }
    let tx = match tb.build_tx() { Ok(t) => t, Err(_) => return Ok(false) };
    let fee = u64::from(tx.body().fee());
    let mut ws = tx.witness_set();
    let mut vk = Vkeywitnesses::new();
    vk.add(&Vkeywitness::new(&Vkey::new(&pubkey(1)), &sig()));
    ws.set_vkeys(&vk);
    let signed = Transaction::new(&tx.body(), &ws, tx.auxiliary_data());
    let lin = u64::from(min_fee(&signed, &LinearFee::new(&bn(44), &bn(155381))).map_err(|_| "min_fee failed".to_string())?);
    let refs = u64::from(min_ref_script_fee(total, &UnitInterval::new(&bn(15), &bn(1))).map_err(|_| "ref fee failed".to_string())?);
    if (fee as u128) < lin as u128 + refs as u128 {
        return Err(format!("{}: fee {} is below the ledger minimum {} (linear {} + reference scripts {} for {} bytes)", tag, fee, lin + refs, lin, refs, total));
    }
    Ok(true)
}

pub fn builder_battery<S: Src>(_s: &mut S) {
    let mut failures = Vec::new();
    let mut released = 0;
    for dedup in [false, true] { for same in [false, true] { for both in [false, true] { for size in [1usize, 3000, 30_000] {
        match ref_inputs_scenario(dedup, same, both, size) { Ok(true) => released += 1, Ok(false) => (), Err(e) => failures.push(e) }
    } } } }
    for kind in 0..4u8 {
        for with_ref in [false, true] {
            for extra in 0..7u8 {
                for fee_mode in 0..2u8 {
                    match scenario(kind, with_ref, extra, fee_mode) { Ok(true) => released += 1, Ok(false) => (), Err(e) => failures.push(e) }
                }
            }
        }
    }
    assert!(failures.is_empty(), "{} of 136 builder scenarios violate the property; first: {}", failures.len(), failures[0]);
    if std::env::var("VERIF_BATTERY_VERBOSE").is_ok() { eprintln!("battery: {} of 136 scenarios released a transaction", released); }
}

// ---------------------------------------------------------------- C09 / C16: script data hash vs emitted witness set
fn c09_scenario(extra: u8) -> Result<(), String> {
    let tag = format!("plutus spend, extra datums variant {}", extra);
    let mut tb = TransactionBuilder::new(&config(true));
    let script = PlutusScript::new(vec![1u8, 2, 3, 4, 5]);
    let datum = PlutusData::from_bytes(vec![0x82, 0x01, 0x02]).unwrap();              // definite list [1, 2]
    let same_value_other_bytes = PlutusData::from_bytes(vec![0x9f, 0x01, 0x02, 0xff]).unwrap(); // indefinite list [1, 2]
    let redeemer = Redeemer::new(&RedeemerTag::new_spend(), &bn(0), &PlutusData::new_bytes(vec![9]), &ExUnits::new(&bn(10), &bn(20)));
    let mut ib = TxInputsBuilder::new();
    ib.add_plutus_script_input(&PlutusWitness::new(&script, &datum, &redeemer), &TransactionInput::new(&TransactionHash::from([6u8; 32]), 0), &Value::new(&bn(100_000_000)));
    tb.set_inputs(&ib);
    match extra {
        1 => tb.add_extra_witness_datum(&PlutusData::new_bytes(vec![7, 7])),
        2 => { tb.add_extra_witness_datum(&PlutusData::new_bytes(vec![7, 7])); tb.add_extra_witness_datum(&PlutusData::new_bytes(vec![7, 7])); }
        3 => tb.add_extra_witness_datum(&datum),
        4 => tb.add_extra_witness_datum(&same_value_other_bytes),
        5 => { tb.add_extra_witness_datum(&same_value_other_bytes); tb.add_extra_witness_datum(&PlutusData::new_bytes(vec![8])); }
        // distinct datums that arrive in an order that is not ascending under any natural comparison
        6 => { tb.add_extra_witness_datum(&PlutusData::new_integer(&BigInt::from_str("2").unwrap())); tb.add_extra_witness_datum(&PlutusData::new_integer(&BigInt::from_str("1").unwrap())); }
        7 => { tb.add_extra_witness_datum(&PlutusData::new_bytes(vec![9, 9, 9]));
               tb.add_extra_witness_datum(&PlutusData::new_constr_plutus_data(&ConstrPlutusData::new(&bn(0), &PlutusList::new())));
               tb.add_extra_witness_datum(&PlutusData::new_integer(&BigInt::from_str("-5").unwrap())); }
        _ => (),
    }
    let two_languages = extra == 8;
    if two_languages {
        // a second input locked by a PlutusV2 script: the language views then hold two entries, in canonical key order (V2 before V1)
        let script2 = PlutusScript::new_v2(vec![6u8, 7, 8]);
        let red2 = Redeemer::new(&RedeemerTag::new_spend(), &bn(1), &PlutusData::new_bytes(vec![8]), &ExUnits::new(&bn(11), &bn(21)));
        let mut ib2 = TxInputsBuilder::new();
        ib2.add_plutus_script_input(&PlutusWitness::new(&script, &datum, &redeemer), &TransactionInput::new(&TransactionHash::from([6u8; 32]), 0), &Value::new(&bn(100_000_000)));
        ib2.add_plutus_script_input(&PlutusWitness::new(&script2, &PlutusData::new_bytes(vec![5]), &red2), &TransactionInput::new(&TransactionHash::from([7u8; 32]), 0), &Value::new(&bn(100_000_000)));
        tb.set_inputs(&ib2);
    }
    let mut cm = Costmdls::new();
    let mut model = CostModel::new();
    for i in 0..4 { model.set(i, &Int::new_i32(100 + i as i32)).unwrap(); }
    cm.insert(&Language::new_plutus_v1(), &model);
    if two_languages { cm.insert(&Language::new_plutus_v2(), &model); }
    tb.calc_script_data_hash(&cm).map_err(|_| format!("{}: calc_script_data_hash failed", tag))?;
    let ws = tb_witness_set(&tb)?;
    let body_hash = tb_script_data_hash(&tb)?;
    // the ledger's derivation from the EMITTED witness set
    let mut used = Costmdls::new();
    let v1 = Language::new_plutus_v1();
    used.insert(&v1, &cm.get(&v1).unwrap());
    if two_languages { let v2 = Language::new_plutus_v2(); used.insert(&v2, &cm.get(&v2).unwrap()); }
    let expected = hash_script_data(&ws.redeemers().unwrap_or(Redeemers::new()), &used, ws.plutus_data());
    if expected.to_bytes() != body_hash.to_bytes() {
        return Err(format!("{}: script data hash in the body differs from the hash derived from the emitted witness set", tag));
    }
    // independent derivation: blake2b256( bytes of witness-set field 5 | bytes of field 4 | language views ), the raw fields cut out of
    // the serialized witness set with the reference scanner; the PlutusV1 language view written by hand from the ledger's definition
    let wsb = ws.to_bytes();
    let (mut f4, mut f5): (Option<Vec<u8>>, Option<Vec<u8>>) = (None, None);
    if !wsb.is_empty() && wsb[0] >> 5 == 5 && (wsb[0] & 0x1f) < 24 {
        let mut p = 1usize;
        for _ in 0..(wsb[0] & 0x1f) {
            let key = wsb[p];
            let end = crate::wellformed::item_end(&wsb, p + 1, 64).ok_or(format!("{}: emitted witness set is not well-formed CBOR", tag))?;
            if key == 4 { f4 = Some(wsb[p + 1..end].to_vec()); }
            if key == 5 { f5 = Some(wsb[p + 1..end].to_vec()); }
            p = end;
        }
    }
    let view_v1: Vec<u8> = if two_languages {
        vec![0xa2, 0x01, 0x84, 0x18, 100, 0x18, 101, 0x18, 102, 0x18, 103, 0x41, 0x00, 0x4a, 0x9f, 0x18, 100, 0x18, 101, 0x18, 102, 0x18, 103, 0xff]
    } else {
        vec![0xa1, 0x41, 0x00, 0x4a, 0x9f, 0x18, 100, 0x18, 101, 0x18, 102, 0x18, 103, 0xff]
    };
    let mut pre = f5.ok_or(format!("{}: no redeemers in the emitted witness set", tag))?;
    if let Some(d) = f4 { pre.extend(d); }
    pre.extend(view_v1);
    if blake2b256_ref(&pre).to_vec() != body_hash.to_bytes() {
        return Err(format!("{}: script data hash in the body is not blake2b256(redeemers | datums | language views) of the bytes actually emitted", tag));
    }
    // emitted datums: each once
    if let Some(d) = ws.plutus_data() {
        for i in 0..d.len() { for j in 0..i { if d.get(i).to_bytes() == d.get(j).to_bytes() { return Err(format!("{}: a datum is emitted twice", tag)); } } }
    }
    Ok(())
}
/// C18, size half: the size the builder predicts (full_size) covers the transaction as it is really signed — built
/// transaction plus one key witness per required key — for Plutus spends with 0..2 extra witness datums
fn c18_size_scenario(extra: u8) -> Result<(), String> {
    let tag = format!("predicted size, plutus spend with inline witness datum, extra datums variant {}", extra);
    let mut tb = TransactionBuilder::new(&config(true));
    let script = PlutusScript::new(vec![1u8, 2, 3, 4, 5]);
    let datum = PlutusData::from_bytes(vec![0x82, 0x01, 0x02]).unwrap();
    let redeemer = Redeemer::new(&RedeemerTag::new_spend(), &bn(0), &PlutusData::new_bytes(vec![9]), &ExUnits::new(&bn(10), &bn(20)));
    let mut ib = TxInputsBuilder::new();
    ib.add_plutus_script_input(&PlutusWitness::new(&script, &datum, &redeemer), &TransactionInput::new(&TransactionHash::from([6u8; 32]), 0), &Value::new(&bn(100_000_000)));
    ib.add_key_input(&kh(1), &TransactionInput::new(&TransactionHash::from([7u8; 32]), 0), &Value::new(&bn(100_000_000)));
    tb.set_inputs(&ib);
    match extra {
        1 => tb.add_extra_witness_datum(&PlutusData::new_bytes(vec![7; 60])),
        2 => { tb.add_extra_witness_datum(&PlutusData::new_bytes(vec![7; 60])); tb.add_extra_witness_datum(&PlutusData::new_bytes(vec![8; 40])); }
        _ => (),
    }
    tb.add_output(&TransactionOutput::new(&addr(0, 50), &Value::new(&bn(10_000_000)))).map_err(|_| format!("{}: add_output failed", tag))?;
    tb.set_fee(&bn(2_000_000));
    let predicted = tb.full_size().map_err(|_| format!("{}: full_size failed", tag))?;
    let tx = tb.build_tx_unsafe().map_err(|_| format!("{}: build failed", tag))?;
    let mut ws = tx.witness_set();
    let mut vk = Vkeywitnesses::new();
    vk.add(&Vkeywitness::new(&Vkey::new(&pubkey(1)), &sig()));
    ws.set_vkeys(&vk);
    let signed = Transaction::new(&tx.body(), &ws, tx.auxiliary_data()).to_bytes().len();
    if predicted < signed { return Err(format!("{}: predicted size {} is below the size of the signed transaction {}", tag, predicted, signed)); }
    if predicted > signed + 110 { return Err(format!("{}: predicted size {} exceeds the signed size {} by more than one key witness", tag, predicted, signed)); }
    Ok(())
}

fn tb_witness_set(tb: &TransactionBuilder) -> Result<TransactionWitnessSet, String> {
    let mut b = tb.clone();
    b.set_fee(&bn(1_000_000));
    Ok(b.build_tx_unsafe().map_err(|_| "build_tx_unsafe failed".to_string())?.witness_set())
}
fn tb_script_data_hash(tb: &TransactionBuilder) -> Result<ScriptDataHash, String> {
    let mut b = tb.clone();
    b.set_fee(&bn(1_000_000));
    b.build_tx_unsafe().map_err(|_| "build_tx_unsafe failed".to_string())?.body().script_data_hash().ok_or("no script data hash".to_string())
}

/// two transactions that differ only in the datum list they EMIT must have different script-data hashes: a datum with the
/// same structure but different original bytes as the spend datum is emitted as a second element, so the hash must cover it
fn c09_bytes_variant_scenario() -> Result<(), String> {
    let build = |with_extra: bool| -> Result<(Vec<u8>, usize), String> {
        let mut tb = TransactionBuilder::new(&config(true));
        let script = PlutusScript::new(vec![1u8, 2, 3, 4, 5]);
        // the integer 7 in its minimal and in a widened head: equal structure, different original bytes (and datum hashes)
        let datum = PlutusData::from_bytes(vec![0x07]).unwrap();
        let same_structure_other_bytes = PlutusData::from_bytes(vec![0x18, 0x07]).unwrap();
        let redeemer = Redeemer::new(&RedeemerTag::new_spend(), &bn(0), &PlutusData::new_bytes(vec![9]), &ExUnits::new(&bn(10), &bn(20)));
        let mut ib = TxInputsBuilder::new();
        ib.add_plutus_script_input(&PlutusWitness::new(&script, &datum, &redeemer), &TransactionInput::new(&TransactionHash::from([6u8; 32]), 0), &Value::new(&bn(100_000_000)));
        tb.set_inputs(&ib);
        if with_extra { tb.add_extra_witness_datum(&same_structure_other_bytes); }
        let mut cm = Costmdls::new();
        let mut model = CostModel::new();
        for i in 0..4 { model.set(i, &Int::new_i32(100 + i as i32)).unwrap(); }
        cm.insert(&Language::new_plutus_v1(), &model);
        tb.calc_script_data_hash(&cm).map_err(|_| "calc_script_data_hash failed".to_string())?;
        let n = tb_witness_set(&tb)?.plutus_data().map(|d| d.len()).unwrap_or(0);
        Ok((tb_script_data_hash(&tb)?.to_bytes(), n))
    };
    let (h1, n1) = build(false)?;
    let (h2, n2) = build(true)?;
    if n1 != n2 && h1 == h2 {
        return Err(format!("the witness set emits {} datums with the extra datum and {} without, but the script-data hash is the same: the hash does not cover every emitted datum", n2, n1));
    }
    Ok(())
}

pub fn c09_battery<S: Src>(_s: &mut S) {
    let mut failures = Vec::new();
    if let Err(e) = c09_bytes_variant_scenario() { failures.push(e); }
    for extra in 0..9u8 { if let Err(e) = c09_scenario(extra) { failures.push(e); } }
    for extra in 0..3u8 { if let Err(e) = c18_size_scenario(extra) { failures.push(e); } }
    assert!(failures.is_empty(), "{} of 9 script-data-hash scenarios violate the property; first: {}", failures.len(), failures[0]);
}

// ---------------------------------------------------------------- C07: outputs created by the balancing step meet their minimum ADA
const LONG_BYRON: &str = "DdzFFzCqrhsrcTVhLygT24QwTnNqQqQ8mZrq5jykUzMveU26sxaH529kMpo7VhPrt5pwW3dXeB2k3EEvKcNBRmzCfcQ7dTkyGzTs658C";
fn c07_tokens(policies: u8, names: u8) -> MultiAsset {
    let mut ma = MultiAsset::new();
    for p in 0..policies {
        let mut assets = Assets::new();
        for n in 0..names { assets.insert(&AssetName::new(vec![0x41 + n; 8]).unwrap(), &bn(1_000_000 + n as u64)); }
        ma.insert(&ScriptHash::from([0x10 + p; 28]), &assets);
    }
    ma
}
fn c07_change_scenario(addr_kind: u8, max_value_size: u32, policies: u8, in_coin: u64) -> Result<(), String> {
    let tag = format!("change address kind {} max_value_size {} policies {} input {}", addr_kind, max_value_size, policies, in_coin);
    let cpb = 4310u64;
    let cfg = TransactionBuilderConfigBuilder::new().fee_algo(&LinearFee::new(&bn(44), &bn(155381))).pool_deposit(&bn(500_000_000)).key_deposit(&bn(2_000_000))
        .max_value_size(max_value_size).max_tx_size(16384).coins_per_utxo_byte(&bn(cpb)).build().unwrap();
    let mut tb = TransactionBuilder::new(&cfg);
    let mut v = Value::new(&bn(in_coin));
    if policies > 0 { v.set_multiasset(&c07_tokens(policies, 2)); }
    tb.add_regular_input(&addr(0, 1), &TransactionInput::new(&TransactionHash::from([7u8; 32]), 0), &v).map_err(|_| format!("{}: input refused", tag))?;
    tb.add_output(&TransactionOutput::new(&addr(0, 50), &Value::new(&bn(2_000_000)))).map_err(|_| format!("{}: payment refused", tag))?;
    let change = match addr_kind { 4 => ByronAddress::from_base58(LONG_BYRON).unwrap().to_address(), k => addr(k, 100) };
    if tb.add_change_if_needed(&change).is_err() { return Ok(()); }        // refusing is fine
    let body = match tb.build() { Ok(b) => b, Err(_) => return Ok(()) };
    let outs = body.outputs();
    let dc = DataCost::new_coins_per_byte(&bn(cpb));
    for i in 0..outs.len() {
        let o = outs.get(i);
        let coin: u64 = o.amount().coin().into();
        let need = cpb * (160 + o.to_bytes().len() as u64);
        if coin < need { return Err(format!("{}: output #{} holds {} lovelace, {} bytes need {}", tag, i, coin, o.to_bytes().len(), need)); }
        let m: u64 = min_ada_for_output(&o, &dc).map_err(|_| format!("{}: min_ada_for_output failed", tag))?.into();
        if coin < m { return Err(format!("{}: output #{} holds {} lovelace, below min_ada_for_output {}", tag, i, coin, m)); }
        if o.amount().to_bytes().len() > max_value_size as usize { return Err(format!("{}: output #{} value of {} bytes exceeds max_value_size", tag, i, o.amount().to_bytes().len())); }
    }
    Ok(())
}
pub fn c07_change_min_ada<S: Src>(_s: &mut S) {
    let mut failures = Vec::new();
    let mut n = 0;
    for kind in [0u8, 1, 2, 3, 4] {
        for mvs in [150u32, 5000] {
            for pol in [0u8, 1, 2, 4] {
                for coin in [3_300_000u64, 3_400_000, 3_500_000, 3_700_000, 4_000_000, 5_000_000, 10_000_000, 50_000_000] {
                    n += 1;
                    if let Err(e) = c07_change_scenario(kind, mvs, pol, coin) { failures.push(e); }
                }
            }
        }
    }
    assert!(failures.is_empty(), "{} of {} change-output scenarios violate the minimum-ADA / value-size bound; first: {}", failures.len(), n, failures[0]);
}

// ---------------------------------------------------------------- C03 builder clause: no zero-quantity asset / empty policy bundle in a change output
pub fn c03_change_zero_quantities<S: Src>(_s: &mut S) {
    let mut failures: Vec<String> = Vec::new();
    let pol = |b: u8| ScriptHash::from([b; 28]);
    let an = |b: u8| AssetName::new(vec![b]).unwrap();
    // input bundles that carry entries with quantity 0 next to positive ones (the API allows them; the leftover is input - output)
    let inputs: Vec<Vec<(u8, u8, u64)>> = vec![
        vec![(7, 1, 0), (7, 2, 5)],
        vec![(7, 1, 0), (8, 3, 5)],
        vec![(7, 1, 5), (8, 3, 0), (8, 4, 0)],
        vec![(7, 1, 0), (7, 2, 0), (7, 3, 9), (9, 1, 1)],
    ];
    for (k, bundle) in inputs.iter().enumerate() {
        for pure in [false, true] {
            let cfg = TransactionBuilderConfigBuilder::new().fee_algo(&LinearFee::new(&bn(44), &bn(155381))).pool_deposit(&bn(500_000_000)).key_deposit(&bn(2_000_000))
                .max_value_size(5000).max_tx_size(16384).coins_per_utxo_byte(&bn(4310)).prefer_pure_change(pure).build().unwrap();
            let mut tb = TransactionBuilder::new(&cfg);
            let mut ma = MultiAsset::new();
            for (p, n, q) in bundle { ma.set_asset(&pol(*p), &an(*n), &bn(*q)); }
            if tb.add_regular_input(&addr(1, 1), &TransactionInput::new(&TransactionHash::from([3u8; 32]), 0), &Value::new_with_assets(&bn(20_000_000), &ma)).is_err() { continue; }
            if tb.add_output(&TransactionOutput::new(&addr(1, 2), &Value::new(&bn(2_000_000)))).is_err() { continue; }
            if tb.add_change_if_needed(&addr(1, 3)).is_err() { continue; }
            let body = match tb.build() { Ok(b) => b, Err(_) => continue };
            for i in 1..body.outputs().len() {            // outputs the builder created (the first one is the caller's)
                if let Some(m) = body.outputs().get(i).amount().multiasset() {
                    let pols = m.keys();
                    for pi in 0..pols.len() {
                        let assets = m.get(&pols.get(pi)).unwrap();
                        if assets.len() == 0 { failures.push(format!("input bundle {} (prefer_pure_change {}): change output #{} holds a policy without assets", k, pure, i)); }
                        let names = assets.keys();
                        for ni in 0..names.len() {
                            if u64::from(assets.get(&names.get(ni)).unwrap()) == 0 { failures.push(format!("input bundle {} (prefer_pure_change {}): change output #{} holds an asset with quantity 0", k, pure, i)); }
                        }
                    }
                }
            }
        }
    }
    assert!(failures.is_empty(), "{} change outputs hold a zero-quantity asset or an empty policy bundle; first: {}", failures.len(), failures[0]);
}

// ---------------------------------------------------------------- C01: every Plutus data variant the library writes decodes as that variant
pub fn c01_plutus_variants<S: Src>(_s: &mut S) {
    let mut failures: Vec<String> = Vec::new();
    let ints = ["0", "23", "24", "18446744073709551615", "18446744073709551616", "340282366920938463463374607431768211456", "-1", "-24", "-25", "-18446744073709551616", "-18446744073709551617", "-340282366920938463463374607431768211457"];
    let mut samples: Vec<(String, PlutusData)> = Vec::new();
    for i in ints { samples.push((format!("integer {}", i), PlutusData::new_integer(&BigInt::from_str(i).unwrap()))); }
    samples.push(("bytes (short)".into(), PlutusData::new_bytes(vec![1, 2, 3])));
    samples.push(("bytes (100, chunked)".into(), PlutusData::new_bytes(vec![7; 100])));
    samples.push(("empty list".into(), PlutusData::new_list(&PlutusList::new())));
    let big = PlutusData::new_integer(&BigInt::from_str("18446744073709551616").unwrap());
    let mut l = PlutusList::new(); l.add(&big); l.add(&PlutusData::new_bytes(vec![9]));
    samples.push(("list with a big integer".into(), PlutusData::new_list(&l)));
    let mut m = PlutusMap::new(); let mut vals = PlutusMapValues::new(); vals.add(&big); m.insert(&PlutusData::new_bytes(vec![1]), &vals);
    samples.push(("map with a big integer value".into(), PlutusData::new_map(&m)));
    for alt in [0u64, 6, 7, 127, 128, 200] { samples.push((format!("constructor {}", alt), PlutusData::new_constr_plutus_data(&ConstrPlutusData::new(&bn(alt), &l)))); }
    for (what, d) in &samples {
        let b = d.to_bytes();
        match PlutusData::from_bytes(b.clone()) {
            Ok(back) => {
                if back.kind() != d.kind() { failures.push(format!("{}: decoded as another kind", what)); }
                if back.to_bytes() != b { failures.push(format!("{}: re-encoding differs", what)); }
                if back != *d { failures.push(format!("{}: decoded value differs", what)); }
            }
            Err(_) => failures.push(format!("{}: the library's own encoding {:02x?} does not decode", what, &b[..b.len().min(24)])),
        }
        if PlutusData::from_hex(&d.to_hex()).map(|x| x.to_bytes()).ok() != Some(b) { failures.push(format!("{}: hex entry points disagree with the byte entry points", what)); }
    }
    assert!(failures.is_empty(), "{} Plutus data samples do not survive encode / decode; first: {}", failures.len(), failures[0]);
}

// ---------------------------------------------------------------- C18: a key needed by several parts of the transaction signs (and is counted) once
pub fn c18_shared_keys<S: Src>(_s: &mut S) {
    let mut failures: Vec<String> = Vec::new();
    // variant bits: 1 = withdrawal by the payment key, 2 = stake deregistration by it, 4 = required signer, 8 = collateral from the same key
    for variant in 1..16u8 {
        let mut tb = TransactionBuilder::new(&config(true));
        let mut ib = TxInputsBuilder::new();
        ib.add_key_input(&kh(1), &TransactionInput::new(&TransactionHash::from([3u8; 32]), 0), &Value::new(&bn(500_000_000)));
        tb.set_inputs(&ib);
        if variant & 1 != 0 { let mut wb = WithdrawalsBuilder::new(); if wb.add(&RewardAddress::new(0, &kc(1)), &bn(1_000_000)).is_err() { continue; } tb.set_withdrawals_builder(&wb); }
        if variant & 2 != 0 { let mut cb = CertificatesBuilder::new(); if cb.add(&Certificate::new_stake_deregistration(&StakeDeregistration::new(&kc(1)))).is_err() { continue; } tb.set_certs_builder(&cb); }
        if variant & 4 != 0 { tb.add_required_signer(&kh(1)); }
        if variant & 8 != 0 { let mut col = TxInputsBuilder::new(); col.add_key_input(&kh(1), &TransactionInput::new(&TransactionHash::from([4u8; 32]), 0), &Value::new(&bn(5_000_000))); tb.set_collateral(&col); }
        tb.set_fee(&bn(2_000_000));
        let predicted = match tb.full_size() { Ok(p) => p, Err(_) => continue };
        let tx = match tb.build_tx_unsafe() { Ok(t) => t, Err(_) => continue };
        let mut ws = tx.witness_set();
        let mut vk = Vkeywitnesses::new();
        vk.add(&Vkeywitness::new(&Vkey::new(&pubkey(1)), &sig()));          // the one key that has to sign
        ws.set_vkeys(&vk);
        let signed = Transaction::new(&tx.body(), &ws, tx.auxiliary_data()).to_bytes().len();
        if predicted < signed { failures.push(format!("variant {}: predicted size {} is below the size {} of the transaction signed by its single key", variant, predicted, signed)); }
        if predicted >= signed + 100 { failures.push(format!("variant {}: predicted size {} exceeds the signed size {} by a whole key witness: a key needed twice is counted twice", variant, predicted, signed)); }
    }
    assert!(failures.is_empty(), "{} shared-key scenarios mispredict the signed size; first: {}", failures.len(), failures[0]);
}

// ---------------------------------------------------------------- C09: a script supplied through a reference input still puts its language into the hash
pub fn c09_ref_script_languages<S: Src>(_s: &mut S) {
    let mut failures: Vec<String> = Vec::new();
    // variant: which sub-builder holds the only Plutus (V2) witness of the transaction, its script supplied by reference
    for variant in 0..4u8 {
        let tag = ["withdrawal", "certificate", "mint", "vote"][variant as usize];
        let script = PlutusScript::new_v2(vec![4u8, 5, 6, variant]);
        let src = PlutusScriptSource::new_ref_input(&script.hash(), &TransactionInput::new(&TransactionHash::from([9u8; 32]), 1), &Language::new_plutus_v2(), 4);
        let cred = Credential::from_scripthash(&script.hash());
        let mut tb = TransactionBuilder::new(&config(true));
        let mut ib = TxInputsBuilder::new();
        ib.add_key_input(&kh(1), &TransactionInput::new(&TransactionHash::from([3u8; 32]), 0), &Value::new(&bn(500_000_000)));
        tb.set_inputs(&ib);
        let ok = match variant {
            0 => { let mut wb = WithdrawalsBuilder::new(); let r = wb.add_with_plutus_witness(&RewardAddress::new(0, &cred), &bn(1_000_000), &PlutusWitness::new_with_ref_without_datum(&src, &redeemer_with_marker(&RedeemerTag::new_reward(), 1))); tb.set_withdrawals_builder(&wb); r.is_ok() }
            1 => { let mut cb = CertificatesBuilder::new(); let r = cb.add_with_plutus_witness(&Certificate::new_stake_deregistration(&StakeDeregistration::new(&cred)), &PlutusWitness::new_with_ref_without_datum(&src, &redeemer_with_marker(&RedeemerTag::new_cert(), 2))); tb.set_certs_builder(&cb); r.is_ok() }
            2 => { let mut mb = MintBuilder::new(); let r = mb.add_asset(&MintWitness::new_plutus_script(&src, &redeemer_with_marker(&RedeemerTag::new_mint(), 3)), &AssetName::new(vec![1]).unwrap(), &Int::new_i32(5)); tb.set_mint_builder(&mb); r.is_ok() }
            _ => { let mut vb = VotingBuilder::new(); let r = vb.add_with_plutus_witness(&Voter::new_drep_credential(&cred), &GovernanceActionId::new(&TransactionHash::from([5u8; 32]), 0), &VotingProcedure::new(VoteKind::Yes), &PlutusWitness::new_with_ref_without_datum(&src, &redeemer_with_marker(&RedeemerTag::new_vote(), 4))); tb.set_voting_builder(&vb); r.is_ok() }
        };
        if !ok { failures.push(format!("{}: the builder refuses the reference-script witness", tag)); continue; }
        let mut cm = Costmdls::new();
        let mut model = CostModel::new();
        for i in 0..4 { model.set(i, &Int::new_i32(100 + i as i32)).unwrap(); }
        cm.insert(&Language::new_plutus_v1(), &model); cm.insert(&Language::new_plutus_v2(), &model); cm.insert(&Language::new_plutus_v3(), &model);
        if tb.calc_script_data_hash(&cm).is_err() { failures.push(format!("{}: calc_script_data_hash failed", tag)); continue; }
        let (ws, body_hash) = match (tb_witness_set(&tb), tb_script_data_hash(&tb)) { (Ok(w), Ok(h)) => (w, h), _ => { failures.push(format!("{}: no witness set / script data hash", tag)); continue; } };
        let wsb = ws.to_bytes();
        let mut f5: Option<Vec<u8>> = None;
        if !wsb.is_empty() && wsb[0] >> 5 == 5 && (wsb[0] & 0x1f) < 24 {
            let mut p = 1usize;
            for _ in 0..(wsb[0] & 0x1f) {
                let key = wsb[p];
                let end = match crate::wellformed::item_end(&wsb, p + 1, 64) { Some(e) => e, None => break };
                if key == 5 { f5 = Some(wsb[p + 1..end].to_vec()); }
                p = end;
            }
        }
        let mut pre = match f5 { Some(x) => x, None => { failures.push(format!("{}: no redeemers emitted", tag)); continue; } };
        pre.extend(vec![0xa1, 0x01, 0x84, 0x18, 100, 0x18, 101, 0x18, 102, 0x18, 103]);       // language views: { 1: [100, 101, 102, 103] }
        if blake2b256_ref(&pre).to_vec() != body_hash.to_bytes() {
            failures.push(format!("{}: the script data hash is not blake2b256(redeemers | language view of PlutusV2): the language of a script supplied through a reference input is missing or wrong", tag));
        }
    }
    assert!(failures.is_empty(), "{} reference-script scenarios give a script data hash the ledger would not derive; first: {}", failures.len(), failures[0]);
}

// ---------------------------------------------------------------- C06: the reference-script fee covers every script a spent input takes from a reference input
pub fn c06_ref_script_sizes<S: Src>(_s: &mut S) {
    let mut failures: Vec<String> = Vec::new();
    let price = UnitInterval::new(&bn(15), &bn(1));
    for variant in 0..3u8 {
        // variant 0: two inputs of one native script, each through its own reference; 1: the same with a Plutus script; 2: two different scripts
        let sizes = [30_000usize, 20_000];
        let mut tb = TransactionBuilder::new(&config(true));
        let mut ib = TxInputsBuilder::new();
        for i in 0..2u8 {
            let txin = TransactionInput::new(&TransactionHash::from([3 + i; 32]), 0);
            let refin = TransactionInput::new(&TransactionHash::from([40 + i; 32]), 1);
            if variant == 1 {
                let ps = PlutusScript::new_v2(vec![9u8, 9]);
                let src = PlutusScriptSource::new_ref_input(&ps.hash(), &refin, &Language::new_plutus_v2(), sizes[i as usize]);
                ib.add_plutus_script_input(&PlutusWitness::new_with_ref(&src, &DatumSource::new(&PlutusData::new_bytes(vec![i])), &redeemer_with_marker(&RedeemerTag::new_spend(), i)), &txin, &Value::new(&bn(100_000_000)));
            } else {
                let ns = native_script(if variant == 2 { 20 + i } else { 20 });
                let mut src = NativeScriptSource::new_ref_input(&ns.hash(), &refin, sizes[i as usize]);
                src.set_required_signers(&Ed25519KeyHashes::new());
                ib.add_native_script_input(&src, &txin, &Value::new(&bn(100_000_000)));
            }
        }
        tb.set_inputs(&ib);
        let fee: u64 = match tb.min_fee() { Ok(f) => f.into(), Err(_) => continue };       // (no execution-unit prices configured for the Plutus variant: nothing to compare)
        let ref_fee: u64 = min_ref_script_fee(sizes[0] + sizes[1], &price).map(u64::from).unwrap_or(0);
        if fee < ref_fee + 155_381 { failures.push(format!("variant {}: two spent inputs take scripts of {} and {} bytes from two reference inputs; the builder's minimum fee {} is below the reference-script fee {} of their total size plus the constant", variant, sizes[0], sizes[1], fee, ref_fee)); }
    }
    assert!(failures.is_empty(), "{} reference-script scenarios are under-charged; first: {}", failures.len(), failures[0]);
}

// ---------------------------------------------------------------- C18 / C07: many distinct signers are all counted in the predicted size
pub fn c18_many_signers<S: Src>(_s: &mut S) {
    let mut failures: Vec<String> = Vec::new();
    for n in [1usize, 15, 16, 17, 18, 40, 120, 255, 256, 257, 300] {
        let mut tb = TransactionBuilder::new(&TransactionBuilderConfigBuilder::new().fee_algo(&LinearFee::new(&bn(44), &bn(155381))).pool_deposit(&bn(500_000_000)).key_deposit(&bn(2_000_000))
            .max_value_size(5000).max_tx_size(200_000).coins_per_utxo_byte(&bn(4310)).build().unwrap());
        let mut ib = TxInputsBuilder::new();
        let keyhash = |i: usize| { let mut b = [0u8; 28]; b[0] = (i & 0xff) as u8; b[1] = (i >> 8) as u8; b[2] = 0x55; Ed25519KeyHash::from(b) };
        for i in 0..n { let mut h = [3u8; 32]; h[0] = (i & 0xff) as u8; h[1] = (i >> 8) as u8; ib.add_key_input(&keyhash(i), &TransactionInput::new(&TransactionHash::from(h), 0), &Value::new(&bn(5_000_000))); }
        tb.set_inputs(&ib);
        tb.set_fee(&bn(2_000_000));
        let predicted = match tb.full_size() { Ok(p) => p, Err(_) => continue };
        let tx = match tb.build_tx_unsafe() { Ok(t) => t, Err(_) => continue };
        let mut ws = tx.witness_set();
        let mut vk = Vkeywitnesses::new();
        for i in 0..n { let mut b = [9u8; 32]; b[30] = (i >> 8) as u8; b[31] = (i & 0xff) as u8; vk.add(&Vkeywitness::new(&Vkey::new(&PublicKey::from_bytes(&b).unwrap()), &sig())); }
        ws.set_vkeys(&vk);
        let signed = Transaction::new(&tx.body(), &ws, tx.auxiliary_data()).to_bytes().len();
        if predicted < signed { failures.push(format!("{} inputs of {} distinct keys: predicted size {} is below the size {} of the transaction signed by all of them", n, n, predicted, signed)); }
    }
    assert!(failures.is_empty(), "{} many-signer scenarios under-predict the signed size; first: {}", failures.len(), failures[0]);
}

// ---------------------------------------------------------------- C09 first clause: auxiliary-data hash
fn blake2b256_ref(data: &[u8]) -> [u8; 32] {
    use cryptoxide::hashing::blake2b::Blake2b;
    let mut out = [0u8; 32];
    Blake2b::<256>::new().update(data).finalize_at(&mut out);
    out
}
/// the body's auxiliary-data hash must be Blake2b-256 of the auxiliary data as serialized in the released transaction
fn c09_aux_scenario(variant: u8) -> Result<(), String> {
    let tag = format!("aux scenario {}", variant);
    let mut tb = TransactionBuilder::new(&config(true));
    let mut ib = TxInputsBuilder::new();
    ib.add_key_input(&kh(1), &TransactionInput::new(&TransactionHash::from([3u8; 32]), 0), &Value::new(&bn(50_000_000)));
    tb.set_inputs(&ib);
    let mut md = GeneralTransactionMetadata::new();
    md.insert(&bn(674), &TransactionMetadatum::new_text("hello".to_string()).unwrap());
    let mut aux = AuxiliaryData::new();
    match variant {
        0 => { aux.set_metadata(&md); tb.set_auxiliary_data(&aux); }
        1 => { aux.set_metadata(&md); let mut ns = NativeScripts::new(); ns.add(&native_script(5)); aux.set_native_scripts(&ns); tb.set_auxiliary_data(&aux); }
        2 => { aux.set_metadata(&md); aux.set_prefer_alonzo_format(true); tb.set_auxiliary_data(&aux); }
        3 => { let mut ps = PlutusScripts::new(); ps.add(&PlutusScript::new(vec![1, 2, 3])); ps.add(&PlutusScript::new_v2(vec![4, 5])); ps.add(&PlutusScript::new_v3(vec![6])); aux.set_plutus_scripts(&ps); tb.set_auxiliary_data(&aux); }
        4 => { tb.set_metadata(&md); }
        5 => { aux.set_metadata(&md); tb.set_auxiliary_data(&aux); tb.add_metadatum(&bn(1), &TransactionMetadatum::new_int(&Int::new_i32(-7))); }
        6 => { tb.add_json_metadatum(&bn(9), "{\"a\": [1, 2, \"x\"]}".to_string()).map_err(|_| format!("{}: json metadatum refused", tag))?; }
        7 => { aux.set_metadata(&md); let mut ns = NativeScripts::new(); ns.add(&native_script(5)); aux.set_native_scripts(&ns); tb.set_auxiliary_data(&aux); tb.set_metadata(&md); tb.add_metadatum(&bn(2), &TransactionMetadatum::new_bytes(vec![1; 40]).unwrap()); }
        8 => { tb.set_auxiliary_data(&aux); }       // empty auxiliary data, still attached
        _ => { aux.set_metadata(&md); tb.set_auxiliary_data(&aux); tb.remove_auxiliary_data(); }
    }
    tb.set_fee(&bn(2_000_000));
    let tx = tb.build_tx_unsafe().map_err(|_| format!("{}: build failed", tag))?;
    let body_hash = tx.body().auxiliary_data_hash();
    let fixed = FixedTransaction::from_bytes(tx.to_bytes()).map_err(|_| format!("{}: released transaction does not parse", tag))?;
    match (fixed.raw_auxiliary_data(), body_hash) {
        (None, None) => if variant < 9 { Err(format!("{}: auxiliary data was set but is not attached", tag)) } else { Ok(()) },
        (Some(raw), Some(h)) => {
            if variant >= 9 { return Err(format!("{}: auxiliary data was removed but is attached", tag)); }
            if h.to_bytes() != blake2b256_ref(&raw).to_vec() { return Err(format!("{}: body.auxiliary_data_hash is not blake2b256 of the attached auxiliary data bytes", tag)); }
            let kept = tx.auxiliary_data().ok_or(format!("{}: no auxiliary data object", tag))?;
            if kept.to_bytes() != raw { return Err(format!("{}: auxiliary data object and serialized transaction disagree", tag)); }
            if let Some(want) = tb.get_auxiliary_data() { if want.to_bytes() != raw { return Err(format!("{}: attached auxiliary data differs from the builder's", tag)); } }
            Ok(())
        }
        (a, b) => Err(format!("{}: auxiliary data attached: {}, hash in body: {}", tag, a.is_some(), b.is_some())),
    }
}
pub fn c09_aux_battery<S: Src>(_s: &mut S) {
    let mut failures = Vec::new();
    for v in 0..10u8 { if let Err(e) = c09_aux_scenario(v) { failures.push(e); } }
    assert!(failures.is_empty(), "{} of 10 auxiliary-data-hash scenarios violate the property; first: {}", failures.len(), failures[0]);
}

// ---------------------------------------------------------------- C10: redeemer pointers, through the public API
fn redeemer_with_marker(tag: &RedeemerTag, marker: u8) -> Redeemer {
    Redeemer::new(tag, &bn(0), &PlutusData::new_bytes(vec![marker]), &ExUnits::new(&bn(1), &bn(1)))
}
/// returns Err when a redeemer of the built transaction does not point at the item it was attached to
fn c10_scenario(variant: u8) -> Result<(), String> {
    let tag = format!("pointer scenario {}", variant);
    let mut tb = TransactionBuilder::new(&config(true));
    // inputs: two key inputs around one Plutus input (sorted by outpoint)
    let mut ib = TxInputsBuilder::new();
    let pscript = PlutusScript::new(vec![9u8, 9, 9, variant]);
    let spend_marker = 11u8;
    let hashes: [[u8; 32]; 3] = [[1u8; 32], [5u8; 32], [9u8; 32]];
    let plutus_pos = (variant % 3) as usize;
    for (i, h) in hashes.iter().enumerate() {
        let txin = TransactionInput::new(&TransactionHash::from(*h), 0);
        if i == plutus_pos {
            ib.add_plutus_script_input(&PlutusWitness::new(&pscript, &PlutusData::new_bytes(vec![1]), &redeemer_with_marker(&RedeemerTag::new_spend(), spend_marker)), &txin, &Value::new(&bn(500_000_000)));
        } else {
            ib.add_key_input(&kh(1), &txin, &Value::new(&bn(500_000_000)));
        }
    }
    tb.set_inputs(&ib);
    // mint: one Plutus policy and several native policies (their hashes fall on both sides of the Plutus one)
    let mut mb = MintBuilder::new();
    let mint_script = PlutusScript::new(vec![7u8, 7, variant]);
    let mint_marker = 22u8;
    mb.add_asset(&MintWitness::new_plutus_script(&PlutusScriptSource::new(&mint_script), &redeemer_with_marker(&RedeemerTag::new_mint(), mint_marker)), &AssetName::new(vec![1]).unwrap(), &Int::new_i32(5)).map_err(|_| "mint add failed".to_string())?;
    for b in 0..6u8 {
        mb.add_asset(&MintWitness::new_native_script(&NativeScriptSource::new(&native_script(40 + b + 10 * variant))), &AssetName::new(vec![2]).unwrap(), &Int::new_i32(3)).map_err(|_| "mint add failed".to_string())?;
    }
    tb.set_mint_builder(&mb);
    // certificates: key-credential registrations around one script-credential deregistration
    let cert_script = PlutusScript::new(vec![5u8, variant]);
    let cert_marker = 33u8;
    let mut cb = CertificatesBuilder::new();
    let script_cert = Certificate::new_stake_deregistration(&StakeDeregistration::new(&Credential::from_scripthash(&cert_script.hash())));
    let cert_pos = (variant % 3) as usize;
    for i in 0..3usize {
        if i == cert_pos {
            cb.add_with_plutus_witness(&script_cert, &PlutusWitness::new_without_datum(&cert_script, &redeemer_with_marker(&RedeemerTag::new_cert(), cert_marker))).map_err(|_| "cert add failed".to_string())?;
        } else {
            cb.add(&Certificate::new_stake_delegation(&StakeDelegation::new(&kc(80 + i as u8), &kh(90)))).map_err(|_| "cert add failed".to_string())?;
        }
    }
    tb.set_certs_builder(&cb);
    tb.set_fee(&bn(2_000_000));
    let tx = tb.build_tx_unsafe().map_err(|_| format!("{}: build failed", tag))?;
    let body = tx.body();
    let reds = tx.witness_set().redeemers().ok_or(format!("{}: no redeemers emitted", tag))?;
    let mut seen = 0;
    for i in 0..reds.len() {
        let r = reds.get(i);
        let idx = u64::from(r.index()) as usize;
        let marker = r.data().as_bytes().map(|b| b[0]).unwrap_or(0);
        match marker {
            11 => {
                seen += 1;
                let ins = body.inputs();
                if idx >= ins.len() || ins.get(idx).transaction_id().to_bytes() != hashes[plutus_pos].to_vec() {
                    return Err(format!("{}: spending redeemer points at input {} which is not the script-locked input", tag, idx));
                }
            }
            22 => {
                seen += 1;
                let keys = body.mint().unwrap().keys();
                if idx >= keys.len() || keys.get(idx).to_bytes() != mint_script.hash().to_bytes() {
                    return Err(format!("{}: minting redeemer points at policy {} which is not the Plutus policy", tag, idx));
                }
            }
            33 => {
                seen += 1;
                let certs = body.certs().unwrap();
                if idx >= certs.len() || certs.get(idx).to_bytes() != script_cert.to_bytes() {
                    return Err(format!("{}: certificate redeemer points at certificate {} which is not the script certificate", tag, idx));
                }
            }
            _ => return Err(format!("{}: unknown redeemer", tag)),
        }
    }
    if seen != 3 { return Err(format!("{}: {} redeemers emitted for 3 script uses", tag, seen)); }
    Ok(())
}
/// withdrawals: one Plutus-script reward account among key / native-script accounts, inserted in every order; the reward
/// redeemer must index the reward accounts in the ledger's key order of the withdrawals map (network id, script
/// credentials before key credentials, credential hash), whatever the insertion order
fn c10_withdrawals(order: &[usize], script_hash_byte: u8) -> Result<(), String> {
    let tag = format!("withdrawal order {:?} script {:02x}", order, script_hash_byte);
    let mut tb = TransactionBuilder::new(&config(true));
    let mut ib = TxInputsBuilder::new();
    ib.add_key_input(&kh(1), &TransactionInput::new(&TransactionHash::from([1u8; 32]), 0), &Value::new(&bn(500_000_000)));
    tb.set_inputs(&ib);
    let wscript = PlutusScript::new(vec![3u8, 3, script_hash_byte]);
    let marker = 44u8;
    // accounts: 0 = key hash 0x10.., 1 = the Plutus script, 2 = key hash 0xf0.., 3 = native script
    let ns = native_script(77);
    let accounts: Vec<RewardAddress> = vec![
        RewardAddress::new(0, &Credential::from_keyhash(&Ed25519KeyHash::from([0x10u8; 28]))),
        RewardAddress::new(0, &Credential::from_scripthash(&wscript.hash())),
        RewardAddress::new(0, &Credential::from_keyhash(&Ed25519KeyHash::from([0xf0u8; 28]))),
        RewardAddress::new(0, &Credential::from_scripthash(&ns.hash())),
    ];
    let mut wb = WithdrawalsBuilder::new();
    for &k in order {
        let r = match k {
            1 => wb.add_with_plutus_witness(&accounts[1], &bn(5), &PlutusWitness::new_without_datum(&wscript, &redeemer_with_marker(&RedeemerTag::new_reward(), marker))),
            3 => wb.add_with_native_script(&accounts[3], &bn(6), &NativeScriptSource::new(&ns)),
            _ => wb.add(&accounts[k], &bn(7)),
        };
        r.map_err(|_| format!("{}: add failed", tag))?;
    }
    tb.set_withdrawals_builder(&wb);
    tb.set_fee(&bn(2_000_000));
    let tx = tb.build_tx_unsafe().map_err(|_| format!("{}: build failed", tag))?;
    let reds = tx.witness_set().redeemers().ok_or(format!("{}: no redeemers emitted", tag))?;
    if reds.len() != 1 { return Err(format!("{}: {} redeemers for one script withdrawal", tag, reds.len())); }
    let idx = u64::from(reds.get(0).index()) as usize;
    // independent expectation: ledger key order = (network, script credentials first, hash bytes)
    let key = |a: &RewardAddress| -> (u8, u8, Vec<u8>) {
        let c = a.payment_cred();
        match (c.to_scripthash(), c.to_keyhash()) { (Some(h), _) => (0, 0, h.to_bytes()), (_, Some(h)) => (0, 1, h.to_bytes()), _ => (0, 2, vec![]) }
    };
    let mut present: Vec<&RewardAddress> = order.iter().map(|&k| &accounts[k]).collect();
    present.sort_by(|a, b| key(a).cmp(&key(b)));
    let expect = present.iter().position(|a| a.to_address().to_bytes() == accounts[1].to_address().to_bytes()).unwrap();
    if idx != expect { return Err(format!("{}: reward redeemer index {} but the script account is number {} in reward-account order", tag, idx, expect)); }
    // and the emitted map lists the accounts in that same order (so index == position in the body as well)
    let keys = tx.body().withdrawals().ok_or(format!("{}: no withdrawals in the body", tag))?.keys();
    if keys.len() != order.len() { return Err(format!("{}: {} withdrawals emitted for {} added", tag, keys.len(), order.len())); }
    for i in 0..keys.len() {
        if keys.get(i).to_address().to_bytes() != present[i].to_address().to_bytes() { return Err(format!("{}: emitted withdrawals are not in reward-account order at position {}", tag, i)); }
    }
    Ok(())
}

/// the same outpoint added first as a Plutus-script input and then again as a key input (or the other way round, or
/// twice with different redeemers): every spending redeemer of the built transaction must point at an input that is
/// script-locked in the final builder state, and there is exactly one per script-locked input
fn c10_readd(variant: u8) -> Result<(), String> {
    let tag = format!("re-added input scenario {}", variant);
    let mut tb = TransactionBuilder::new(&config(true));
    let mut ib = TxInputsBuilder::new();
    let pscript = PlutusScript::new(vec![9u8, 9, 8, variant]);
    let h = |b: u8| TransactionInput::new(&TransactionHash::from([b; 32]), 0);
    let pw = |m: u8| PlutusWitness::new(&pscript, &PlutusData::new_bytes(vec![1]), &redeemer_with_marker(&RedeemerTag::new_spend(), m));
    let v = Value::new(&bn(500_000_000));
    ib.add_key_input(&kh(1), &h(1), &v);
    let mut script_locked: Vec<u8> = Vec::new();
    match variant {
        0 => { ib.add_plutus_script_input(&pw(11), &h(5), &v); ib.add_key_input(&kh(2), &h(5), &v); }
        1 => { ib.add_key_input(&kh(2), &h(5), &v); ib.add_plutus_script_input(&pw(11), &h(5), &v); script_locked.push(5); }
        2 => { ib.add_plutus_script_input(&pw(11), &h(5), &v); ib.add_plutus_script_input(&pw(12), &h(9), &v); ib.add_key_input(&kh(2), &h(5), &v); script_locked.push(9); }
        _ => { ib.add_plutus_script_input(&pw(11), &h(9), &v); ib.add_regular_input(&addr(1, 3), &h(9), &v).map_err(|_| "add failed".to_string())?; ib.add_plutus_script_input(&pw(12), &h(5), &v); script_locked.push(5); }
    }
    tb.set_inputs(&ib);
    tb.set_fee(&bn(2_000_000));
    let tx = tb.build_tx_unsafe().map_err(|_| format!("{}: build failed", tag))?;
    let ins = tx.body().inputs();
    let n_red = tx.witness_set().redeemers().map(|r| r.len()).unwrap_or(0);
    if n_red != script_locked.len() { return Err(format!("{}: {} spending redeemers for {} script-locked inputs", tag, n_red, script_locked.len())); }
    if let Some(reds) = tx.witness_set().redeemers() {
        for i in 0..reds.len() {
            let idx = u64::from(reds.get(i).index()) as usize;
            if idx >= ins.len() || !script_locked.contains(&ins.get(idx).transaction_id().to_bytes()[0]) {
                return Err(format!("{}: spending redeemer points at input {} which is not script-locked", tag, idx));
            }
        }
    }
    Ok(())
}

/// votes and proposals: a Plutus-witnessed voter / proposal among key-hash ones; its redeemer must carry the position the item has
/// in the body (voters: the body's own order; proposals: the emitted sequence)
fn c10_votes_and_proposals(variant: u8) -> Result<(), String> {
    let tag = format!("votes / proposals scenario {}", variant);
    let script = PlutusScript::new_v3(vec![9u8, variant]);
    let marker = 77u8;
    let action = GovernanceActionId::new(&TransactionHash::from([5u8; 32]), 0);
    let proc_ = VotingProcedure::new(VoteKind::Yes);
    let mut vb = VotingBuilder::new();
    // key-hash voters on both sides of the script DRep in the voter order (committee hot keys sort before DReps, pools after)
    let script_voter = Voter::new_drep_credential(&Credential::from_scripthash(&script.hash()));
    let others: Vec<Voter> = match variant % 4 {
        0 => vec![Voter::new_constitutional_committee_hot_credential(&kc(1))],
        1 => vec![Voter::new_constitutional_committee_hot_credential(&kc(1)), Voter::new_constitutional_committee_hot_credential(&kc(2)), Voter::new_stake_pool_key_hash(&kh(3))],
        2 => vec![Voter::new_stake_pool_key_hash(&kh(3))],
        _ => vec![Voter::new_drep_credential(&kc(0)), Voter::new_constitutional_committee_hot_credential(&kc(9))],
    };
    for v in &others { vb.add(v, &action, &proc_).map_err(|_| format!("{}: vote refused", tag))?; }
    vb.add_with_plutus_witness(&script_voter, &action, &proc_, &PlutusWitness::new_without_datum(&script, &redeemer_with_marker(&RedeemerTag::new_vote(), marker))).map_err(|_| format!("{}: script vote refused", tag))?;
    let mut tb = TransactionBuilder::new(&config(true));
    let mut ib = TxInputsBuilder::new();
    ib.add_key_input(&kh(1), &TransactionInput::new(&TransactionHash::from([3u8; 32]), 0), &Value::new(&bn(500_000_000)));
    tb.set_inputs(&ib);
    tb.set_voting_builder(&vb);
    tb.set_fee(&bn(2_000_000));
    let tx = tb.build_tx_unsafe().map_err(|_| format!("{}: build failed", tag))?;
    let voters = tx.body().voting_procedures().ok_or(format!("{}: no votes in the body", tag))?.get_voters();
    let pos = (0..voters.len()).find(|&i| voters.get(i).map(|v| v.to_bytes() == script_voter.to_bytes()).unwrap_or(false)).ok_or(format!("{}: script voter missing from the body", tag))?;
    let reds = tx.witness_set().redeemers().ok_or(format!("{}: no redeemers", tag))?;
    let mut found = false;
    for i in 0..reds.len() {
        let r = reds.get(i);
        if r.tag().kind() == RedeemerTagKind::Vote {
            found = true;
            let idx: u64 = r.index().into();
            if idx as usize != pos { return Err(format!("{}: the vote redeemer points at voter #{} of the body, the script voter is #{}", tag, idx, pos)); }
        }
    }
    if !found { return Err(format!("{}: no vote redeemer emitted", tag)); }
    Ok(())
}
/// withdrawals of 0 lovelace (the "withdraw zero" pattern that runs a staking validator): every reward redeemer still points at
/// the account it was attached to, in the body's own map
fn c10_zero_withdrawal(variant: u8) -> Result<(), String> {
    let tag = format!("zero-coin withdrawal scenario {}", variant);
    let scripts: Vec<PlutusScript> = (0..3u8).map(|i| PlutusScript::new_v2(vec![3u8, i, variant])).collect();
    let coins: [u64; 3] = match variant { 0 => [0, 5, 7], 1 => [5, 0, 7], 2 => [0, 0, 7], _ => [0, 0, 0] };
    let mut wb = WithdrawalsBuilder::new();
    for (i, sc) in scripts.iter().enumerate() {
        let acct = RewardAddress::new(0, &Credential::from_scripthash(&sc.hash()));
        wb.add_with_plutus_witness(&acct, &bn(coins[i]), &PlutusWitness::new_without_datum(sc, &redeemer_with_marker(&RedeemerTag::new_reward(), 60 + i as u8))).map_err(|_| format!("{}: withdrawal refused", tag))?;
    }
    wb.add(&RewardAddress::new(0, &kc(9)), &bn(0)).map_err(|_| format!("{}: key withdrawal refused", tag))?;
    let mut tb = TransactionBuilder::new(&config(true));
    let mut ib = TxInputsBuilder::new();
    ib.add_key_input(&kh(1), &TransactionInput::new(&TransactionHash::from([3u8; 32]), 0), &Value::new(&bn(500_000_000)));
    tb.set_inputs(&ib);
    tb.set_withdrawals_builder(&wb);
    tb.set_fee(&bn(2_000_000));
    let tx = tb.build_tx_unsafe().map_err(|_| format!("{}: build failed", tag))?;
    let keys = tx.body().withdrawals().map(|w| w.keys()).ok_or(format!("{}: no withdrawals in the body", tag))?;
    let reds = tx.witness_set().redeemers().ok_or(format!("{}: no redeemers", tag))?;
    for i in 0..reds.len() {
        let r = reds.get(i);
        if r.tag().kind() != RedeemerTagKind::Reward { continue; }
        let marker = r.data().as_bytes().map(|b| b[0]).unwrap_or(0);
        let idx: u64 = r.index().into();
        let want = RewardAddress::new(0, &Credential::from_scripthash(&scripts[(marker - 60) as usize].hash()));
        if idx as usize >= keys.len() { return Err(format!("{}: a reward redeemer points at withdrawal #{} of a map with {} entries", tag, idx, keys.len())); }
        if keys.get(idx as usize).to_address().to_bytes() != want.to_address().to_bytes() { return Err(format!("{}: the reward redeemer of account {} points at withdrawal #{}, which is another account", tag, marker - 60, idx)); }
    }
    Ok(())
}
pub fn c10_pointers<S: Src>(_s: &mut S) {
    let mut failures = Vec::new();
    for v in 0..4u8 { if let Err(e) = c10_zero_withdrawal(v) { failures.push(e); } }
    for v in 0..4u8 { if let Err(e) = c10_votes_and_proposals(v) { failures.push(e); } }
    for v in 0..4u8 { if let Err(e) = c10_readd(v) { failures.push(e); } }
    for v in 0..6u8 { if let Err(e) = c10_scenario(v) { failures.push(e); } }
    let orders: [&[usize]; 12] = [&[1], &[0, 1], &[1, 0], &[2, 1], &[1, 2], &[0, 1, 2], &[2, 1, 0], &[1, 2, 0], &[3, 1], &[1, 3], &[0, 3, 2, 1], &[2, 0, 1, 3]];
    for o in orders.iter() { for sb in [0u8, 1, 2, 3, 4, 5] { if let Err(e) = c10_withdrawals(o, sb) { failures.push(e); } } }
    assert!(failures.is_empty(), "{} of {} pointer scenarios violate the property; first: {}", failures.len(), 6 + 72 + 4, failures[0]);
}

// ---------------------------------------------------------------- C01 / C03: struct-level codecs on crafted inputs
fn unhex(s: &str) -> Vec<u8> { (0..s.len() / 2).map(|i| u8::from_str_radix(&s[2 * i..2 * i + 2], 16).unwrap()).collect() }

/// decode -> encode -> decode on inputs with present-but-empty collections, optional fields at their boundaries,
/// legacy (untagged) sets: the re-encoding must be well-formed CBOR and decode to a value that re-encodes identically
pub fn c01_battery<S: Src>(_s: &mut S) {
    let failures: std::cell::RefCell<Vec<String>> = std::cell::RefCell::new(Vec::new());
    let check = |what: &str, bytes: Vec<u8>, enc: &dyn Fn(&[u8]) -> Option<Vec<u8>>| {
        if let Some(b2) = enc(&bytes) {
            if crate::wellformed::item_end(&b2, 0, 12) != Some(b2.len()) {
                failures.borrow_mut().push(format!("{}: re-encoding of {:02x?} is malformed CBOR: {:02x?}", what, bytes, b2));
            } else {
                match enc(&b2) {
                    Some(b3) => if b3 != b2 { failures.borrow_mut().push(format!("{}: re-encoding is not stable for {:02x?}", what, bytes)); },
                    None => failures.borrow_mut().push(format!("{}: own output {:02x?} does not decode", what, b2)),
                }
            }
        }
    };
    let ws = |b: &[u8]| TransactionWitnessSet::from_bytes(b.to_vec()).ok().map(|v| v.to_bytes());
    for h in ["a0", "a10080", "a100d9010280", "a20080018 0".replace(" ", "").as_str(), "a10180", "a10280", "a10480", "a10580", "a105a0", "a30080018002 80".replace(" ", "").as_str(), "a1049f ff".replace(" ", "").as_str()] {
        check("TransactionWitnessSet", unhex(h), &ws);
    }
    let body = |b: &[u8]| TransactionBody::from_bytes(b.to_vec()).ok().map(|v| v.to_bytes());
    for h in ["a300800180020 0".replace(" ", "").as_str(), "a40080018002000480", "a400800180020005a0", "a400800180020009a0", "a40080018002000d80", "a40080018002000e80", "a40080018002001280", "a4008001800200030 0".replace(" ", "").as_str(),
              "a500800180020003000800", "a4008001800200 1500".replace(" ", "").as_str(), "a4008001800200 1600".replace(" ", "").as_str()] {
        check("TransactionBody", unhex(h), &body);
    }
    // every scalar optional key on its own and all together (values chosen minimal but valid)
    let h32 = "5820".to_string() + &"11".repeat(32);
    let opt_fields: Vec<(u8, String)> = vec![(3, "19ffff".into()), (7, h32.clone()), (8, "1a00010000".into()), (11, h32.clone()), (15, "01".into()), (17, "1b00000001 00000000".replace(" ", "")), (21, "01".into()), (22, "01".into())];
    for (k, v) in &opt_fields {
        let key = if *k < 24 { format!("{:02x}", k) } else { format!("18{:02x}", k) };
        check("TransactionBody", unhex(&format!("a400800180020a{}{}", key, v)), &body);
    }
    let mut all = format!("a{:x}00800180020a", 3 + opt_fields.len());
    for (k, v) in &opt_fields { all += &(if *k < 24 { format!("{:02x}", k) } else { format!("18{:02x}", k) }); all += v; }
    check("TransactionBody", unhex(&all), &body);
    // the decoded value must carry every field it was given (value-level check through the typed getters)
    if let Ok(b) = TransactionBody::from_bytes(unhex(&all)) {
        let ok = b.ttl_bignum().map(u64::from) == Some(0xffff) && b.auxiliary_data_hash().is_some() && b.validity_start_interval_bignum().map(u64::from) == Some(0x10000)
            && b.script_data_hash().is_some() && b.network_id().is_some() && b.total_collateral().map(u64::from) == Some(1u64 << 32)
            && b.current_treasury_value().map(u64::from) == Some(1) && b.donation().map(u64::from) == Some(1) && u64::from(b.fee()) == 10;
        if !ok { failures.borrow_mut().push("TransactionBody: a scalar optional field is lost or altered by decoding".to_string()); }
    } else { failures.borrow_mut().push("TransactionBody: body with all scalar optional fields does not decode".to_string()); }
    let out = |b: &[u8]| TransactionOutput::from_bytes(b.to_vec()).ok().map(|v| v.to_bytes());
    for h in ["82581d60 00000000000000000000000000000000000000000000000000000000 00".replace(" ", "").as_str(),
              "a200581d60 00000000000000000000000000000000000000000000000000000000 0100".replace(" ", "").as_str(),
              "82581d60 00000000000000000000000000000000000000000000000000000000 8200a0".replace(" ", "").as_str()] {
        check("TransactionOutput", unhex(h), &out);
    }
    // text-bearing leaves at and around their length limits: whatever the constructors accept must survive encode -> decode,
    // on its own and nested (pool metadata in pool parameters in a certificate, anchors, relay host names)
    for len in [0usize, 1, 23, 24, 63, 64, 65, 100, 127, 128] {
        let text: String = "u".repeat(len);
        if let Ok(url) = URL::new(text.clone()) {
            let pm = PoolMetadata::new(&url, &PoolMetadataHash::from([3u8; 32]));
            let b = pm.to_bytes();
            match PoolMetadata::from_bytes(b.clone()) { Ok(q) => if q.to_bytes() != b { failures.borrow_mut().push(format!("PoolMetadata with a {}-byte url changes through decode", len)); },
                Err(_) => failures.borrow_mut().push(format!("PoolMetadata with a {}-byte url (accepted by the constructor) does not decode from its own encoding", len)) }
            let mut owners = Ed25519KeyHashes::new(); owners.add(&kh(1));
            let pp = PoolParams::new(&kh(1), &VRFKeyHash::from([2u8; 32]), &bn(1), &bn(2), &UnitInterval::new(&bn(1), &bn(2)), &RewardAddress::new(0, &kc(1)), &owners, &Relays::new(), Some(pm.clone()));
            let cert = Certificate::new_pool_registration(&PoolRegistration::new(&pp));
            let cb = cert.to_bytes();
            if Certificate::from_bytes(cb.clone()).map(|x| x.to_bytes()).ok() != Some(cb) { failures.borrow_mut().push(format!("pool registration whose metadata url has {} bytes does not round-trip", len)); }
            let an = Anchor::new(&url, &AnchorDataHash::from([4u8; 32]));
            let ab = an.to_bytes();
            if Anchor::from_bytes(ab.clone()).map(|x| x.to_bytes()).ok() != Some(ab) { failures.borrow_mut().push(format!("Anchor with a {}-byte url does not round-trip", len)); }
        }
        if let Ok(d) = DNSRecordAorAAAA::new(text.clone()) {
            let r = SingleHostName::new(Some(1), &d); let rb = r.to_bytes();
            if SingleHostName::from_bytes(rb.clone()).map(|x| x.to_bytes()).ok() != Some(rb) { failures.borrow_mut().push(format!("SingleHostName with a {}-byte name does not round-trip", len)); }
        }
        if let Ok(d) = DNSRecordSRV::new(text.clone()) {
            let r = MultiHostName::new(&d); let rb = r.to_bytes();
            if MultiHostName::from_bytes(rb.clone()).map(|x| x.to_bytes()).ok() != Some(rb) { failures.borrow_mut().push(format!("MultiHostName with a {}-byte name does not round-trip", len)); }
        }
    }
    // AuxiliaryData: every optional collection absent / present-but-empty / with one element, in both wire-format preferences
    for mask in 0..54u32 {
        let (m, n, p, alonzo) = (mask % 3, (mask / 3) % 3, (mask / 9) % 3, (mask / 27) % 2 == 1);
        let mut aux = AuxiliaryData::new();
        if m > 0 { let mut md = GeneralTransactionMetadata::new(); if m == 2 { md.insert(&bn(1), &TransactionMetadatum::new_text("x".to_string()).unwrap()); } aux.set_metadata(&md); }
        if n > 0 { let mut ns = NativeScripts::new(); if n == 2 { ns.add(&native_script(1)); } aux.set_native_scripts(&ns); }
        if p > 0 { let mut ps = PlutusScripts::new(); if p == 2 { ps.add(&PlutusScript::new(vec![1, 2])); ps.add(&PlutusScript::new_v2(vec![3])); } aux.set_plutus_scripts(&ps); }
        aux.set_prefer_alonzo_format(alonzo);
        let what = format!("AuxiliaryData (metadata {}, native scripts {}, plutus scripts {}, alonzo format {})", m, n, p, alonzo);
        let b = aux.to_bytes();
        if crate::wellformed::item_end(&b, 0, 16) != Some(b.len()) { failures.borrow_mut().push(format!("{}: emits malformed CBOR {:02x?}", what, b)); continue; }
        match AuxiliaryData::from_bytes(b.clone()) {
            Ok(back) => if back.to_bytes() != b { failures.borrow_mut().push(format!("{}: re-encoding after decoding differs", what)); },
            Err(_) => failures.borrow_mut().push(format!("{}: its own encoding {:02x?} does not decode", what, b)),
        }
        if AuxiliaryData::from_hex(&aux.to_hex()).map(|x| x.to_bytes()).ok() != Some(b.clone()) { failures.borrow_mut().push(format!("{}: hex entry points disagree with the byte entry points", what)); }
    }
    // ProtocolParamUpdate: every optional field on its own, adjacent pairs and all together
    {
        let ui = UnitInterval::new(&bn(1), &bn(2));
        let pvt = PoolVotingThresholds::new(&ui, &ui, &ui, &ui, &ui);
        let dvt = DRepVotingThresholds::new(&ui, &ui, &ui, &ui, &ui, &ui, &ui, &ui, &ui, &ui);
        let setters: Vec<(&str, Box<dyn Fn(&mut ProtocolParamUpdate)>)> = vec![
            ("minfee_a", Box::new(|p| p.set_minfee_a(&bn(44)))), ("minfee_b", Box::new(|p| p.set_minfee_b(&bn(155381)))),
            ("max_block_body_size", Box::new(|p| p.set_max_block_body_size(65536))), ("max_tx_size", Box::new(|p| p.set_max_tx_size(16384))),
            ("max_block_header_size", Box::new(|p| p.set_max_block_header_size(1100))), ("key_deposit", Box::new(|p| p.set_key_deposit(&bn(2_000_000)))),
            ("pool_deposit", Box::new(|p| p.set_pool_deposit(&bn(500_000_000)))), ("max_epoch", Box::new(|p| p.set_max_epoch(18))), ("n_opt", Box::new(|p| p.set_n_opt(500))),
            ("pool_pledge_influence", Box::new({ let u = ui.clone(); move |p| p.set_pool_pledge_influence(&u) })), ("expansion_rate", Box::new({ let u = ui.clone(); move |p| p.set_expansion_rate(&u) })),
            ("treasury_growth_rate", Box::new({ let u = ui.clone(); move |p| p.set_treasury_growth_rate(&u) })), ("min_pool_cost", Box::new(|p| p.set_min_pool_cost(&bn(340_000_000)))),
            ("ada_per_utxo_byte", Box::new(|p| p.set_ada_per_utxo_byte(&bn(4310)))), ("execution_costs", Box::new({ let u = ui.clone(); move |p| p.set_execution_costs(&ExUnitPrices::new(&u, &u)) })),
            ("max_tx_ex_units", Box::new(|p| p.set_max_tx_ex_units(&ExUnits::new(&bn(1), &bn(2))))), ("max_block_ex_units", Box::new(|p| p.set_max_block_ex_units(&ExUnits::new(&bn(3), &bn(4))))),
            ("max_value_size", Box::new(|p| p.set_max_value_size(5000))), ("collateral_percentage", Box::new(|p| p.set_collateral_percentage(150))),
            ("max_collateral_inputs", Box::new(|p| p.set_max_collateral_inputs(3))), ("pool_voting_thresholds", Box::new({ let v = pvt.clone(); move |p| p.set_pool_voting_thresholds(&v) })),
            ("drep_voting_thresholds", Box::new({ let v = dvt.clone(); move |p| p.set_drep_voting_thresholds(&v) })), ("min_committee_size", Box::new(|p| p.set_min_committee_size(7))),
            ("committee_term_limit", Box::new(|p| p.set_committee_term_limit(146))), ("governance_action_validity_period", Box::new(|p| p.set_governance_action_validity_period(6))),
            ("governance_action_deposit", Box::new(|p| p.set_governance_action_deposit(&bn(100_000_000_000)))), ("drep_deposit", Box::new(|p| p.set_drep_deposit(&bn(500_000_000)))),
            ("drep_inactivity_period", Box::new(|p| p.set_drep_inactivity_period(20))), ("ref_script_coins_per_byte", Box::new({ let u = ui.clone(); move |p| p.set_ref_script_coins_per_byte(&u) })),
        ];
        let n = setters.len();
        let mut combos: Vec<Vec<usize>> = (0..n).map(|i| vec![i]).collect();
        combos.extend((0..n - 1).map(|i| vec![i, i + 1]));
        combos.push((0..n).collect());
        combos.push(vec![]);
        for c in &combos {
            let mut p = ProtocolParamUpdate::new();
            for &i in c { (setters[i].1)(&mut p); }
            let what = format!("ProtocolParamUpdate with {:?}", c.iter().map(|&i| setters[i].0).collect::<Vec<_>>());
            let b = p.to_bytes();
            if crate::wellformed::item_end(&b, 0, 12) != Some(b.len()) { failures.borrow_mut().push(format!("{}: encoding is malformed CBOR: {:02x?}", what, b)); continue; }
            match ProtocolParamUpdate::from_bytes(b.clone()) {
                Ok(q) => if q.to_bytes() != b { failures.borrow_mut().push(format!("{}: decode then encode changes the bytes", what)); },
                Err(_) => failures.borrow_mut().push(format!("{}: own encoding does not decode", what)),
            }
        }
    }
    let failures = failures.into_inner();
    assert!(failures.is_empty(), "{} struct-level codec scenarios violate the round-trip / well-formedness property; first: {}", failures.len(), failures[0]);
}

// ---------------------------------------------------------------- C04: byte-preserving transaction
pub fn c04_fixed_tx<S: Src>(_s: &mut S) {
    let mut failures: Vec<String> = Vec::new();
    // two bodies, the second in a non-canonical encoding (indefinite map, non-minimal fee head)
    let body1 = unhex("a300800180020a");
    let body2 = unhex("bf008001800219000bff");
    let h = |b: &[u8]| FixedTransaction::new_from_body_bytes(b).map(|t| t.transaction_hash().to_bytes());
    match (FixedTransaction::new_from_body_bytes(&body1), h(&body2)) {
        (Ok(mut tx), Ok(h2)) => {
            if tx.set_body(&body2).is_ok() {
                if tx.transaction_hash().to_bytes() != h2 { failures.push("after set_body the reported hash is not the hash of the current body bytes".into()); }
                if tx.raw_body() != body2 { failures.push("set_body does not keep the given bytes".into()); }
                let sk = PrivateKey::from_normal_bytes(&[7u8; 32]).unwrap();
                let _ = tx.sign_and_add_vkey_signature(&sk);
                let w = tx.witness_set().vkeys().unwrap().get(0);
                if !sk.to_public().verify(&h2, &w.signature()) { failures.push("signature added after set_body does not verify against the hash of the current body".into()); }
            } else { failures.push("set_body rejects a decodable body".into()); }
        }
        _ => failures.push("fixture bodies do not load".into()),
    }
    // the same CONTENT in another spelling (indefinite map, non-minimal fee head): the hash must follow the bytes, not the decoded value
    let body3 = unhex("bf008001800219000aff");
    match (FixedTransaction::new_from_body_bytes(&body1), h(&body3)) {
        (Ok(mut tx), Ok(h3)) => {
            if tx.set_body(&body3).is_ok() {
                if tx.raw_body() != body3 { failures.push("set_body with an equal-content body in another spelling does not keep the given bytes".into()); }
                if tx.transaction_hash().to_bytes() != h3 { failures.push("after set_body with an equal-content body in another spelling the reported hash is still the hash of the old bytes".into()); }
                let sk = PrivateKey::from_normal_bytes(&[7u8; 32]).unwrap();
                let _ = tx.sign_and_add_vkey_signature(&sk);
                if let Some(v) = tx.witness_set().vkeys() { if !sk.to_public().verify(&h3, &v.get(0).signature()) { failures.push("a signature added after such a set_body does not verify against the hash of the current body bytes".into()); } }
            }
        }
        _ => failures.push("fixture bodies do not load".into()),
    }
    // original bytes survive: non-canonical witness set (legacy untagged native scripts + indefinite redeemer list), then a key signature
    let ws = unhex("a201818200581c11111111111111111111111111111111111111111111111111111111059f840000419182 0101ff".replace(" ", "").as_str());
    match FixedTransaction::new(&body2, &ws, true) {
        Ok(mut tx) => {
            let before = tx.to_bytes();
            let sk = PrivateKey::from_normal_bytes(&[9u8; 32]).unwrap();
            let _ = tx.sign_and_add_vkey_signature(&sk);
            let after = tx.to_bytes();
            let find = |hay: &[u8], needle: &[u8]| hay.windows(needle.len()).any(|w| w == needle);
            if !find(&after, &body2) { failures.push("body bytes are not written back verbatim".into()); }
            if !find(&after, &ws[1..30]) || !find(&after, &ws[30..]) { failures.push("untouched witness-set fields are not written back verbatim after adding a signature".into()); }
            if !find(&before, &ws) { failures.push("witness set is not written back verbatim before any change".into()); }
            match FixedTransaction::from_bytes(after.clone()) {
                Ok(t2) => if t2.transaction_hash().to_bytes() != tx.transaction_hash().to_bytes() || t2.to_bytes() != after { failures.push("re-loading the serialized fixed transaction changes hash or bytes".into()); },
                Err(_) => failures.push("serialized fixed transaction does not load".into()),
            }
        }
        Err(_) => failures.push("fixture witness set does not load".into()),
    }
    // every witness-set key on its own and all together, each field in a non-canonical form (untagged legacy array or
    // indefinite array): loading and re-serializing the fixed transaction returns the witness-set bytes verbatim
    {
        let vk = format!("8258{:02x}{}58{:02x}{}", 32, "09".repeat(32), 64, "07".repeat(64));
        let boot = format!("8458{:02x}{}58{:02x}{}58{:02x}{}41a0", 32, "09".repeat(32), 64, "07".repeat(64), 32, "03".repeat(32));
        let fields: Vec<(u8, String)> = vec![
            (0, format!("81{}", vk)), (1, "9f8200581c11111111111111111111111111111111111111111111111111111111ff".to_string()), (2, format!("9f{}ff", boot)),
            (3, "8143010203".to_string()), (4, "9f0102ff".to_string()), (5, "9f840000419182 0101ff".replace(" ", "")), (6, "9f43040506ff".to_string()), (7, "8143070809".to_string())];
        let mut cases: Vec<Vec<usize>> = (0..fields.len()).map(|i| vec![i]).collect();
        cases.push((0..fields.len()).collect());
        cases.push(vec![6, 7]); cases.push(vec![3, 7]);
        for c in &cases {
            let mut w = format!("a{:x}", c.len());
            for &i in c { w += &format!("{:02x}{}", fields[i].0, fields[i].1); }
            let wsb = unhex(&w);
            match FixedTransaction::new(&body1, &wsb, true) {
                Ok(tx) => {
                    let out = tx.to_bytes();
                    for &i in c {
                        let fb = unhex(&format!("{:02x}{}", fields[i].0, fields[i].1));
                        if !out.windows(fb.len()).any(|x| x == &fb[..]) { failures.push(format!("witness-set field {} (given in non-canonical form together with keys {:?}) is not written back verbatim under its key", fields[i].0, c.iter().map(|&j| fields[j].0).collect::<Vec<_>>())); }
                    }
                }
                Err(_) => failures.push(format!("fixture witness set with keys {:?} does not load", c.iter().map(|&i| fields[i].0).collect::<Vec<_>>())),
            }
        }
    }
    // both signature fields present in non-canonical form: adding a signature of ONE kind leaves the OTHER field's bytes alone
    {
        let vk = format!("8258{:02x}{}58{:02x}{}", 32, "09".repeat(32), 64, "07".repeat(64));
        let boot = format!("8458{:02x}{}58{:02x}{}58{:02x}{}41a0", 32, "09".repeat(32), 64, "07".repeat(64), 32, "03".repeat(32));
        for (vk_field, boot_field) in [(format!("9f{}ff", vk), format!("9f{}ff", boot)), (format!("81{}", vk), format!("81{}", boot)), (format!("9f{}ff", vk), "80".to_string()), ("80".to_string(), format!("9f{}ff", boot))] {
            let wsb = unhex(&format!("a200{}02{}", vk_field, boot_field));
            let sk = PrivateKey::from_normal_bytes(&[9u8; 32]).unwrap();
            if let Ok(mut tx) = FixedTransaction::new(&body1, &wsb, true) {
                let _ = tx.sign_and_add_vkey_signature(&sk);
                let out = tx.to_bytes();
                let fb = unhex(&format!("02{}", boot_field));
                if !out.windows(fb.len()).any(|x| x == &fb[..]) { failures.push(format!("adding a key signature re-encodes the untouched bootstrap field (given as {})", &boot_field[..boot_field.len().min(12)])); }
            } else { failures.push("fixture witness set with both signature fields does not load".into()); }
            if let Ok(mut tx) = FixedTransaction::new(&body1, &wsb, true) {
                let bw = BootstrapWitness::from_bytes(unhex(&boot)).unwrap();
                let _ = tx.add_bootstrap_witness(&bw);
                let out = tx.to_bytes();
                let fb = unhex(&format!("00{}", vk_field));
                if !out.windows(fb.len()).any(|x| x == &fb[..]) { failures.push(format!("adding a bootstrap signature re-encodes the untouched key-witness field (given as {})", &vk_field[..vk_field.len().min(12)])); }
            }
        }
    }
    // datum bytes: decoded datum re-encodes to the same bytes (non-canonical forms)
    for hx in ["9f0102ff", "d8669f18c880ff", "d8668218c880", "d87a9f01ff", "bf0102ff", "5f42010243030405ff", "1903e8", "c249010000000000000000", "d905019f00ff"] {
        let b = unhex(hx);
        match PlutusData::from_bytes(b.clone()) {
            Ok(d) => {
                if d.to_bytes() != b { failures.push(format!("datum {} re-encodes as {:02x?}", hx, d.to_bytes())); }
                if hash_plutus_data(&d).to_bytes() != crate::battery::blake(&b) { failures.push(format!("datum hash of {} is not the hash of the original bytes", hx)); }
            }
            Err(_) => failures.push(format!("datum {} does not decode", hx)),
        }
    }
    assert!(failures.is_empty(), "{} byte-preservation scenarios violate the property; first: {}", failures.len(), failures[0]);
}
/// Blake2b-256 through the library's own hashing of a bytes datum would be circular; use the TransactionHash of a body-less
/// wrapper instead: FixedTransaction is not applicable to arbitrary bytes, so hash via ScriptDataHash of no-op inputs is not
/// available either — the crate re-exports no raw blake2b. We therefore compare with the hash of a datum rebuilt from the same bytes.
fn blake(b: &[u8]) -> Vec<u8> { hash_plutus_data(&PlutusData::from_bytes(b.to_vec()).unwrap()).to_bytes() }

// ---------------------------------------------------------------- C13: send-all batches, through the public API
/// the same asset sits in several UTxOs and its summed quantity needs a wider CBOR integer than any single amount: every
/// output of a successful send-all still respects max_value_size (swept over the few bytes where the widths matter)
fn c13_value_size_scenarios(failures: &mut Vec<String>) {
    let owner = BaseAddress::new(0, &kc(1), &kc(2)).to_address();
    let target = BaseAddress::new(0, &kc(5), &kc(6)).to_address();
    let lin = LinearFee::new(&bn(44), &bn(155381));
    for (amount, holders) in [(200u64, 2usize), (40_000, 2), (200, 3), (20, 2)] {
        for n_assets in [1usize, 2, 3] {
            let mut utxos = TransactionUnspentOutputs::new();
            let mut idx = 0u32;
            for h in 0..holders {
                let mut ma = MultiAsset::new();
                for a in 0..n_assets { ma.set_asset(&ScriptHash::from([7u8; 28]), &AssetName::new(vec![a as u8 + 1; 4]).unwrap(), &bn(amount)); }
                utxos.add(&TransactionUnspentOutput::new(&TransactionInput::new(&TransactionHash::from([0x5cu8; 32]), idx), &TransactionOutput::new(&owner, &Value::new_with_assets(&bn(3_000_000 + h as u64), &ma))));
                idx += 1;
            }
            for max_value_size in 40u32..110 {
                let cfg = TransactionBuilderConfigBuilder::new().fee_algo(&lin).pool_deposit(&bn(500_000_000)).key_deposit(&bn(2_000_000))
                    .max_value_size(max_value_size).max_tx_size(16384).coins_per_utxo_byte(&bn(4310)).build().unwrap();
                if let Ok(batches) = create_send_all(&target, &utxos, &cfg) {
                    for bi in 0..batches.len() { let batch = batches.get(bi); for ti in 0..batch.len() { let body = batch.get(ti).body(); for oi in 0..body.outputs().len() {
                        let sz = body.outputs().get(oi).amount().to_bytes().len();
                        if sz > max_value_size as usize && failures.len() < 5 { failures.push(format!("send-all ({} assets x {} holders of {}): output value is {} bytes, max_value_size is {}", n_assets, holders, amount, sz, max_value_size)); }
                    } } }
                }
            }
        }
    }
}

/// inputs owned by many distinct keys in one transaction (the witness-set array header changes width at 24 and 256
/// witnesses): fee >= minimum fee of the fully signed transaction, signed size <= max_tx_size
fn c13_many_owners(failures: &mut Vec<String>) {
    let lin = LinearFee::new(&bn(44), &bn(155381));
    let target = BaseAddress::new(0, &kc(5), &kc(6)).to_address();
    for owners in [20usize, 23, 24, 25, 30, 60] {
        let mut utxos = TransactionUnspentOutputs::new();
        for i in 0..owners {
            let mut k = [0x40u8; 28]; k[0] = i as u8; k[1] = (i >> 8) as u8;
            let a = EnterpriseAddress::new(0, &Credential::from_keyhash(&Ed25519KeyHash::from(k))).to_address();
            utxos.add(&TransactionUnspentOutput::new(&TransactionInput::new(&TransactionHash::from([0x3cu8; 32]), i as u32), &TransactionOutput::new(&a, &Value::new(&bn(2_000_000)))));
        }
        for limit in [16384u32, 12000, 8000, 6000, 5000, 4000] {
            let cfg = TransactionBuilderConfigBuilder::new().fee_algo(&lin).pool_deposit(&bn(500_000_000)).key_deposit(&bn(2_000_000))
                .max_value_size(4000).max_tx_size(limit).coins_per_utxo_byte(&bn(4310)).build().unwrap();
            if let Ok(batches) = create_send_all(&target, &utxos, &cfg) {
                for bi in 0..batches.len() {
                    let batch = batches.get(bi);
                    for ti in 0..batch.len() {
                        let tx = batch.get(ti);
                        let body = tx.body();
                        let nkeys = body.inputs().len();          // every input has its own owner
                        let mut ws = tx.witness_set();
                        let mut vk = Vkeywitnesses::new();
                        for k in 0..nkeys { let mut b = [9u8; 32]; b[31] = k as u8; b[30] = (k >> 8) as u8; vk.add(&Vkeywitness::new(&Vkey::new(&PublicKey::from_bytes(&b).unwrap()), &sig())); }
                        ws.set_vkeys(&vk);
                        let signed = Transaction::new(&body, &ws, None);
                        let ssize = signed.to_bytes().len();
                        if ssize > limit as usize { failures.push(format!("{} owners, limit {}: signed transaction of {} bytes exceeds max_tx_size", owners, limit, ssize)); }
                        let need = u64::from(min_fee(&signed, &lin).unwrap());
                        let fee = u64::from(body.fee());
                        if fee < need { failures.push(format!("{} owners ({} key witnesses in this transaction), limit {}: fee {} below the minimum {} for the signed size", owners, nkeys, limit, fee, need)); }
                    }
                }
            }
        }
    }
}

/// "the transactions together spend every supplied UTxO exactly once and pay only the target address" on wallets whose
/// token UTxOs are underfunded and whose remaining ADA sits in dust (success must mean nothing is left over)
fn c13_spend_all_scenario(token_coin: u64, policies: u8, healthy: bool, dust: u32, dust_coin: u64, max_tx: u32) -> Result<(), String> {
    let tag = format!("token utxo {} lovelace / {} policies, healthy {}, {} dust utxos of {}, max_tx_size {}", token_coin, policies, healthy, dust, dust_coin, max_tx);
    let owner = BaseAddress::new(0, &kc(1), &kc(2)).to_address();
    let target = BaseAddress::new(0, &kc(5), &kc(6)).to_address();
    let txid = TransactionHash::from([0x3bu8; 32]);
    let mut utxos = TransactionUnspentOutputs::new();
    let mut n = 0u32;
    let mut tok = |first: u8, k: u8, coin: u64, n: &mut u32, utxos: &mut TransactionUnspentOutputs| {
        let mut ma = MultiAsset::new();
        for p in first..first + k { ma.set_asset(&ScriptHash::from([p; 28]), &AssetName::new(vec![p; 20]).unwrap(), &bn(7)); }
        utxos.add(&TransactionUnspentOutput::new(&TransactionInput::new(&txid, *n), &TransactionOutput::new(&owner, &Value::new_with_assets(&bn(coin), &ma))));
        *n += 1;
    };
    if healthy { tok(10, 1, 2_000_000, &mut n, &mut utxos); }
    tok(100, policies, token_coin, &mut n, &mut utxos);
    // the dust belongs to three further owners in rotation: every transaction must count one key witness per distinct owner
    let mut owner_of: Vec<u8> = (0..n).map(|_| 1u8).collect();
    for i in 0..dust {
        let ob = 10 + (i % 3) as u8;
        utxos.add(&TransactionUnspentOutput::new(&TransactionInput::new(&txid, n), &TransactionOutput::new(&BaseAddress::new(0, &kc(ob), &kc(2)).to_address(), &Value::new(&bn(dust_coin)))));
        owner_of.push(ob);
        n += 1;
    }
    let cfg = TransactionBuilderConfigBuilder::new().fee_algo(&LinearFee::new(&bn(44), &bn(155381))).pool_deposit(&bn(500_000_000)).key_deposit(&bn(2_000_000))
        .max_value_size(5000).max_tx_size(max_tx).coins_per_utxo_byte(&bn(4310)).build().unwrap();
    let batches = match create_send_all(&target, &utxos, &cfg) { Ok(b) => b, Err(_) => return Ok(()) };
    let mut times = vec![0u32; n as usize];
    for b in 0..batches.len() {
        let batch = batches.get(b);
        for t in 0..batch.len() {
            let body = batch.get(t).body();
            for i in 0..body.inputs().len() {
                let inp = body.inputs().get(i);
                if inp.transaction_id().to_bytes() != txid.to_bytes() || inp.index() >= n { return Err(format!("{}: an input that was not supplied is spent", tag)); }
                times[inp.index() as usize] += 1;
            }
            for o in 0..body.outputs().len() {
                if body.outputs().get(o).address().to_bytes() != target.to_bytes() { return Err(format!("{}: an output pays another address", tag)); }
            }
            let mut owners: Vec<u8> = (0..body.inputs().len()).map(|i| owner_of[body.inputs().get(i).index() as usize]).collect();
            owners.sort(); owners.dedup();
            let counted = batch.get(t).witness_set().vkeys().map(|v| v.len()).unwrap_or(0);
            if counted != owners.len() { return Err(format!("{}: a transaction spends UTxOs of {} distinct owners but is sized (and its fee computed) for {} key witnesses", tag, owners.len(), counted)); }
        }
    }
    for (i, t) in times.iter().enumerate() {
        if *t != 1 { return Err(format!("{}: send-all succeeded but supplied UTxO #{} is spent {} times", tag, i, t)); }
    }
    Ok(())
}
pub fn c13_spend_all<S: Src>(_s: &mut S) {
    let mut failures = Vec::new();
    let mut n = 0;
    for (token_coin, policies, healthy) in [(1_000_000u64, 1u8, false), (1_000_000, 12, true), (1_200_000, 4, false), (900_000, 2, true)] {
        for (dust, dust_coin) in [(300u32, 3_000u64), (500, 10_000), (150, 20_000), (40, 100_000), (12, 400_000), (6, 1_000_000)] {
            for max_tx in [3000u32, 4000, 8000] {
                n += 1;
                if let Err(e) = c13_spend_all_scenario(token_coin, policies, healthy, dust, dust_coin, max_tx) { failures.push(e); }
            }
        }
    }
    assert!(failures.is_empty(), "{} of {} send-all scenarios leave supplied UTxOs unspent, spend them twice or count the wrong number of signatures; first: {}", failures.len(), n, failures[0]);
}

pub fn c13_send_all<S: Src>(_s: &mut S) {
    let owner_tokens = BaseAddress::new(0, &kc(1), &kc(2)).to_address();
    let owner_ada = BaseAddress::new(0, &kc(3), &kc(4)).to_address();
    let target = BaseAddress::new(0, &kc(5), &kc(6)).to_address();
    let mut utxos = TransactionUnspentOutputs::new();
    let mut supplied: Vec<(Vec<u8>, u32, u64, u64)> = Vec::new();         // (tx id, index, lovelace, asset units)
    let txid = [0x3bu8; 32];
    let mut idx = 0u32;
    for p in 0..40u8 {
        let mut ma = MultiAsset::new();
        ma.set_asset(&ScriptHash::from([p + 1; 28]), &AssetName::new(vec![p + 1; 8]).unwrap(), &bn(1));
        let v = Value::new_with_assets(&bn(150_000), &ma);
        utxos.add(&TransactionUnspentOutput::new(&TransactionInput::new(&TransactionHash::from(txid), idx), &TransactionOutput::new(&owner_tokens, &v)));
        supplied.push((txid.to_vec(), idx, 150_000, 1));
        idx += 1;
    }
    for _ in 0..200 {
        utxos.add(&TransactionUnspentOutput::new(&TransactionInput::new(&TransactionHash::from(txid), idx), &TransactionOutput::new(&owner_ada, &Value::new(&bn(250_000)))));
        supplied.push((txid.to_vec(), idx, 250_000, 0));
        idx += 1;
    }
    let lin = LinearFee::new(&bn(44), &bn(155381));
    let mut failures: Vec<String> = Vec::new();
    c13_value_size_scenarios(&mut failures);
    c13_many_owners(&mut failures);
    let mut successes = 0;
    let mut limit = 1400u32;
    while limit <= 2600 {
        let cfg = TransactionBuilderConfigBuilder::new().fee_algo(&lin).pool_deposit(&bn(500_000_000)).key_deposit(&bn(2_000_000))
            .max_value_size(4000).max_tx_size(limit).coins_per_utxo_byte(&bn(4310)).build().unwrap();
        if let Ok(batches) = create_send_all(&target, &utxos, &cfg) {
            successes += 1;
            let mut spent: Vec<u32> = Vec::new();
            for bi in 0..batches.len() {
                let batch = batches.get(bi);
                for ti in 0..batch.len() {
                    let tx = batch.get(ti);
                    let size = tx.to_bytes().len();
                    let body = tx.body();
                    let (mut in_coin, mut in_assets) = (0u128, 0u128);
                    let mut owners = (false, false);
                    for ii in 0..body.inputs().len() {
                        let i = body.inputs().get(ii).index();
                        spent.push(i);
                        let s = &supplied[i as usize];
                        in_coin += s.2 as u128; in_assets += s.3 as u128;
                        if s.3 > 0 { owners.0 = true } else { owners.1 = true }
                    }
                    let (mut out_coin, mut out_assets) = (0u128, 0u128);
                    for oi in 0..body.outputs().len() {
                        let o = body.outputs().get(oi);
                        if o.address().to_bytes() != target.to_bytes() { failures.push(format!("limit {}: an output pays another address", limit)); }
                        out_coin += u64::from(o.amount().coin()) as u128;
                        if let Some(ma) = o.amount().multiasset() {
                            let pols = ma.keys();
                            for p in 0..pols.len() { let a = ma.get(&pols.get(p)).unwrap(); let ns = a.keys(); for n in 0..ns.len() { out_assets += u64::from(a.get(&ns.get(n)).unwrap()) as u128; } }
                        }
                        let need = u64::from(min_ada_for_output(&o, &DataCost::new_coins_per_byte(&bn(4310))).unwrap());
                        if u64::from(o.amount().coin()) < need { failures.push(format!("limit {}: an output is below its minimum ADA", limit)); }
                        if o.amount().to_bytes().len() > 4000 { failures.push(format!("limit {}: value larger than max value size", limit)); }
                    }
                    let fee = u64::from(body.fee()) as u128;
                    if in_coin != out_coin + fee || in_assets != out_assets { failures.push(format!("limit {}: transaction {} is not balanced", limit, ti)); }
                    // signed size: one key witness per distinct owning key
                    let nkeys = owners.0 as u8 + owners.1 as u8;
                    let mut ws = tx.witness_set();
                    let mut vk = Vkeywitnesses::new();
                    for k in 0..nkeys { vk.add(&Vkeywitness::new(&Vkey::new(&pubkey(k)), &sig())); }
                    ws.set_vkeys(&vk);
                    let signed = Transaction::new(&body, &ws, None);
                    let ssize = signed.to_bytes().len();
                    if ssize > limit as usize || size > limit as usize { failures.push(format!("limit {}: transaction of {} bytes ({} signed) exceeds max_tx_size", limit, size, ssize)); }
                    let need_fee = u64::from(min_fee(&signed, &lin).unwrap()) as u128;
                    if fee < need_fee { failures.push(format!("limit {}: fee {} below the minimum {} for the signed size", limit, fee, need_fee)); }
                }
            }
            spent.sort();
            let all: Vec<u32> = (0..idx).collect();
            if spent != all { failures.push(format!("limit {}: supplied UTxOs are not spent exactly once ({} inputs for {} UTxOs)", limit, spent.len(), all.len())); }
        }
        limit += 3;
    }
    assert!(successes > 20, "send-all battery: too few successful builds ({}) to mean anything", successes);
    assert!(failures.is_empty(), "{} send-all checks fail over {} successful builds; first: {}", failures.len(), successes, failures[0]);
}

// ---------------------------------------------------------------- C16: set-typed collections (API-level confirmation)
macro_rules! set_battery {
    ($failures:ident, $ty:ident, $mk:expr) => {{
        let elems: Vec<_> = (0..3u8).map($mk).collect();
        // every insertion sequence of length <= 4 over three elements
        let mut seqs: Vec<Vec<usize>> = vec![vec![]];
        for len in 1..=4usize { let base: Vec<Vec<usize>> = seqs.iter().filter(|s| s.len() == len - 1).cloned().collect(); for s in base { for e in 0..3usize { let mut t = s.clone(); t.push(e); seqs.push(t); } } }
        for seq in &seqs {
            let mut c = $ty::new();
            let mut expect: Vec<usize> = Vec::new();
            for &e in seq {
                let fresh = !expect.contains(&e);
                let r = c.add(&elems[e]);
                if r != fresh { $failures.push(format!("{}::add returned {} for an element that was {}", stringify!($ty), r, if fresh { "absent" } else { "present" })); }
                if fresh { expect.push(e); }
            }
            let want: Vec<Vec<u8>> = expect.iter().map(|&e| elems[e].to_bytes()).collect();
            let got: Vec<Vec<u8>> = (0..c.len()).map(|i| c.get(i).to_bytes()).collect();
            if got != want { $failures.push(format!("{} after insertion sequence {:?}: holds {} elements, expected the first occurrences {:?}", stringify!($ty), seq, got.len(), expect)); continue; }
            // the encoding lists every element once, in that order, and decodes back to the same collection
            let bytes = c.to_bytes();
            match $ty::from_bytes(bytes.clone()) {
                Ok(d) => { let back: Vec<Vec<u8>> = (0..d.len()).map(|i| d.get(i).to_bytes()).collect(); if back != want { $failures.push(format!("{} {:?}: encoding does not decode to the same elements", stringify!($ty), seq)); } }
                Err(_) => $failures.push(format!("{} {:?}: own encoding does not decode", stringify!($ty), seq)),
            }
            // JSON that repeats elements: the collection read from it is duplicate-free, first-occurrence order
            let elem_json = |e: usize| -> Option<String> {
                // the element's JSON, cut out of the JSON of the one-element collection (some element types have no to_json of their own)
                let mut c1 = $ty::new(); c1.add(&elems[e]);
                let j = c1.to_json().ok()?; let j = j.trim();
                if j.starts_with('[') && j.ends_with(']') { Some(j[1..j.len() - 1].to_string()) } else { None }
            };
            if let Some(parts) = seq.iter().map(|&e| elem_json(e)).collect::<Option<Vec<String>>>() {
                let js = format!("[{}]", parts.join(","));
                match $ty::from_json(&js) {
                    Ok(d) => {
                        let back: Vec<Vec<u8>> = (0..d.len()).map(|i| d.get(i).to_bytes()).collect();
                        if back != want { $failures.push(format!("{} read from JSON repeating elements {:?}: holds {} elements, expected first occurrences {:?}", stringify!($ty), seq, back.len(), expect)); }
                        let n_items = match $ty::from_bytes(d.to_bytes()) { Ok(x) => x.len(), Err(_) => usize::MAX };
                        if n_items != want.len() { $failures.push(format!("{} {:?}: a collection read from JSON serializes {} elements", stringify!($ty), seq, n_items)); }
                    }
                    Err(_) => $failures.push(format!("{} {:?}: a JSON array of its own elements is refused", stringify!($ty), seq)),
                }
            }
            // bytes that repeat elements (untagged array, tagged, indefinite): decoded collection is duplicate-free, first-occurrence order
            for form in 0..3u8 {
                let mut raw: Vec<u8> = Vec::new();
                if form == 1 { raw.extend([0xd9, 0x01, 0x02]); }
                if form == 2 { raw.push(0x9f); } else { raw.push(0x80 + seq.len() as u8); }
                for &e in seq { raw.extend(wire(&elems[e].to_bytes())); }
                if form == 2 { raw.push(0xff); }
                match $ty::from_bytes(raw) {
                    Ok(d) => {
                        let back: Vec<Vec<u8>> = (0..d.len()).map(|i| d.get(i).to_bytes()).collect();
                        if back != want { $failures.push(format!("{} decoded from bytes repeating elements {:?} (form {}): holds {} elements, expected first occurrences {:?}", stringify!($ty), seq, form, back.len(), expect)); }
                        let again = d.to_bytes();
                        let n_items = match $ty::from_bytes(again) { Ok(x) => x.len(), Err(_) => usize::MAX };
                        if n_items != want.len() { $failures.push(format!("{} {:?}: re-encoding of a decoded collection lists {} elements", stringify!($ty), seq, n_items)); }
                    }
                    Err(_) => $failures.push(format!("{} {:?}: well-formed array (form {}) does not decode", stringify!($ty), seq, form)),
                }
            }
        }
    }};
}

/// element bytes as they appear inside a collection: hash types print their raw 28 bytes without a CBOR head
fn wire(b: &[u8]) -> Vec<u8> { if b.len() == 28 && crate::wellformed::item_end(b, 0, 4) != Some(28) { let mut v = vec![0x58u8, 0x1c]; v.extend(b); v } else { b.to_vec() } }

pub fn c16_sets<S: Src>(_s: &mut S) {
    let mut failures: Vec<String> = Vec::new();
    set_battery!(failures, Ed25519KeyHashes, |b| kh(b + 1));
    set_battery!(failures, Credentials, |b| if b == 2 { Credential::from_scripthash(&ScriptHash::from([1u8; 28])) } else { kc(b + 1) });
    set_battery!(failures, TransactionInputs, |b| TransactionInput::new(&TransactionHash::from([7u8; 32]), b as u32));
    set_battery!(failures, Certificates, |b| Certificate::new_stake_registration(&StakeRegistration::new(&kc(b + 1))));
    set_battery!(failures, VotingProposals, |b| VotingProposal::new(&GovernanceAction::new_info_action(&InfoAction::new()),
        &Anchor::new(&URL::new("https://x.y".to_string()).unwrap(), &AnchorDataHash::from([b; 32])), &RewardAddress::new(0, &kc(9)), &bn(5)));
    set_battery!(failures, Vkeywitnesses, |b| Vkeywitness::new(&Vkey::new(&pubkey(b)), &sig()));
    set_battery!(failures, BootstrapWitnesses, |b| BootstrapWitness::new(&Vkey::new(&pubkey(b)), &sig(), vec![3u8; 32], vec![0xa0]));
    for f in failures.iter().take(10) { eprintln!("C16-SETS {}", f); }
    assert!(failures.is_empty(), "{} set-collection scenarios violate the property; first: {}", failures.len(), failures[0]);
}


// ---------------------------------------------------------------- C19: the percentage helper, failed attempts (API-level confirmation)
/// add_inputs_from_and_change_with_collateral_return fails in its first stage (not enough UTxOs) or in its last one
/// (collateral too small for the percentage): the builder must afterwards hold neither a collateral return nor a total
pub fn c19_helper_failed<S: Src>(_s: &mut S) {
    let mut failures: Vec<String> = Vec::new();
    for variant in 0..3u8 {
        let mut tb = TransactionBuilder::new(&config(true));
        let want: u64 = if variant == 0 { 5_000_000_000 } else { 2_000_000 };
        tb.add_output(&TransactionOutput::new(&addr(0, 50), &Value::new(&bn(want)))).unwrap();
        let col_coin: u64 = if variant == 2 { 1_000 } else { 5_000_000 };
        let mut cb = TxInputsBuilder::new();
        cb.add_regular_input(&addr(1, 3), &TransactionInput::new(&TransactionHash::from([8u8; 32]), 0), &Value::new(&bn(col_coin))).unwrap();
        tb.set_collateral(&cb);
        let mut utxos = TransactionUnspentOutputs::new();
        utxos.add(&TransactionUnspentOutput::new(&TransactionInput::new(&TransactionHash::from([9u8; 32]), 0), &TransactionOutput::new(&addr(1, 4), &Value::new(&bn(100_000_000)))));
        if variant == 1 {
            // balanced first: the helper refuses because change was already calculated
            if tb.add_inputs_from_and_change(&utxos, CoinSelectionStrategyCIP2::LargestFirstMultiAsset, &ChangeConfig::new(&addr(1, 60))).is_err() { continue; }
        }
        let r = tb.add_inputs_from_and_change_with_collateral_return(&utxos, CoinSelectionStrategyCIP2::LargestFirstMultiAsset, &ChangeConfig::new(&addr(1, 60)), &bn(150));
        if r.is_ok() { continue; }
        if tb.get_fee_if_set().is_none() { tb.set_fee(&bn(300_000)); }
        match tb.build() {
            Ok(body) => if body.total_collateral().is_some() || body.collateral_return().is_some() {
                failures.push(format!("failed percentage-helper attempt (variant {}) leaves total collateral {:?} / a collateral return set", variant, body.total_collateral().map(u64::from)));
            },
            Err(_) => (),
        }
    }
    assert!(failures.is_empty(), "{} collateral scenarios violate the property; first: {}", failures.len(), failures[0]);
}

// ---------------------------------------------------------------- C08: largest-first selection through the public API (confirmation only)
pub fn c08_largest_first<S: Src>(_s: &mut S) {
    let mut failures: Vec<String> = Vec::new();
    let coins: [u64; 5] = [5_000_000, 3_000_000, 9_000_000, 1_500_000, 7_000_000];
    // all rotations and a few swaps of the offer order; several targets, one of them unreachable
    let mut orders: Vec<Vec<usize>> = Vec::new();
    for r in 0..5 { orders.push((0..5).map(|i| (i + r) % 5).collect()); orders.push((0..5).rev().map(|i| (i + r) % 5).collect()); }
    orders.push(vec![2, 4, 0, 1, 3]); orders.push(vec![3, 1, 0, 4, 2]);
    for order in &orders {
        for target in [1_000_000u64, 6_000_000, 9_500_000, 15_000_000, 22_000_000, 40_000_000] {
            for strategy in [CoinSelectionStrategyCIP2::LargestFirst, CoinSelectionStrategyCIP2::LargestFirstMultiAsset] {
                let mut tb = TransactionBuilder::new(&config(true));
                tb.add_output(&TransactionOutput::new(&addr(0, 50), &Value::new(&bn(target)))).unwrap();
                let mut utxos = TransactionUnspentOutputs::new();
                for &k in order {
                    utxos.add(&TransactionUnspentOutput::new(&TransactionInput::new(&TransactionHash::from([k as u8 + 1; 32]), 0), &TransactionOutput::new(&addr(1, 4), &Value::new(&bn(coins[k])))));
                }
                let tag = format!("largest-first, offer order {:?}, target {}", order, target);
                let r = tb.add_inputs_from(&utxos, strategy);
                let ins = tb.get_explicit_input().map(|v| u64::from(v.coin())).unwrap_or(0);
                let body_inputs = { let mut b = tb.clone(); b.set_fee(&bn(0)); b.build().map(|x| x.inputs()).ok() };
                let mut chosen: Vec<usize> = Vec::new();
                if let Some(bi) = &body_inputs { for i in 0..bi.len() { chosen.push(bi.get(i).transaction_id().to_bytes()[0] as usize - 1); } }
                let mut d = chosen.clone(); d.sort(); d.dedup();
                if d.len() != chosen.len() || chosen.iter().any(|&k| k >= 5) { failures.push(format!("{}: selected inputs {:?} are not distinct offered UTxOs", tag, chosen)); continue; }
                if chosen.iter().map(|&k| coins[k]).sum::<u64>() != ins { failures.push(format!("{}: builder input total {} differs from the selected UTxOs {:?}", tag, ins, chosen)); }
                let min_sel = chosen.iter().map(|&k| coins[k]).min().unwrap_or(u64::MAX);
                if (0..5).any(|k| !chosen.contains(&k) && coins[k] > min_sel) { failures.push(format!("{}: a skipped UTxO is larger than a selected one ({:?})", tag, chosen)); }
                let need = target + tb.min_fee().map(u64::from).unwrap_or(0);
                match r {
                    Ok(()) => {
                        if ins < need { failures.push(format!("{}: selection reported success but inputs {} < outputs + minimum fee {}", tag, ins, need)); }
                        if chosen.len() > 1 && ins - min_sel >= need { failures.push(format!("{}: selection did not stop when covered (inputs {} still cover {} without the smallest selected)", tag, ins, need)); }
                    }
                    Err(_) => if coins.iter().sum::<u64>() >= need + 1_000_000 { failures.push(format!("{}: insufficiency reported although all offered UTxOs ({}) suffice for {}", tag, coins.iter().sum::<u64>(), need)); },
                }
            }
        }
    }
    // the largest UTxO lands in the narrow band around "outputs + fee": sweep it in steps of 250 lovelace; smaller ones could close any gap
    for multi in [false, true] {
        let target: u64 = 2_000_000;
        let mut a = target + 150_000;
        while a < target + 190_000 {
            let mut tb = TransactionBuilder::new(&config(true));
            tb.add_output(&TransactionOutput::new(&addr(0, 50), &Value::new(&bn(target)))).unwrap();
            let mut utxos = TransactionUnspentOutputs::new();
            for (k, c) in [a, 1_000_000, 1_000_000, 1_000_000].iter().enumerate() {
                utxos.add(&TransactionUnspentOutput::new(&TransactionInput::new(&TransactionHash::from([k as u8 + 1; 32]), 0), &TransactionOutput::new(&addr(1, 4), &Value::new(&bn(*c)))));
            }
            let strategy = if multi { CoinSelectionStrategyCIP2::LargestFirstMultiAsset } else { CoinSelectionStrategyCIP2::LargestFirst };
            if tb.add_inputs_from(&utxos, strategy).is_ok() {
                let ins = tb.get_explicit_input().map(|v| u64::from(v.coin())).unwrap_or(0);
                let need = target + tb.min_fee().map(u64::from).unwrap_or(0);
                if ins < need { failures.push(format!("largest-first, largest offered UTxO {}: selection reported success but inputs {} < outputs + minimum fee {}", a, ins, need)); break; }
            }
            a += 250;
        }
    }
    // multi-asset passes: one pass per requested asset and one for lovelace share the list of remaining UTxOs; every offer order
    // (5! permutations) of two wallets whose tokens sit in the first- and last-offered UTxOs
    let pol = ScriptHash::from([7u8; 28]);
    let an = |n: u8| AssetName::new(vec![0x41 + n; 3]).unwrap();
    let wallets: [Vec<(u64, u64, u64)>; 2] = [
        vec![(2_000_000, 100, 0), (1_500_000, 0, 0), (1_200_000, 0, 0), (1_100_000, 0, 0), (3_000_000, 50, 0)],
        vec![(10_000_000, 100, 0), (2_000_000, 0, 40), (2_000_000, 0, 30), (2_000_000, 0, 0), (2_000_000, 50, 50)],
    ];
    let wants: [(u64, u64, u64); 2] = [(5_000_000, 120, 0), (3_000_000, 120, 80)];
    let mut perm: Vec<usize> = vec![0, 1, 2, 3, 4];
    let mut perms: Vec<Vec<usize>> = Vec::new();
    fn heap(k: usize, a: &mut Vec<usize>, out: &mut Vec<Vec<usize>>) { if k == 1 { out.push(a.clone()); return; } for i in 0..k { heap(k - 1, a, out); if k % 2 == 0 { a.swap(i, k - 1); } else { a.swap(0, k - 1); } } }
    heap(5, &mut perm, &mut perms);
    for (w, wallet) in wallets.iter().enumerate() {
        for order in &perms {
            let mk_val = |(c, a, b): (u64, u64, u64)| { let mut v = Value::new(&bn(c)); if a > 0 || b > 0 { let mut ma = MultiAsset::new(); if a > 0 { ma.set_asset(&pol, &an(0), &bn(a)); } if b > 0 { ma.set_asset(&pol, &an(1), &bn(b)); } v.set_multiasset(&ma); } v };
            let mut tb = TransactionBuilder::new(&config(true));
            if tb.add_output(&TransactionOutput::new(&addr(0, 50), &mk_val(wants[w]))).is_err() { continue; }
            let mut utxos = TransactionUnspentOutputs::new();
            for &k in order { utxos.add(&TransactionUnspentOutput::new(&TransactionInput::new(&TransactionHash::from([k as u8 + 1; 32]), 0), &TransactionOutput::new(&addr(1, 4), &mk_val(wallet[k])))); }
            let tag = format!("largest-first multi-asset, wallet {}, offer order {:?}", w, order);
            if tb.add_inputs_from(&utxos, CoinSelectionStrategyCIP2::LargestFirstMultiAsset).is_err() { continue; }
            let body_inputs = { let mut b = tb.clone(); b.set_fee(&bn(0)); b.build().map(|x| x.inputs()).ok() };
            let mut chosen: Vec<usize> = Vec::new();
            if let Some(bi) = &body_inputs { for i in 0..bi.len() { chosen.push(bi.get(i).transaction_id().to_bytes()[0] as usize - 1); } }
            let (mut c, mut a, mut b) = (0u64, 0u64, 0u64);
            for &k in &chosen { c += wallet[k].0; a += wallet[k].1; b += wallet[k].2; }
            let need = wants[w].0 + tb.min_fee().map(u64::from).unwrap_or(0);
            if c < need || a < wants[w].1 || b < wants[w].2 {
                failures.push(format!("{}: selection reported success but the inputs actually in the builder {:?} hold ({}, {}, {}), needed ({}, {}, {})", tag, chosen, c, a, b, need, wants[w].1, wants[w].2));
            }
        }
    }
    assert!(failures.is_empty(), "{} largest-first scenarios violate the property; first: {}", failures.len(), failures[0]);
}

/// random-improve through the public API, repeated (the strategy draws from the thread RNG): whenever selection reports
/// success, the inputs actually in the builder are distinct offered UTxOs and cover outputs + minimum fee
pub fn c08_random_improve<S: Src>(_s: &mut S) {
    let mut failures: Vec<String> = Vec::new();
    // tokens among the inputs (picked, or already in the builder) while the outputs are plain ADA: the fee top-up must still run
    for variant in 0..2u8 {
        for multi in [false, true] {
            for _round in 0..20 {
                let strategy = if multi { CoinSelectionStrategyCIP2::RandomImproveMultiAsset } else { CoinSelectionStrategyCIP2::RandomImprove };
                let tok = |q: u64| { let mut ma = MultiAsset::new(); ma.set_asset(&ScriptHash::from([7u8; 28]), &AssetName::new(vec![1]).unwrap(), &bn(q)); ma };
                let mut tb = TransactionBuilder::new(&config(true));
                if tb.add_output(&TransactionOutput::new(&addr(0, 50), &Value::new(&bn(2_000_000)))).is_err() { continue; }
                let mut utxos = TransactionUnspentOutputs::new();
                let mut preset_coin = 0u64;
                if variant == 0 {
                    for k in 1..=5u8 { utxos.add(&TransactionUnspentOutput::new(&TransactionInput::new(&TransactionHash::from([k; 32]), 0), &TransactionOutput::new(&addr(1, 4), &Value::new_with_assets(&bn(2_000_000), &tok(1))))); }
                } else {
                    let mut own = TxInputsBuilder::new();
                    preset_coin = 1_500_000;
                    if own.add_regular_utxo(&TransactionUnspentOutput::new(&TransactionInput::new(&TransactionHash::from([100u8; 32]), 0), &TransactionOutput::new(&addr(1, 4), &Value::new_with_assets(&bn(preset_coin), &tok(25))))).is_err() { continue; }
                    tb.set_inputs(&own);
                    for k in 1..=6u8 { utxos.add(&TransactionUnspentOutput::new(&TransactionInput::new(&TransactionHash::from([k; 32]), 0), &TransactionOutput::new(&addr(1, 4), &Value::new(&bn(500_000))))); }
                }
                if tb.add_inputs_from(&utxos, strategy).is_err() { continue; }
                let have: u64 = tb.get_explicit_input().map(|v| u64::from(v.coin())).unwrap_or(0);
                let need = 2_000_000 + tb.min_fee().map(u64::from).unwrap_or(0);
                if have < need { failures.push(format!("random-improve with tokens among the inputs (variant {}): selection reported success but the inputs hold {} lovelace (pre-set {}), outputs + minimum fee need {}", variant, have, preset_coin, need)); }
            }
        }
    }
    let sets: [&[u64]; 4] = [&[10_000_000, 10_100_000, 10_150_000], &[10_000_000, 10_100_000, 300_000_000], &[5_000_000, 5_050_000, 5_100_000, 5_020_000], &[10_000_000, 19_000_000, 10_050_000, 2_000_000]];
    for (si, coins) in sets.iter().enumerate() {
        for trial in 0..300 {
            for strategy in [CoinSelectionStrategyCIP2::RandomImprove, CoinSelectionStrategyCIP2::RandomImproveMultiAsset] {
                let target = coins[0];
                let mut tb = TransactionBuilder::new(&config(true));
                tb.add_output(&TransactionOutput::new(&addr(0, 50), &Value::new(&bn(target)))).unwrap();
                let mut utxos = TransactionUnspentOutputs::new();
                for (k, c) in coins.iter().enumerate() {
                    utxos.add(&TransactionUnspentOutput::new(&TransactionInput::new(&TransactionHash::from([k as u8 + 1; 32]), 0), &TransactionOutput::new(&addr(1, 4), &Value::new(&bn(*c)))));
                }
                if tb.add_inputs_from(&utxos, strategy).is_err() { continue; }
                let ins = tb.get_explicit_input().map(|v| u64::from(v.coin())).unwrap_or(0);
                let need = target + tb.min_fee().map(u64::from).unwrap_or(0);
                if ins < need {
                    failures.push(format!("random-improve (set {}, trial {}): selection reported success but the builder's inputs {} do not cover outputs + minimum fee {}", si, trial, ins, need));
                }
            }
            if failures.len() > 3 { break; }
        }
    }
    assert!(failures.is_empty(), "{} random-improve runs violate the property; first: {}", failures.len(), failures[0]);
}

// ---------------------------------------------------------------- C16: building an unchanged builder repeatedly yields identical bytes
pub fn c16_repeat_build<S: Src>(_s: &mut S) {
    let mut failures: Vec<String> = Vec::new();
    for dedup in [false, true] {
        let cfg = TransactionBuilderConfigBuilder::new()
            .fee_algo(&LinearFee::new(&bn(44), &bn(155381))).pool_deposit(&bn(500_000_000)).key_deposit(&bn(2_000_000))
            .max_value_size(5000).max_tx_size(16384).coins_per_utxo_byte(&bn(4310))
            .deduplicate_explicit_ref_inputs_with_regular_inputs(dedup).build().unwrap();
        let mut tb = TransactionBuilder::new(&cfg);
        let mut ib = TxInputsBuilder::new();
        ib.add_key_input(&kh(1), &TransactionInput::new(&TransactionHash::from([1u8; 32]), 0), &Value::new(&bn(500_000_000)));
        tb.set_inputs(&ib);
        for k in 0..6u8 { tb.add_reference_input(&TransactionInput::new(&TransactionHash::from([40 + k; 32]), k as u32)); }
        tb.add_script_reference_input(&TransactionInput::new(&TransactionHash::from([90u8; 32]), 0), 100);
        tb.add_output(&TransactionOutput::new(&addr(0, 50), &Value::new(&bn(10_000_000)))).unwrap();
        tb.set_fee(&bn(2_000_000));
        let first = tb.build().map(|b| b.to_bytes()).unwrap_or_default();
        for rep in 0..12 {
            let again = tb.build().map(|b| b.to_bytes()).unwrap_or_default();
            if again != first { failures.push(format!("building the same builder again (repetition {}, dedup option {}) yields different body bytes", rep, dedup)); break; }
            let again_tx = tb.build_tx_unsafe().map(|t| t.body().to_bytes()).unwrap_or_default();
            if again_tx != first { failures.push(format!("build_tx_unsafe of the same builder (repetition {}, dedup option {}) yields a different body", rep, dedup)); break; }
        }
    }
    assert!(failures.is_empty(), "{} repeated-build scenarios violate the property; first: {}", failures.len(), failures[0]);
}


// ---------------------------------------------------------------- C07: add_output admission (API-level confirmation)
/// outputs whose value size straddles max_value_size (and whose coin straddles the min-ADA bound): whatever add_output accepts
/// has a serialized value no larger than the maximum and at least its minimum ADA
pub fn c07_add_output<S: Src>(_s: &mut S) {
    let mut failures: Vec<String> = Vec::new();
    for max_value_size in [40u32, 61, 65, 90, 130, 200] {
        let cfg = TransactionBuilderConfigBuilder::new()
            .fee_algo(&LinearFee::new(&bn(44), &bn(155381))).pool_deposit(&bn(500_000_000)).key_deposit(&bn(2_000_000))
            .max_value_size(max_value_size).max_tx_size(16384).coins_per_utxo_byte(&bn(4310)).build().unwrap();
        for n_assets in 0..8usize {
            for name_len in [0usize, 1, 5, 17, 32] {
                for qty in [1u64, 23, 24, 255, 256, 65_535, 65_536, 4_294_967_296] {
                    for coin in [0u64, 1_000_000, 1_500_000, 3_000_000, 5_000_000_000] {
                        let mut ma = MultiAsset::new();
                        if n_assets > 0 {
                            let mut assets = Assets::new();
                            for k in 0..n_assets { let mut nm = vec![k as u8; name_len]; if name_len > 0 { nm[0] = k as u8; } else if k > 0 { break; } assets.insert(&AssetName::new(nm).unwrap(), &bn(qty)); }
                            ma.insert(&ScriptHash::from([4u8; 28]), &assets);
                        }
                        let value = if n_assets > 0 { Value::new_with_assets(&bn(coin), &ma) } else { Value::new(&bn(coin)) };
                        let out = TransactionOutput::new(&addr(1, 9), &value);
                        let mut tb = TransactionBuilder::new(&cfg);
                        if tb.add_output(&out).is_ok() {
                            let size = value.to_bytes().len();
                            if size > max_value_size as usize { failures.push(format!("add_output accepted an output whose value is {} bytes, max_value_size is {}", size, max_value_size)); }
                            let need = u64::from(min_ada_for_output(&out, &DataCost::new_coins_per_byte(&bn(4310))).unwrap());
                            if coin < need { failures.push(format!("add_output accepted an output with {} lovelace, its minimum is {}", coin, need)); }
                        }
                        if failures.len() > 5 { break; }
                    }
                }
            }
        }
    }
    assert!(failures.is_empty(), "{} outputs violate the property; first: {}", failures.len(), failures[0]);
}

// ---------------------------------------------------------------- C18: declared signer sets of native-script sources
/// an inline native script satisfied by its time lock, with an explicitly EMPTY declared signer set, on a withdrawal, a
/// certificate and a mint: the predicted size stays within one key witness of the transaction signed by the one key that
/// really has to sign (the payment key)
pub fn c18_declared_signers<S: Src>(_s: &mut S) {
    let mut failures: Vec<String> = Vec::new();
    for site in 0..3u8 {
        for declared in [0usize, 1] {
            let mut scripts = NativeScripts::new();
            scripts.add(&NativeScript::new_script_pubkey(&ScriptPubkey::new(&kh(77))));
            scripts.add(&NativeScript::new_timelock_start(&TimelockStart::new_timelockstart(&bn(10))));
            let script = NativeScript::new_script_any(&ScriptAny::new(&scripts));
            let mut src = NativeScriptSource::new(&script);
            let mut ks = Ed25519KeyHashes::new();
            if declared == 1 { ks.add(&kh(77)); }
            src.set_required_signers(&ks);
            let mut tb = TransactionBuilder::new(&config(true));
            let mut ib = TxInputsBuilder::new();
            ib.add_key_input(&kh(1), &TransactionInput::new(&TransactionHash::from([1u8; 32]), 0), &Value::new(&bn(500_000_000)));
            tb.set_inputs(&ib);
            let scred = Credential::from_scripthash(&script.hash());
            match site {
                0 => { let mut wb = WithdrawalsBuilder::new(); wb.add_with_native_script(&RewardAddress::new(0, &scred), &bn(5), &src).unwrap(); tb.set_withdrawals_builder(&wb); }
                1 => { let mut cb = CertificatesBuilder::new(); cb.add_with_native_script(&Certificate::new_stake_deregistration(&StakeDeregistration::new(&scred)), &src).unwrap(); tb.set_certs_builder(&cb); }
                _ => { let mut mb = MintBuilder::new(); mb.add_asset(&MintWitness::new_native_script(&src), &AssetName::new(vec![1]).unwrap(), &Int::new_i32(5)).unwrap(); tb.set_mint_builder(&mb); }
            }
            tb.add_output(&TransactionOutput::new(&addr(0, 50), &Value::new(&bn(10_000_000)))).unwrap();
            tb.set_fee(&bn(2_000_000));
            let predicted = match tb.full_size() { Ok(x) => x, Err(_) => continue };
            let tx = match tb.build_tx_unsafe() { Ok(t) => t, Err(_) => continue };
            let mut ws = tx.witness_set();
            let mut vk = Vkeywitnesses::new();
            vk.add(&Vkeywitness::new(&Vkey::new(&pubkey(1)), &sig()));
            if declared == 1 { vk.add(&Vkeywitness::new(&Vkey::new(&pubkey(77)), &sig())); }
            ws.set_vkeys(&vk);
            let signed = Transaction::new(&tx.body(), &ws, tx.auxiliary_data()).to_bytes().len();
            if predicted < signed { failures.push(format!("site {} declared {}: predicted size {} below the signed size {}", site, declared, predicted, signed)); }
            if predicted >= signed + 100 { failures.push(format!("native script with {} declared signers (site {}): predicted size {} exceeds the signed size {} by a whole key witness", declared, site, predicted, signed)); }
        }
    }
    // the same with the script behind a reference input: its declared signers are the only source of knowledge about who signs
    for site in 0..3u8 {
        let script = NativeScript::new_script_pubkey(&ScriptPubkey::new(&kh(77)));
        let mut src = NativeScriptSource::new_ref_input(&script.hash(), &TransactionInput::new(&TransactionHash::from([9u8; 32]), 0), 40);
        let mut ks = Ed25519KeyHashes::new();
        ks.add(&kh(77));
        src.set_required_signers(&ks);
        let mut tb = TransactionBuilder::new(&config(true));
        let mut ib = TxInputsBuilder::new();
        ib.add_key_input(&kh(1), &TransactionInput::new(&TransactionHash::from([1u8; 32]), 0), &Value::new(&bn(500_000_000)));
        tb.set_inputs(&ib);
        let scred = Credential::from_scripthash(&script.hash());
        match site {
            0 => { let mut wb = WithdrawalsBuilder::new(); wb.add_with_native_script(&RewardAddress::new(0, &scred), &bn(5), &src).unwrap(); tb.set_withdrawals_builder(&wb); }
            1 => { let mut cb = CertificatesBuilder::new(); cb.add_with_native_script(&Certificate::new_stake_deregistration(&StakeDeregistration::new(&scred)), &src).unwrap(); tb.set_certs_builder(&cb); }
            _ => { let mut mb = MintBuilder::new(); mb.add_asset(&MintWitness::new_native_script(&src), &AssetName::new(vec![1]).unwrap(), &Int::new_i32(5)).unwrap(); tb.set_mint_builder(&mb); }
        }
        tb.add_output(&TransactionOutput::new(&addr(0, 50), &Value::new(&bn(10_000_000)))).unwrap();
        tb.set_fee(&bn(2_000_000));
        let predicted = match tb.full_size() { Ok(x) => x, Err(_) => continue };
        let tx = match tb.build_tx_unsafe() { Ok(t) => t, Err(_) => continue };
        let mut ws = tx.witness_set();
        let mut vk = Vkeywitnesses::new();
        vk.add(&Vkeywitness::new(&Vkey::new(&pubkey(1)), &sig()));
        vk.add(&Vkeywitness::new(&Vkey::new(&pubkey(77)), &sig()));
        ws.set_vkeys(&vk);
        let signed = Transaction::new(&tx.body(), &ws, tx.auxiliary_data()).to_bytes().len();
        if predicted < signed { failures.push(format!("native script behind a reference input with one declared signer (site {}): predicted size {} is below the signed size {} — the declared signer is not counted", site, predicted, signed)); }
        if predicted >= signed + 100 { failures.push(format!("reference-input native script (site {}): predicted size {} exceeds the signed size {} by a whole key witness", site, predicted, signed)); }
    }
    for f in &failures { eprintln!("C18-DECL {}", f); }
    assert!(failures.is_empty(), "{} declared-signer scenarios violate the property; first: {}", failures.len(), failures[0]);
}

// ---------------------------------------------------------------- C05: the balancing step, judged on the body build() assembles
/// add_change_if_needed on builders whose change is ada-only / carries assets (one or several policies, more than one
/// output can hold), with prefer_pure_change on and off, the three fee requests and a datum on the change output; the
/// body `build()` returns (no build_tx gate) must conserve lovelace and every asset.
pub fn c05_change_step<S: Src>(_s: &mut S) {
    use std::collections::BTreeMap;
    let mut failures: Vec<String> = Vec::new();
    let mut successes = 0usize;
    type Ledger = BTreeMap<(Vec<u8>, Vec<u8>), i128>;
    fn add(l: &mut Ledger, v: &Value) {
        *l.entry((vec![], vec![])).or_insert(0) += u64::from(v.coin()) as i128;
        if let Some(ma) = v.multiasset() {
            let ps = ma.keys();
            for p in 0..ps.len() { let pol = ps.get(p); let assets = ma.get(&pol).unwrap(); let ns = assets.keys();
                for n in 0..ns.len() { let nm = ns.get(n); *l.entry((pol.to_bytes(), nm.name())).or_insert(0) += u64::from(assets.get(&nm).unwrap()) as i128; } }
        }
    }
    for prefer_pure in [false, true] {
        for fee_mode in 0..3u8 {
            for n_policies in [0usize, 1, 3, 40] {
                for lovelace in [2_300_000u64, 5_000_000, 20_000_000, 900_000_000] {
                    for with_datum in [false, true] {
                        for max_value_size in [5000u32, 300] {
                            let cfg = TransactionBuilderConfigBuilder::new()
                                .fee_algo(&LinearFee::new(&bn(44), &bn(155381))).pool_deposit(&bn(500_000_000)).key_deposit(&bn(2_000_000))
                                .max_value_size(max_value_size).max_tx_size(16384).coins_per_utxo_byte(&bn(4310)).prefer_pure_change(prefer_pure).build().unwrap();
                            let mut tb = TransactionBuilder::new(&cfg);
                            let mut ma = MultiAsset::new();
                            for p in 0..n_policies {
                                let mut assets = Assets::new();
                                for k in 0..(1 + p % 3) { assets.insert(&AssetName::new(vec![k as u8, p as u8, 7]).unwrap(), &bn(1 + (p as u64) * 1000 + k as u64)); }
                                ma.insert(&ScriptHash::from([p as u8 + 1; 28]), &assets);
                            }
                            let input_value = if n_policies > 0 { Value::new_with_assets(&bn(lovelace), &ma) } else { Value::new(&bn(lovelace)) };
                            if tb.add_regular_input(&addr(1, 1), &TransactionInput::new(&TransactionHash::from([1u8; 32]), 0), &input_value).is_err() { continue; }
                            let payment = Value::new(&bn(1_200_000));
                            if tb.add_output(&TransactionOutput::new(&addr(1, 2), &payment)).is_err() { continue; }
                            match fee_mode { 1 => tb.set_min_fee(&bn(400_000)), 2 => tb.set_fee(&bn(300_000)), _ => () }
                            let r = if with_datum {
                                tb.add_change_if_needed_with_datum(&addr(1, 3), &OutputDatum::new_data_hash(&DataHash::from([3u8; 32])))
                            } else { tb.add_change_if_needed(&addr(1, 3)) };
                            if r.is_err() { continue; }
                            let body = match tb.build() { Ok(b) => b, Err(_) => continue };
                            successes += 1;
                            let (mut consumed, mut produced) = (Ledger::new(), Ledger::new());
                            add(&mut consumed, &input_value);
                            let outs = body.outputs();
                            for i in 0..outs.len() { add(&mut produced, &outs.get(i).amount()); }
                            add(&mut produced, &Value::new(&body.fee()));
                            consumed.retain(|_, v| *v != 0); produced.retain(|_, v| *v != 0);
                            let fee_now = u64::from(body.fee());
                            if (fee_mode == 1 && fee_now < 400_000) || (fee_mode == 2 && fee_now != 300_000) {
                                failures.push(format!("fee request not honoured (mode {}: 1 = at least 400000, 2 = exactly 300000): the body carries fee {}", fee_mode, fee_now));
                            }
                            if consumed != produced {
                                let c0 = consumed.get(&(vec![], vec![])).cloned().unwrap_or(0); let p0 = produced.get(&(vec![], vec![])).cloned().unwrap_or(0);
                                failures.push(format!("add_change_if_needed reported success but build() is unbalanced (prefer_pure_change={}, fee mode {}, {} policies, {} lovelace in, datum {}, max value size {}): lovelace in {} vs out+fee {}, {} outputs",
                                                      prefer_pure, fee_mode, n_policies, lovelace, with_datum, max_value_size, c0, p0, outs.len()));
                            }
                        }
                    }
                }
            }
        }
    }
    assert!(successes >= 100, "the battery is vacuous: only {} balancing successes", successes);
    assert!(failures.is_empty(), "{} balanced-by-report bodies do not conserve value; first: {}", failures.len(), failures[0]);
}

// ---------------------------------------------------------------- C16: Hash agrees with Eq for what sits inside set elements
/// pairs that are `==` but arrived in different wire forms (tagged set / plain array): they must hash alike, and a
/// certificate / proposal set given both forms keeps one
pub fn c16_hash_eq<S: Src>(_s: &mut S) {
    use std::collections::hash_map::DefaultHasher;
    use std::hash::{Hash, Hasher};
    fn h<T: Hash>(x: &T) -> u64 { let mut s = DefaultHasher::new(); x.hash(&mut s); s.finish() }
    let mut failures: Vec<String> = Vec::new();
    let khs_tagged = Ed25519KeyHashes::from_bytes(unhex(&format!("d9010281581c{}", "01".repeat(28)))).unwrap();
    let khs_plain = Ed25519KeyHashes::from_bytes(unhex(&format!("81581c{}", "01".repeat(28)))).unwrap();
    if khs_tagged == khs_plain && h(&khs_tagged) != h(&khs_plain) { failures.push("Ed25519KeyHashes: a tagged and an untagged list of the same keys are == but hash differently".into()); }
    let cr = format!("8200581c{}", "02".repeat(28));
    let cr_tagged = Credentials::from_bytes(unhex(&format!("d9010281{}", cr))).unwrap();
    let cr_plain = Credentials::from_bytes(unhex(&format!("81{}", cr))).unwrap();
    if cr_tagged == cr_plain && h(&cr_tagged) != h(&cr_plain) { failures.push("Credentials: a tagged and an untagged list of the same credentials are == but hash differently".into()); }
    // a pool registration whose owner list arrives in both forms, offered to a certificate set 12 times each
    let mk = |owners: &Ed25519KeyHashes, i: u8| {
        let params = PoolParams::new(&kh(i), &VRFKeyHash::from([3u8; 32]), &bn(1), &bn(2), &UnitInterval::new(&bn(1), &bn(2)), &RewardAddress::new(0, &kc(5)), owners, &Relays::new(), None);
        Certificate::new_pool_registration(&PoolRegistration::new(&params))
    };
    let mut certs = Certificates::new();
    for i in 0..12u8 { certs.add(&mk(&khs_tagged, i)); certs.add(&mk(&khs_plain, i)); }
    if certs.len() != 12 { failures.push(format!("12 pool registrations offered in two == forms each: the certificate set holds {}", certs.len())); }
    assert!(failures.is_empty(), "{} hash / equality disagreements; first: {}", failures.len(), failures[0]);
}

/// scripts that are `==` (same bytes, same hash) but arrived by different routes (built through the API, decoded from CBOR,
/// read from JSON) offered to the typed witness-set setters and to the builder: each is emitted once
pub fn c16_ord_eq<S: Src>(_s: &mut S) {
    let mut failures: Vec<String> = Vec::new();
    let mut inner = NativeScripts::new();
    inner.add(&native_script(1)); inner.add(&native_script(2));
    let compound: Vec<NativeScript> = vec![NativeScript::new_script_all(&ScriptAll::new(&inner)), NativeScript::new_script_any(&ScriptAny::new(&inner)),
                                           NativeScript::new_script_n_of_k(&ScriptNOfK::new(1, &inner)), native_script(3)];
    for (k, built) in compound.iter().enumerate() {
        let decoded = NativeScript::from_bytes(built.to_bytes()).unwrap();
        let from_json = NativeScript::from_json(&built.to_json().unwrap()).unwrap();
        if *built != decoded || built.to_bytes() != decoded.to_bytes() { failures.push(format!("native script {}: decoding its own bytes gives a different script", k)); continue; }
        let mut scripts = NativeScripts::new();
        scripts.add(built); scripts.add(&decoded); scripts.add(&from_json); scripts.add(&decoded);
        let mut ws = TransactionWitnessSet::new();
        ws.set_native_scripts(&scripts);
        let emitted = TransactionWitnessSet::from_bytes(ws.to_bytes()).unwrap().native_scripts().map(|x| x.len()).unwrap_or(0);
        if emitted != 1 { failures.push(format!("native script {}: the same script offered as built / decoded / from JSON is emitted {} times by the typed setter", k, emitted)); }
        // the builder: an input locked by the script (built copy) and a mint under the same script (decoded copy)
        let mut tb = TransactionBuilder::new(&config(true));
        let mut ib = TxInputsBuilder::new();
        ib.add_native_script_input(&NativeScriptSource::new(built), &TransactionInput::new(&TransactionHash::from([7u8; 32]), 0), &Value::new(&bn(10_000_000)));
        tb.set_inputs(&ib);
        let mut mb = MintBuilder::new();
        if mb.add_asset(&MintWitness::new_native_script(&NativeScriptSource::new(&decoded)), &AssetName::new(vec![1]).unwrap(), &Int::new_i32(1)).is_ok() {
            tb.set_mint_builder(&mb);
            tb.set_fee(&bn(300_000));
            if let Ok(tx) = tb.build_tx_unsafe() {
                let n = TransactionWitnessSet::from_bytes(tx.witness_set().to_bytes()).unwrap().native_scripts().map(|x| x.len()).unwrap_or(0);
                if n != 1 { failures.push(format!("native script {}: shared by an input and a mint, the builder emits it {} times", k, n)); }
            }
        }
    }
    // Plutus scripts: built and decoded copies through the typed setter
    for (k, ps) in [PlutusScript::new(vec![1, 2, 3]), PlutusScript::new_v2(vec![4, 5, 6]), PlutusScript::new_v3(vec![7, 8])].iter().enumerate() {
        let mut list = PlutusScripts::new();
        list.add(ps); list.add(&ps.clone()); 
        list.add(&PlutusScript::from_bytes_with_version(ps.to_bytes(), &ps.language_version()).unwrap());
        let mut ws = TransactionWitnessSet::new();
        ws.set_plutus_scripts(&list);
        let n = TransactionWitnessSet::from_bytes(ws.to_bytes()).unwrap().plutus_scripts().map(|x| x.len()).unwrap_or(0);
        if n != 1 { failures.push(format!("plutus script {}: offered three times (built / cloned / decoded) it is emitted {} times", k, n)); }
    }
    assert!(failures.is_empty(), "{} scripts are emitted more than once; first: {}", failures.len(), failures[0]);
}

/// C18: every reference a script-locked input declares (script by reference, datum by reference) is among the body's reference
/// inputs — also when several inputs are locked by the same script and declare different references
pub fn c18_ref_inputs<S: Src>(_s: &mut S) {
    let mut failures: Vec<String> = Vec::new();
    let script = PlutusScript::new_v2(vec![7u8; 40]);
    let txin = |x: u8| TransactionInput::new(&TransactionHash::from([x; 32]), 0);
    let red = || Redeemer::new(&RedeemerTag::new_spend(), &bn(0), &PlutusData::new_bytes(vec![1]), &ExUnits::new(&bn(1000), &bn(100000)));
    let locked = |x: u8| TransactionUnspentOutput::new(&txin(x), &TransactionOutput::new(&EnterpriseAddress::new(0, &Credential::from_scripthash(&script.hash())).to_address(), &Value::new(&bn(20_000_000))));
    // variant 0: script by one reference, a datum reference per input; 1: inline script + datum first, datum reference later; 2: one script through two outpoints
    for variant in 0..3u8 {
        let mut ib = TxInputsBuilder::new();
        let mut expected: Vec<TransactionInput> = Vec::new();
        for i in 0..3u8 {
            let src = match variant {
                0 => { let r = txin(100); if i == 0 { expected.push(r.clone()); } PlutusScriptSource::new_ref_input(&script.hash(), &r, &Language::new_plutus_v2(), 40) }
                1 => PlutusScriptSource::new(&script),
                _ => { let r = txin(110 + i); expected.push(r.clone()); PlutusScriptSource::new_ref_input(&script.hash(), &r, &Language::new_plutus_v2(), 40) }
            };
            let datum = match (variant, i) {
                (0, _) | (1, 1) | (1, 2) => { let r = txin(150 + i); expected.push(r.clone()); DatumSource::new_ref_input(&r) }
                _ => DatumSource::new(&PlutusData::new_bytes(vec![i])),
            };
            if ib.add_plutus_script_utxo(&locked(1 + i), &PlutusWitness::new_with_ref(&src, &datum, &red())).is_err() { failures.push(format!("variant {}: input {} refused", variant, i)); }
        }
        let mut tb = TransactionBuilder::new(&config(true));
        tb.set_inputs(&ib);
        tb.set_fee(&bn(2_000_000));
        match tb.build_tx_unsafe() {
            Ok(tx) => {
                let refs = tx.body().reference_inputs();
                for e in &expected {
                    let found = refs.as_ref().map(|r| (0..r.len()).any(|k| r.get(k).to_bytes() == e.to_bytes())).unwrap_or(false);
                    if !found { failures.push(format!("variant {}: the reference input {} declared by a script-locked input is not among the body's reference inputs", variant, e.to_hex())); }
                }
            }
            Err(_) => failures.push(format!("variant {}: build failed", variant)),
        }
    }
    assert!(failures.is_empty(), "{} declared reference inputs are missing from the body; first: {}", failures.len(), failures[0]);
}

// ---------------------------------------------------------------- C07 / C19: the collateral return meets the minimum ADA of ITS OWN output
/// return addresses of every size class (enterprise 29, base 57, pointer with 10-byte naturals 59, Daedalus Byron 76+ bytes),
/// leftovers swept across the window around the output's own minimum: whenever a setter accepts, the stored return
/// carries at least coins_per_byte * (160 + its serialized size)
pub fn c19_return_min_ada<S: Src>(_s: &mut S) {
    let mut failures: Vec<String> = Vec::new();
    let cfg = config(false);
    let dc = DataCost::new_coins_per_byte(&bn(4310));
    let big = BigNum::from(u64::MAX);
    let addrs: Vec<(&str, Address)> = vec![
        ("enterprise", EnterpriseAddress::new(0, &kc(1)).to_address()),
        ("base", BaseAddress::new(0, &kc(1), &kc(2)).to_address()),
        ("pointer (10-byte naturals)", PointerAddress::new(0, &kc(1), &Pointer::new_pointer(&big, &big, &big)).to_address()),
        ("Byron (Daedalus)", ByronAddress::from_base58("DdzFFzCqrhsrcTVhLygT24QwTnNqQqQ8mZrq5jykUzMveU26sxaH529kMpo7VhPrt5pwW3dXeB2k3EEvKcNBRmzCfcQ7dTkyGzTs658C").unwrap().to_address()),
    ];
    let input_coin = 10_000_000u64;
    let mut accepted = 0usize;
    for (what, a) in &addrs {
        let own_min = u64::from(min_ada_for_output(&TransactionOutput::new(a, &Value::new(&bn(1_000_000))), &dc).unwrap());
        let mut left = own_min.saturating_sub(150_000);
        while left <= own_min + 20_000 {
            for mode in 0..2u8 {
                let mut tb = TransactionBuilder::new(&cfg);
                let mut col = TxInputsBuilder::new();
                col.add_regular_input(&addr(1, 1), &TransactionInput::new(&TransactionHash::from([2u8; 32]), 0), &Value::new(&bn(input_coin))).unwrap();
                tb.set_collateral(&col);
                let ok = if mode == 0 { tb.set_total_collateral_and_return(&bn(input_coin - left), a).is_ok() }
                         else { tb.set_collateral_return_and_total(&TransactionOutput::new(a, &Value::new(&bn(left)))).is_ok() };
                if !ok { continue; }
                let mut b = tb.clone();
                b.set_fee(&bn(0));
                if let Ok(body) = b.build() {
                    if let Some(r) = body.collateral_return() {
                        accepted += 1;
                        let need = u64::from(min_ada_for_output(&r, &dc).unwrap());
                        let have = u64::from(r.amount().coin());
                        if have < need && failures.len() < 5 { failures.push(format!("{} return address, setter {}: accepted a collateral return of {} lovelace, its own minimum is {}", what, mode, have, need)); }
                    }
                }
            }
            left += 1_000;
        }
    }
    // explicit returns that carry a data hash, an inline datum or a script reference: the minimum is that of the output as given
    for extra in 0..3u8 {
        let a = BaseAddress::new(0, &kc(1), &kc(2)).to_address();
        let mk = |coin: u64| { let mut o = TransactionOutput::new(&a, &Value::new(&bn(coin)));
            match extra { 0 => o.set_data_hash(&DataHash::from([5u8; 32])), 1 => o.set_plutus_data(&PlutusData::new_bytes(vec![7; 60])), _ => o.set_script_ref(&ScriptRef::new_native_script(&native_script(9))) }; o };
        let own_min = u64::from(min_ada_for_output(&mk(1_000_000), &dc).unwrap());
        let mut left = own_min.saturating_sub(400_000);
        while left <= own_min + 20_000 {
            let mut tb = TransactionBuilder::new(&cfg);
            let mut col = TxInputsBuilder::new();
            col.add_regular_input(&addr(1, 1), &TransactionInput::new(&TransactionHash::from([2u8; 32]), 0), &Value::new(&bn(input_coin))).unwrap();
            tb.set_collateral(&col);
            if tb.set_collateral_return_and_total(&mk(left)).is_ok() {
                let mut b = tb.clone();
                b.set_fee(&bn(0));
                if let Ok(body) = b.build() {
                    if let Some(r) = body.collateral_return() {
                        accepted += 1;
                        let need = u64::from(min_ada_for_output(&r, &dc).unwrap());
                        let have = u64::from(r.amount().coin());
                        if have < need && failures.len() < 5 { failures.push(format!("return with {}: accepted a collateral return of {} lovelace, its own minimum is {}", ["a data hash", "an inline datum", "a script reference"][extra as usize], have, need)); }
                    }
                }
            }
            left += 2_000;
        }
    }
    assert!(accepted >= 20, "vacuous: only {} accepted collateral returns", accepted);
    assert!(failures.is_empty(), "{} collateral returns below their own minimum ADA; first: {}", failures.len(), failures[0]);
}

// ---------------------------------------------------------------- C08: the fee of EVERY added input is part of "covered"
/// a builder whose implicit inputs (a withdrawal) already cover outputs + fee and which holds no input yet gets one offered
/// UTxO added; also ordinary shortfalls.  Whenever add_inputs_from reports success the builder's actual inputs cover the
/// outputs plus the minimum fee of the builder as it now is.
pub fn c08_first_input_fee<S: Src>(_s: &mut S) {
    let mut failures: Vec<String> = Vec::new();
    let mut successes = 0usize;
    let cfg = config(false);
    let strat = |k: u8| match k { 0 => CoinSelectionStrategyCIP2::LargestFirst, 1 => CoinSelectionStrategyCIP2::RandomImprove, 2 => CoinSelectionStrategyCIP2::LargestFirstMultiAsset, _ => CoinSelectionStrategyCIP2::RandomImproveMultiAsset };
    for strategy in 0..4u8 {
        for dust in [0u64, 1_000, 5_000, 20_000, 1_000_000] {
            for slack in [0u64, 500, 3_000, 10_000, 500_000] {
                for n_offered in [1usize, 2, 3] {
                    // first pass: learn the minimum fee of the builder without inputs, then fund the withdrawal to outputs + that fee + slack
                    let build = |withdrawal: u64| {
                        let mut tb = TransactionBuilder::new(&cfg);
                        tb.add_output(&TransactionOutput::new(&addr(1, 2), &Value::new(&bn(2_000_000)))).unwrap();
                        let mut w = Withdrawals::new();
                        w.insert(&RewardAddress::new(0, &kc(7)), &bn(withdrawal));
                        tb.set_withdrawals(&w);
                        tb
                    };
                    let fee0 = u64::from(build(3_000_000).min_fee().unwrap());
                    let mut tb = build(2_000_000 + fee0 + slack);
                    let mut utxos = TransactionUnspentOutputs::new();
                    for i in 0..n_offered {
                        let v = if i + 1 == n_offered { dust } else { 3_000_000 + i as u64 };
                        utxos.add(&TransactionUnspentOutput::new(&TransactionInput::new(&TransactionHash::from([0x51u8; 32]), i as u32), &TransactionOutput::new(&addr(1, 30 + i as u8), &Value::new(&bn(v)))));
                    }
                    if tb.add_inputs_from(&utxos, strat(strategy)).is_err() { continue; }
                    successes += 1;
                    let have = u64::from(tb.get_total_input().unwrap().coin());
                    let need = u64::from(tb.get_total_output().unwrap().coin()) + u64::from(tb.min_fee().unwrap());
                    if have < need && failures.len() < 5 {
                        failures.push(format!("strategy {:?}, {} offered (last worth {}), implicit inputs = outputs + fee + {}: success reported, inputs {} < outputs + minimum fee {}", strategy, n_offered, dust, slack, have, need));
                    }
                }
            }
        }
    }
    assert!(successes >= 50, "vacuous: {} successes", successes);
    assert!(failures.is_empty(), "{} successful selections do not cover outputs + fee; first: {}", failures.len(), failures[0]);
}

// ---------------------------------------------------------------- C06: the fee stored by the balancing step covers the final widths
/// change whose lovelace crosses the CBOR width classes (2^16, 2^32) while the change output's minimum ADA is small
/// (low coins_per_utxo_byte) or ordinary: after add_change_if_needed reports success the stored fee is at least the
/// linear fee of the full-size transaction as it now is
pub fn c06_change_fee_widths<S: Src>(_s: &mut S) {
    let mut failures: Vec<String> = Vec::new();
    let mut successes = 0usize;
    for cpb in [1u64, 10, 100, 1000, 4310] {
        for lovelace in [3_000_000u64, 70_000_000, 4_300_000_000, 70_000_000_000, 5_000_000_000_000] {
            // n_policies == 9: one asset entry with quantity 0 (no real change in assets)
            for n_policies in [0usize, 1, 3, 9] {
                for prefer_pure in [false, true] {
                    let cfg = TransactionBuilderConfigBuilder::new()
                        .fee_algo(&LinearFee::new(&bn(44), &bn(155381))).pool_deposit(&bn(500_000_000)).key_deposit(&bn(2_000_000))
                        .max_value_size(5000).max_tx_size(16384).coins_per_utxo_byte(&bn(cpb)).prefer_pure_change(prefer_pure).build().unwrap();
                    let mut tb = TransactionBuilder::new(&cfg);
                    let mut ma = MultiAsset::new();
                    for p in 0..(if n_policies == 9 { 1 } else { n_policies }) {
                        let mut assets = Assets::new();
                        assets.insert(&AssetName::new(vec![1, 2, p as u8]).unwrap(), &bn(if n_policies == 9 { 0 } else { 5 + p as u64 }));
                        ma.insert(&ScriptHash::from([4 + p as u8; 28]), &assets);
                    }
                    let iv = if n_policies > 0 { Value::new_with_assets(&bn(lovelace), &ma) } else { Value::new(&bn(lovelace)) };
                    if tb.add_regular_input(&addr(1, 1), &TransactionInput::new(&TransactionHash::from([1u8; 32]), 0), &iv).is_err() { continue; }
                    let payee = if cpb <= 10 { 5_000 } else { 1_200_000 };
                    if tb.add_output(&TransactionOutput::new(&addr(1, 2), &Value::new(&bn(payee)))).is_err() { continue; }
                    match std::panic::catch_unwind(std::panic::AssertUnwindSafe(|| tb.add_change_if_needed(&addr(1, 3)))) {
                        Err(_) => { failures.push("add_change_if_needed panics".into()); continue; }
                        Ok(Err(_)) => continue,
                        Ok(Ok(_)) => (),
                    }
                    if let Ok(body) = tb.build() {
                        let o0 = body.outputs().get(0);
                        if u64::from(o0.amount().coin()) != payee { failures.push(format!("the payee's output was changed by the balancing step: {} -> {}", payee, o0.amount().coin().to_str())); }
                    }
                    let fee = match tb.get_fee_if_set() { Some(f) => u64::from(f), None => continue };
                    let size = match tb.full_size() { Ok(s) => s as u64, Err(_) => continue };
                    successes += 1;
                    let need = 44 * size + 155381;
                    if fee < need && failures.len() < 5 {
                        failures.push(format!("coins_per_utxo_byte {}, {} lovelace in, {} policies, prefer_pure_change {}: fee {} below the linear fee {} of the {}-byte signed-size transaction", cpb, lovelace, n_policies, prefer_pure, fee, need, size));
                    }
                }
            }
        }
    }
    assert!(successes >= 60, "vacuous: {} successes", successes);
    assert!(failures.is_empty(), "{} balanced builders carry a fee below the minimum; first: {}", failures.len(), failures[0]);
}
